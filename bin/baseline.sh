#!/bin/bash
# baseline.sh [SRC] [BUILD] — build and run the repository's own pinned test suite (guard OFF).
# Default: SRC=/repo, BUILD=/repo/_build (the pinned build tree; reconfigured only if missing).
# For a scratch copy:  baseline.sh /var/tmp/x /var/tmp/x/_build
# Two Boost-dependent targets do not compile on the pinned tree either, hence `-k 0`.
# The pinned baseline is: 113 of 115 ctest executables pass (they contain the 469 recorded test
# cases); test-unit-index and test-unit-boost.multiprecision are "Not Run" because they do not build.
# Prints "BASELINE passed=<n> failed=<m> total=<t> unexpected=<list>"; exit 0 iff no test other than
# those two fails and passed >= 113.
SRC=${1:-/repo}
BUILD=${2:-$SRC/_build}
set -o pipefail
if [ ! -f "$BUILD/build.ninja" ]; then
  cmake -G Ninja -S "$SRC" -B "$BUILD" -DCMAKE_BUILD_TYPE=RelWithDebInfo -DCMAKE_CXX_FLAGS=-Wno-error >"$BUILD.configure.log" 2>&1 || { echo "configure failed"; tail -5 "$BUILD.configure.log"; exit 2; }
fi
cmake --build "$BUILD" -j16 -- -k 0 >"$BUILD/verif-build.log" 2>&1
grep -E "^FAILED:" "$BUILD/verif-build.log" | sort -u | head -20
ctest --test-dir "$BUILD" -j8 --timeout 900 >"$BUILD/verif-ctest.log" 2>&1
tail -3 "$BUILD/verif-ctest.log" | head -2
TOTAL=$(grep -Eo "tests failed out of [0-9]+" "$BUILD/verif-ctest.log" | grep -Eo "[0-9]+$")
FAILED=$(grep -Eo "[0-9]+ tests failed" "$BUILD/verif-ctest.log" | grep -Eo "^[0-9]+")
PASSED=$((TOTAL-FAILED))
UNEXPECTED=$(sed -n '/The following tests FAILED/,$p' "$BUILD/verif-ctest.log" | grep -E "^\s+[0-9]+ - " | grep -vE "test-unit-index|test-unit-boost.multiprecision" | sed 's/^\s*//' | tr '\n' ';')
echo "BASELINE passed=$PASSED failed=$FAILED total=$TOTAL unexpected=[$UNEXPECTED]"
[ -z "$UNEXPECTED" ] && [ "$PASSED" -ge 113 ]
