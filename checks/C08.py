def plan(tier):
    t = 1 if tier == 'thorough' else 0
    units = []
    for comp in ('g++', 'clang++'):
        for part in range(4):
            units.append(dict(name='%s-p%d' % (comp, part), src='C08.cpp', compiler=comp, mode='ndebug',
                              defines=['VF_TIER=%d' % t, 'VF_PART=%d' % part]))
    return dict(
        units=units,
        rule='state = (rounding tag, operand types L,R, a, b); 8-bit operand types enumerated completely '
             '(16-bit too in thorough), 32/64-bit over B0 x closure {k*b +- b/2 +- 1, limit -+ b/2 +- d}; '
             'non-trivial = quotient inexact (division) / both operands non-zero and representable in the common type (other operators)',
        bound=dict(full_bits=16 if t else 8, tags=['native', 'nearest', 'tie_to_pos_inf', 'neg_inf'],
                   wide_types=['i32', 'u32', 'i64', 'u64'], closure_multipliers=[-3, -2, -1, 0, 1, 2, 3, 7]),
        assumptions=['operands are taken as the values the built-in operator sees after the usual arithmetic conversions; '
                     'pairs where a negative operand is converted to an unsigned common type are outside the property and counted as skipped'],
        deadline_s=200 if not t else 1500,
    )


META = dict(
    text='Every (tag, operand-type pair, a, b) state of rounding division is enumerated: complete 8-bit (quick) and 16-bit (thorough) '
         'operand types, and for 32/64-bit types the complete product of the boundary lattice with its closure under the tie/near-tie and '
         'bias-overflow pre-images; each quotient is compared with the exactly rounded rational quotient, and UB/abort/hang are outcomes. '
         'All other operators under a rounding tag are compared with the built-in operator over the same spaces. Both compilers.',
    note='Bound: operand types up to 64 bits; 32/64-bit values only on the stated lattice. Trusted: g++/clang++, UBSan trap mode, 128-bit reference arithmetic.',
    technique='explicit-state enumeration (full 8/16-bit operand spaces, closure lattices for 32/64-bit) vs exact rational reference',
)
