import scaledgen as g


def programs(t):
    lines = []
    exps = g.EXPQ if not t else [-70, -64, -33, -31, -17, -8, -3, -1, 0, 1, 2, 7, 16, 31, 33, 70]
    narrow = [('i8', 'i8'), ('u8', 'u8'), ('i8', 'u8'), ('u8', 'i8')]
    wide = [('i16', 'i16'), ('i32', 'i32'), ('u32', 'u32'), ('i32', 'u32'), ('u32', 'i32'), ('i64', 'i64'), ('u64', 'u64'), ('i64', 'u64'), ('i32', 'i64'),
            ('i64', 'i32'), ('i8', 'i32'), ('i32', 'u8'), ('u16', 'i64'), ('u64', 'i8')]
    n = 0
    for (l, r) in narrow + wide:
        for le in exps:
            for re in exps:
                d = abs(le - re)
                if d >= min(g.promoted_digits(l), g.promoted_digits(r)):
                    continue
                n += 1
                if (l, r) in wide and n % (4 if not t else 2):
                    continue
                if (l, r) in narrow and not t and n % 2:
                    continue
                lines.append('P(%s, %d, %s, %d, 2)' % (l, le, r, re))
    for (l, r) in [('i8', 'i8'), ('i32', 'i64')]:
        for le in (-2, 0, 1):
            for re in (-1, 0, 2):
                lines.append('P(%s, %d, %s, %d, 10)' % (l, le, r, re))
    # elastic_integer: digits x signedness
    digs = [1, 2, 3, 5, 7, 8, 15, 16, 31, 32, 63] if not t else [1, 2, 3, 4, 5, 6, 7, 8, 15, 16, 31, 32, 33, 62, 63]
    k = 0
    for ld in digs:
        for rd in digs:
            for ls in 'SU':
                for rs in 'SU':
                    k += 1
                    if not t and k % 3:
                        continue
                    lines.append('T2(E%s<%d>, E%s<%d>)' % (ls, ld, rs, rd))
    for d in ([7, 31] if not t else [3, 7, 15, 31, 63]):
        for bi in ['i8', 'u8', 'i32', 'u32', 'i64', 'u64']:
            lines.append('T2(ES<%d>, %s)' % (d, bi))
            lines.append('T2(%s, EU<%d>)' % (bi, d))
    # elastic_scaled_integer
    for (ld, le, rd, re) in [(7, -3, 7, -3), (7, -3, 5, 1), (15, -8, 7, -1), (31, -16, 15, -4), (7, 2, 31, -10), (5, -2, 5, -6)]:
        lines.append('T2((ESS<%d, %d>), (ESS<%d, %d>))' % (ld, le, rd, re))
        lines.append('T2((ESS<%d, %d>), (ESU<%d, %d>))' % (ld, le, rd, re))
        lines.append('T2((ESU<%d, %d>), (ESS<%d, %d>))' % (ld, le, rd, re))
    # ... where the digits of the higher-exponent operand plus the exponent gap sit at a storage boundary (31..33, 63..65)
    for (ld, le, rd, re) in ([(16, 0, 16, -16), (20, 4, 8, -8), (48, 0, 16, -16), (31, 0, 31, -1), (15, 0, 15, -17), (63, 0, 8, -1)] if not t else
                             [(16, 0, 16, -16), (20, 4, 8, -8), (48, 0, 16, -16), (31, 0, 31, -1), (15, 0, 15, -17), (63, 0, 8, -1), (30, 0, 8, -1), (31, 0, 8, -2),
                              (62, 0, 8, -1), (31, -2, 7, -35), (40, 0, 7, -25), (8, 8, 8, -16), (32, 0, 16, -32)]):
        lines.append('T2((ESS<%d, %d>), (ESS<%d, %d>))' % (ld, le, rd, re))
        lines.append('T2((ESS<%d, %d>), (ESS<%d, %d>))' % (rd, re, ld, le))
        lines.append('T2((ESS<%d, %d>), (ESU<%d, %d>))' % (ld, le, rd, re))
        lines.append('T2((ESU<%d, %d>), (ESS<%d, %d>))' % (rd, re, ld, le))
    # wide_integer
    wd = [64, 65, 100, 128, 200]
    for ld in wd:
        for rd in wd:
            if not t and (ld + rd) % 3 == 0:
                continue
            # clang++ rejects == between multi-limb reps of different widths as ambiguous (C++20 reversed candidates);
            # g++ accepts it: those pairs exist as programs under g++ only
            tagc = '' if ld == rd else 'GXX '
            lines.append(tagc + 'T2(WS<%d>, WS<%d>)' % (ld, rd))
            lines.append(tagc + 'T2(WU<%d>, WU<%d>)' % (ld, rd))
    for d in [65, 100, 200]:
        for bi in ['i32', 'u32', 'i64', 'u64']:
            lines.append('T2(WS<%d>, %s)' % (d, bi))
            lines.append('T2(%s, WS<%d>)' % (bi, d))
            if bi[0] == 'u':
                lines.append('T2(WU<%d>, %s)' % (d, bi))
    for (rep, e) in [('i8', -3), ('i32', -8), ('i64', 5), ('u32', -1)]:
        for bi in ['i8', 'i32', 'u32', 'i64']:
            if abs(e) >= min(g.promoted_digits(rep), g.promoted_digits(bi)):
                continue
            lines.append('T2((SI<%s, %d>), %s)' % (rep, e, bi))
            lines.append('T2(%s, (SI<%s, %d>))' % (bi, rep, e))
    return lines


def _expand(line):
    if not line.startswith('T2('):
        return line
    body = line[3:-1]
    depth = 0
    for i, ch in enumerate(body):
        if ch in '(<':
            depth += 1
        elif ch in ')>':
            depth -= 1
        elif ch == ',' and depth == 0:
            a, b = body[:i].strip(), body[i + 1:].strip()
            break
    strip = lambda x: x[1:-1] if x.startswith('(') and x.endswith(')') else x
    return '{ using L_ = %s; using R_ = %s; prog<L_, R_>(FB, ST); }' % (strip(a), strip(b))


def plan(tier):
    t = 1 if tier == 'thorough' else 0
    allp = programs(t)
    gxx = [_expand(l[4:]) for l in allp if l.startswith('GXX ')]
    lines = [_expand(l) for l in allp if not l.startswith('GXX ')]
    parts = g.split(lines, 24 if t else 10)
    units = []
    for i, text in enumerate(g.split(gxx, 4 if t else 2)):
        units.append(dict(name='g++-wide%d' % i, src='C03.cpp', compiler='g++', mode='ndebug', opt='-O0',
                          defines=['VF_TIER=%d' % t], gen={'programs.inc': text}, shards=2))
    for comp in ('g++', 'clang++'):
        for i, text in enumerate(parts):
            if comp == 'clang++' and not t and i % 2:
                continue
            units.append(dict(name='%s-p%d' % (comp, i), src='C03.cpp', compiler=comp, mode='ndebug', opt='-O0',
                              defines=['VF_TIER=%d' % t], gen={'programs.inc': text}, shards=2))
    return dict(
        units=units,
        rule='state = (L type, R type, a, b) for %d generated type pairs (different-width multi-limb wide_integer pairs under g++ only: clang++ rejects them as ambiguous); 8-bit / <=8-digit reps enumerated completely, wider over the boundary lattice plus for every a the values of b '
             'that are equal to it after alignment and their +-1 neighbours; all six operators on every state; non-trivial = exponents differ, values equal or adjacent, or a '
             'built-in mixed-sign conversion changes an operand' % len(allp),
        bound=dict(programs=len(allp)),
        assumptions=['for two built-in reps the expected answer is the built-in comparison of the exponent-aligned reps under the usual arithmetic conversions (as the property states); everywhere else by value',
                     'alignment must fit decltype(rep << constant<shift>) (what the comparison is documented to widen to); otherwise the state is skipped'],
        deadline_s=1500 if t else 240,
    )


META = dict(
    text='For a generated matrix of comparable type pairs (scaled_integer rep/exponent pairs, elastic_integer and elastic_scaled_integer digit/signedness pairs, wide_integer width/signedness pairs, '
         'each also against built-in integers) all six comparison operators are evaluated on every operand pair of narrow types and on the lattice product (plus equal-after-alignment neighbours) of wide ones, '
         'and compared with the exact order of the denoted values; mutual consistency of the six answers is checked on every state.',
    note='Bound: type pairs from the generated matrix; wide types on the lattice only. Trusted: compilers, UBSan trap mode, BigInt reference.',
    technique='explicit-state enumeration over a generated instantiation matrix x operand values vs exact order of rationals',
)
