"""C20 — exp2(scaled_integer) within one unit of the truncated true value (exact for integral x);
<numbers> constants within one unit of the last place. Harness: harness/C20.cpp."""

BITS = dict(i8=8, u8=8, i16=16, u16=16, i32=32, u32=32, i64=64, u64=64)


def digits(rep):
    return BITS[rep] - (1 if rep[0] == 'i' else 0)


# ---- exp2 programs: (rep, exponent); the most negative exponent leaves exactly one integer bit.
# Positive exponents are accepted by cnl::exp2 up to 30 (signed reps; power_value static_asserts at
# 31) — all inputs are integral there.
def exp2_programs(t):
    progs = []
    if t:
        for rep in ('i8', 'u8', 'i16', 'u16'):
            progs += [(rep, e) for e in list(range(1 - digits(rep), 9)) + [16, 30]]
        progs += [('i32', e) for e in list(range(-30, 9)) + [12, 16, 20, 30]]
        progs += [('u32', e) for e in list(range(-31, 9)) + [12, 16, 20, 30, 31]]
    else:
        for rep in ('i8', 'u8'):
            progs += [(rep, e) for e in range(1 - digits(rep), 9)]
        progs += [('i16', e) for e in (-14, -13, -12, -8, -7, -4, -1, 0, 1, 3)]
        progs += [('u16', e) for e in (-15, -14, -13, -8, -7, -4, -1, 0, 1, 3)]
        progs += [('i32', e) for e in (-30, -29, -24, -21, -20, -16, -10, -3, -1, 0, 1, 5)]
        progs += [('u32', e) for e in (-31, -30, -24, -21, -20, -16, -10, -3, -1, 0, 1, 5)]
    return progs


# ---- constants: name -> number of integer digits of the constant (floor(log2 C) + 1)
CONSTS = dict(e=2, log2e=1, log10e=-1, pi=2, inv_pi=-1, inv_sqrtpi=0, ln2=0, ln10=2, sqrt2=1, sqrt3=1,
              inv_sqrt3=0, egamma=0, phi=1)
EMAX = 2  # at 2^2 every constant has become 0
# cells CNL cannot instantiate on the pinned tree: the (unused) series fallback e<Rep,2>() is still
# instantiated and its `previous + addend` aligns exponents 2 and 2-digits, a shift of `digits`
# -> power_value.h static_assert "attempted operation will result in overflow"
NOT_COMPILABLE = [('e', 'i32', 2), ('e', 'i64', 2)]


def const_cells(t):
    cells = []
    for name, idig in CONSTS.items():
        for rep in BITS:
            emin = idig - digits(rep)  # smallest exponent at which the constant fits
            if t:
                es = range(emin, EMAX + 1)
            else:
                es = sorted(set([emin, emin // 2, 0]))
            cells += [(name, rep, e) for e in es if (name, rep, e) not in NOT_COMPILABLE]
    return cells


def split(lines, nparts):
    parts = [[] for _ in range(nparts)]
    for i, l in enumerate(lines):
        parts[i % nparts].append(l)
    return ['\n'.join(p) + '\n' for p in parts if p]


def plan(tier):
    t = 1 if tier == 'thorough' else 0
    ex = exp2_programs(t)
    cc = const_cells(t)
    units = []
    narrow = ['X(%s, %d)' % p for p in ex if BITS[p[0]] <= 16]
    wide = ['X(%s, %d)' % p for p in ex if BITS[p[0]] == 32]
    klines = ['K(%s, %s, %d)' % c for c in cc]
    for comp in ('g++', 'clang++'):
        for i, text in enumerate(split(narrow, 4)):
            units.append(dict(name='%s-exp2n%d' % (comp, i), src='C20.cpp', compiler=comp, mode='ndebug',
                              defines=['VF_TIER=%d' % t], gen={'programs.inc': text}, shards=2))
        for i, text in enumerate(split(wide, 4 if t else 3)):
            units.append(dict(name='%s-exp2w%d' % (comp, i), src='C20.cpp', compiler=comp, mode='ndebug',
                              defines=['VF_TIER=%d' % t], gen={'programs.inc': text}, shards=16 if t else 8))
        # one unit per representation (thorough: and per half of the constants): an instantiation whose constant
        # initialiser is not a constant expression any more (overflow in the series fallback) is a hard compile
        # error that cannot be probed with SFINAE; it then takes down only its own unit and the others still decide
        for rep in BITS:
            rl = ['K(%s, %s, %d)' % c for c in cc if c[1] == rep]
            for i, text in enumerate(split(rl, 2 if t else 1)):
                units.append(dict(name='%s-const-%s-%d' % (comp, rep, i), src='C20.cpp', compiler=comp, mode='ndebug', opt='-O0',
                                  defines=['VF_TIER=%d' % t], gen={'programs.inc': text}, shards=1))
    if t:
        # CNL_DEBUG build of the narrow exp2 programs (assertions in shifts/conversions active)
        for i, text in enumerate(split(narrow, 4)):
            units.append(dict(name='g++-debug-exp2n%d' % i, src='C20.cpp', compiler='g++', mode='debug',
                              defines=['VF_TIER=1'], gen={'programs.inc': text}, shards=2))
    kfree = 20 if t else 16
    return dict(
        units=units,
        rule='exp2: state = (Rep, E, rep of x) for %d (Rep,E) programs; 8/16-bit reps: every value of the type; 32-bit reps: every x in the window '
             'E-2 <= x < digits+E when the format has <= %d fractional bits, otherwise every window value whose low (-E-%d) bits are all-0, all-1, 1000.. or 0111..; '
             'signed 32-bit below the window (true result truncates to 0): reps whose low 16 bits are 0000/ffff/8000/7fff plus the window/type edges. '
             'constants: state = (constant, Rep, E), %d instantiations, E from the smallest exponent at which the constant fits up to +2%s. '
             'non-trivial = x non-integral and x >= E (polynomial path) / constant rep non-zero'
             % (len(ex), kfree, kfree, len(cc), '' if t else ' (quick: smallest, half of it, and 0)'),
        bound=dict(exp2_programs=len(ex), exp2_reps=['i8', 'u8', 'i16', 'u16', 'i32', 'u32'], free_fraction_bits_32bit=kfree,
                   constants=sorted(CONSTS), constant_instantiations=len(cc), constant_reps=sorted(BITS), constant_max_exponent=EMAX,
                   constant_cells_left_out_not_compilable=['%s_v<scaled_integer<%s,power<%d>>>' % c for c in NOT_COMPILABLE]),
        assumptions=[
            'glibc exp2l (x87 long double) has relative error <= 2^-60 on [-34, 32]; wherever x - E = n/2^k with k <= 7 this is cross-checked by exact integer '
            'powers (c^(2^k) vs 2^n) and a disagreement is reported as class oracle/exp2l_error_exceeds_assumption; cases where the assumed error leaves two '
            'candidate truncations are accepted against either and counted under outcome inconclusive_window_two_candidates_accepted',
            'precondition "result representable" is decided exactly as x < digits + E; "exact for integral x" is applied for integral x >= E (2^x a multiple of the '
            'resolution); for x < E the true result truncates to 0 and the at-most-one clause applies',
            'constants are compared with 45-decimal truncations of the true values (sympy, six of them cross-checked by series / integer square roots in Python)',
            'the series fallback of pi_v/e_v is selected only for more than 62 fractional digits, which no 8..64-bit rep offers while the constant fits; '
            '__int128 reps are outside the stated bound and not instantiated (pi_v over __int128 with > 62 fractional digits exceeds the constexpr operation limit)',
        ],
        deadline_s=1500 if t else 240,
    )


META = dict(
    text='cnl::exp2 is run on every value of every 8/16-bit scaled_integer format with at least one integer bit (all exponents from there up to +8, and 16, 30) '
         'and, for 32-bit reps, on every x of the window E-2 <= x < digits+E for formats with up to 20 fractional bits and on the stated low-bit lattice for finer '
         'formats; each result rep is compared with the truncated true 2^x (exact powers of two for integral x; exp2l with a 2^-60 error allowance, cross-checked '
         'by exact integer powers where x has <= 7 fractional bits, otherwise). Every std::numbers constant specialisation is instantiated for every 8..64-bit rep '
         'and every exponent at which it fits, and compared with 45-digit literals. UB traps, aborts and hangs are outcomes. Both compilers.',
    note='Bound: reps up to 32 bits for exp2 (32-bit formats finer than 2^-20 on a lattice; negative x far below the resolution on a lattice), 8..64-bit reps for '
         'the constants. Trusted: g++/clang++, UBSan trap mode, BigInt/Rational reference, glibc exp2l to 2^-60 (cross-checked exactly on the coarse formats).',
    technique='explicit-state enumeration of real instantiations (full 8/16-bit formats, windows/lattices for 32-bit) vs exact / error-bounded reference',
)
