def _units(prop, tier, modes):
    t = 1 if tier == 'thorough' else 0
    units = []
    parts = range(15)
    # quick: the two native cells (GCC -> intrinsic, Clang -> portable); thorough: all four cells
    cells = [('g++', 1), ('clang++', 0)] + ([('g++', 0), ('clang++', 1)] if t else [])
    for comp, path in cells:
        if True:
            for mode in modes:
                for part in parts:
                    if mode == 'debug' and not t and not (comp == 'g++'):
                        continue  # quick: CNL_DEBUG contract mode on the intrinsic cell only (the one with an unreachable() call)
                    units.append(dict(name='%s-path%d-%s-p%d' % (comp, path, mode, part), src='C06.cpp', compiler=comp, mode=mode, path=path, opt='-O0',
                                      defines=['VF_TIER=%d' % t, 'VF_PART=%d' % part, 'VF_PROP=%d' % prop], shards=2 if part >= 4 else 1))
    return units


def plan(tier):
    t = tier == 'thorough'
    return dict(
        units=_units(6, tier, ['ndebug']),
        rule='state = (operator, L, R, a, b), each evaluated under saturated, throwing and trapping tags; 8-bit operand pairs complete, '
             'wider types over B0(step %d) x closure {limit -+ b, limit / b, limit >> s, each +-1}; shift counts 0..66, 126..130 and large lattice values; '
             'float sources: neighbours (nextafter x3, +-0.25..2) of every destination limit; non-trivial = exact result out of range or within 2 of a limit, '
             'or a negative operand with an unsigned result type' % (1 if t else 3),
        bound=dict(types=['i8', 'u8', 'i16', 'u16', 'i32', 'u32', 'i64', 'u64', 'i128/u128 (6 pairs)', 'long long / unsigned long long / wchar_t / char16_t / char32_t (11 pairs)'], operators=['add', 'sub', 'mul', 'div', 'shl', 'minus', 'convert', 'compound assignment', '++/--'],
                   tags=['saturated', 'throwing', 'trapping'], lattice_step=1 if t else 3, paths=['intrinsic', 'portable'], compilers=['g++', 'clang++']),
        assumptions=['float->integer conversion: sources s with s outside [lowest,max] but trunc(s) inside are not judged (the "exact result" is ambiguous there); non-finite sources excluded',
                     'compound assignment is judged with the two-step semantics a = L(a op b) (operator result range-checked in the promoted type, then in L)'],
        deadline_s=1500 if t else 280,
    )


META = dict(
    text='Every state (operator, operand types, a, b) of the tagged operators, convert, overflow_integer operators, compound assignment and ++/-- is enumerated '
         '(8-bit operand pairs completely; 16..128-bit over the boundary lattice closed under the pre-images of the result-type limits) under all three checked tags, '
         'in all four compiler x detection-path cells; the observed outcome (value / exception / abort message / trap) is compared with exact integer arithmetic on the operand values.',
    note='Bound: operand types up to 128 bits, wide types only on the stated lattice. Trusted: compilers, UBSan trap mode, BigInt reference, the two guarded hooks.',
    technique='explicit-state enumeration of (operator, type pair, operands) x tags x build configurations vs exact BigInt reference',
)
