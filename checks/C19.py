PARTS = {
    0: '32-bit built-ins, complete (thorough: also 32-bit elastic/scaled operands complete)',
    1: 'narrow built-ins complete; 64/128-bit built-ins and wide_integer over the lattice',
    2: 'elastic_integer<1..16,N> complete; wider elastic_integer over the lattice',
    3: 'scaled_integer<int8|int16, power<E>> complete, every even E in [-60,60]',
    4: 'scaled_integer<uint8|uint16, power<E>> complete, every even E in [-60,60]',
    5: 'scaled_integer radix 10/3, 32/64/128-bit and wide reps (lattice), elastic reps',
}


def plan(tier):
    t = 1 if tier == 'thorough' else 0
    units = []

    def unit(comp, mode, part):
        heavy = part == 0
        return dict(name='%s-%s-p%d' % (comp, mode, part), src='C19.cpp', compiler=comp, mode=mode,
                    defines=['VF_TIER=%d' % t, 'VF_PART=%d' % part, 'VF_FULL32=1'],
                    shards=16 if heavy else (4 if part in (1, 2, 5) else 1))

    # the long-running units first: the worker pool takes tasks in list order
    for mode in (('ndebug', 'debug') if t else ('ndebug',)):
        for comp in ('g++', 'clang++'):
            units.append(unit(comp, mode, 0))
    for comp in ('g++', 'clang++'):
        for part in (1, 2, 3, 4, 5):
            units.append(unit(comp, 'ndebug', part))
    # CNL_DEBUG builds (CNL_ASSERT active): the light parts in quick, everything in thorough
    for comp in ('g++', 'clang++'):
        for part in ((1, 2, 3, 4, 5) if t else (1, 2)):
            units.append(unit(comp, 'debug', part))
    return dict(
        units=units,
        rule='state = (operand type, x), x >= 0 by construction (negative values are outside the property and never generated); '
             'complete programs enumerate every non-negative value of the type (bool, char, char8_t, char16_t, int8..uint32, elastic_integer<1..16,N>, '
             'scaled_integer<8/16-bit rep, power<E>> for every even E in [-60,60]%s); lattice programs enumerate every x < 2^%d, '
             'r^2-1, r^2, r^2+1, r(r+1) for every r of the root lattice {2^k+-2, isqrt(2^j)+-1, 2^16|2^32|2^64 +- %d, [rmax-%d, rmax], byte patterns}, '
             'and x in {2^k+-1, max-3..max, max/2, max/2+1, max/3, byte patterns}; '
             'checked: got >= 0, got^2 <= x < (got+1)^2 exactly, result digits/exponent read from the result type; non-trivial = x > 1'
             % (', 32-bit elastic/scaled operands, elastic_integer<17..20>' if t else '', 20 if t else 16, 16384 if t else 4096, 16384 if t else 4096),
        bound=dict(full_types=['bool', 'char', 'char8_t', 'char16_t', 'i8', 'u8', 'i16', 'u16', 'i32', 'u32'],
                   lattice_types=['wchar_t', 'char32_t', 'i64', 'u64', 'll64', 'ull64', 'i128', 'u128', 'wide_integer<100>',
                                  'wide_integer<128,unsigned>', 'wide_integer<200>', 'wide_integer<200,unsigned>', 'wide_integer<300>'],
                   elastic_full_digits='1..16 x Narrowest in {int, unsigned, int8, uint8}' + (' + <31,int> <32,unsigned> <17|18,int> <19|20,unsigned> <20,int8>' if t else ''),
                   elastic_lattice_digits=[24, 31, 32, 63, 64, 100, 127, 128],
                   scaled_exponents='every even E in [-60,60] for int8/uint8/int16/uint16 reps (radix 2); E in {-6..6} for radix 10 and 3; '
                                    'E in {-60,-32,-30,-2,0,2,30,32,60} for 32/64-bit reps; {-60,-2,0,60} for 128-bit; {-60,0,60} for wide_integer<200>',
                   dense_bits=20 if t else 16, window=16384 if t else 4096, parts=PARTS),
        assumptions=['the value range of wide_integer<D> and elastic_integer<D> is [0, 2^D - 1] (numeric_limits<T>::max(), cross-checked at run time for the wide types); '
                     'physically representable values beyond the declared digits are outside the type',
                     'operands are built with cnl::_impl::from_rep and read back with to_rep / uintwide_t::crepresentation outside the guarded call; '
                     'every lattice operand is read back and compared with the intended value before use'],
        exhaustive_over='complete non-negative range of every type listed under full_types / elastic_full_digits / narrow scaled reps; the stated lattice for the others',
        deadline_s=240 if not t else 1500,
    )


META = dict(
    text='cnl::sqrt is executed on every non-negative value of bool/char/8/16/32-bit integers, of elastic_integer<1..16,N> and of '
         'scaled_integer<8/16-bit, power<E>> for every even E in [-60,60], and on the perfect-square/neighbour/pronic lattice of 64/128-bit integers, '
         'wide_integer<100|128|200|300>, wide elastic_integer and wide-rep scaled_integer. Each returned value r is checked against the defining '
         'inequality r >= 0, r^2 <= x < (r+1)^2 in exact arithmetic (unsigned __int128 / BigInt); the halved digit count of the elastic result and the '
         'halved exponent of the scaled result are read from the result type; UB traps, aborts and non-termination (> 2 s CPU) are outcomes. '
         'g++ and clang++, NDEBUG and CNL_DEBUG.',
    note='Bound: 64-bit and wider operands only on the stated lattice; exponents outside [-60,60] and radixes other than 2, 3, 10 not instantiated. '
         'Trusted: g++/clang++, UBSan trap mode, engine/ref BigInt.',
    technique='explicit-state enumeration (complete narrow types incl. all 2^32 32-bit values, boundary lattices for wide types) vs exact defining inequality',
)
