"""C15 - literals, parse(), constant/value-driven deduction. Generates the token and constant lists
for harness/C15.cpp (modes 2 and 3); modes 1 and 4 enumerate at run time."""

ALPHA = {10: '01459', 16: '0178fF', 8: '0347', 2: '01'}
ALPHA_SHORT_THOROUGH = {10: '0123456789', 16: '01789aAfF', 8: '01234567', 2: '01'}  # harness: BaseSpec::alphabet_short
PREFIX = {10: [''], 16: ['0x', '0X'], 8: ['0'], 2: ['0b', '0B']}
STRIDE = {10: 18, 16: 15, 8: 21, 2: 63}
INTMAX_BITS = 127  # cnl::intmax_t is __int128 under gnu++20


def digit_value(c):
    return int(c, 16)


def token_int(tok):
    """value of an integer token (own reader, used only to filter what CNL accepts at compile time)"""
    s = tok.replace("'", '')
    if len(s) >= 2 and s[0] == '0':
        if s[1] in 'xX':
            return int(s[2:], 16)
        if s[1] in 'bB':
            return int(s[2:], 2)
        return int(s[1:], 8)
    return int(s, 10)


def bodies(alpha, maxlen):
    """every body digit (digit | ' digit)* of at most maxlen characters, depth first"""
    out = []

    def rec(b):
        out.append(b)
        for c in alpha:
            if len(b) + 1 <= maxlen:
                rec(b + c)
            if len(b) + 2 <= maxlen:
                rec(b + "'" + c)
    for c in alpha:
        rec(c)
    return out


def with_separators(d, layout):
    n = len(d)
    if layout == 1:
        return ''.join(ch + ("'" if (n - 1 - i) % 3 == 0 and i != n - 1 else '') for i, ch in enumerate(d))
    if layout == 2 and n > 1:
        return d[0] + "'" + d[1:]
    if layout == 3:
        return "'".join(d)
    return d


def lengths(base, maxn, full_upto, every):
    st = STRIDE[base]
    return [n for n in range(1, maxn + 1) if n <= full_upto or n % st in (0, 1, st - 1) or n % every == 0 or n >= maxn - 1]


def int_tokens(t, maxbits, wide):
    """integer tokens in all four bases: every short body, and long tokens of the stated lengths
    (first x fill x last: the all-max and the 1 0..0 pattern for every length, the other
    combinations in rotation); tokens that do not fit maxbits are dropped (CNL rejects them at compile time)"""
    toks = []
    for base in (10, 16, 8, 2):
        alpha = ALPHA[base]
        short_len = (4 if base in (10, 2) else 3) if t else 2
        for i, b in enumerate(bodies(alpha, short_len)):
            if base == 10 and len(b) > 1 and b[0] == '0':
                continue
            if base == 16 and not t and ('F' in b):
                continue
            pre = PREFIX[base][i % len(PREFIX[base])]
            toks.append(pre + b)
        # long tokens
        if wide:
            maxn = {10: 156, 16: 130, 8: 173, 2: 516}[base]
            if t:
                # decimal: every length (the width estimate depends on the digit count)
                ns = lengths(base, maxn, {10: 156, 16: 40, 8: 48, 2: 130}[base], {10: 5, 16: 5, 8: 6, 2: 16}[base])
            else:
                ns = lengths(base, maxn, {10: 11, 16: 6, 8: 8, 2: 12}[base], 1000)
        else:
            maxn = {10: 39, 16: 33, 8: 44, 2: 128}[base]
            ns = list(range(4, maxn + 1)) if t else lengths(base, maxn, {10: 8, 16: 6, 8: 6, 2: 8}[base], {10: 9, 16: 8, 8: 11, 2: 21}[base])
        combos = [(a, f, l) for a in alpha for f in alpha for l in alpha]
        hi = alpha[-2] if base == 16 else alpha[-1]  # 'f' rather than 'F' for the all-max pattern
        for n in ns:
            if n < 4:
                continue
            pats = [(hi, hi, hi), ('1', '0', '0')]
            extra = 4 if t else (1 if n % 3 == 0 else 0)
            for k in range(extra):
                pats.append(combos[(n * 7 + k * 13) % len(combos)])
            if base != 10 and (t or n % 2):
                pats.append(('0', hi, alpha[1]))  # leading zero
            for j, (a, f, l) in enumerate(pats):
                if base == 10 and a == '0':
                    a = '4'
                d = a + f * (n - 2) + l
                layout = (n + j) % 4
                pre = PREFIX[base][(n + j) % len(PREFIX[base])]
                toks.append(pre + with_separators(d, layout))
    if not wide:
        # the extremes of intmax_t
        m = 2 ** maxbits - 1
        toks += [str(m), hex(m), '0' + oct(m)[2:], bin(m), with_separators(str(m), 1), '0X' + with_separators(hex(m)[2:].upper(), 3),
                 str(2 ** (maxbits - 1)), hex(2 ** (maxbits - 1)), str(2 ** 64), str(2 ** 63), str(2 ** 63 - 1), hex(2 ** 64 - 1)]
    seen = set()
    out = []
    for tk in toks:
        if tk in seen:
            continue
        seen.add(tk)
        if maxbits is not None and token_int(tk) >= 2 ** maxbits:
            continue
        if wide and tk[0] != '0' and len(tk.replace("'", '')) == 19 and token_int(tk) >= 2 ** 63:
            # 19 decimal digits are estimated as 63 bits: wide_integer<63> is a 64-bit long and the constant
            # evaluation overflows -> CNL does not compile the token (recorded in the report, cannot be in a unit)
            continue
        out.append(tk)
    return out


def fraction_tokens_cnl(t):
    """decimal tokens with a radix point for _cnl: I.F / .F / I. ; total significant digits <= 36 so that the
    significand x 10 still fits intmax_t (descale() multiplies before it divides)"""
    toks = []
    ints = ['', '0', '00', '1', '9', '45', '10', "1'000"] if t else ['', '0', '1', '45']
    fbodies = [b for b in bodies(ALPHA[10], 4 if t else 3)]
    if not t:
        fbodies = fbodies[::2]
    for i, f in enumerate(fbodies):
        ip = ints[i % len(ints)]
        toks.append(ip + '.' + f)
        if t and len(f) <= 2:
            for ip2 in ints:
                toks.append(ip2 + '.' + f)
    for ip in ['0', '1', '9', '45', '100', "1'0"]:
        toks.append(ip + '.')
    # long significands: every total digit count
    for n in (range(2, 37) if t else [2, 5, 9, 10, 17, 18, 19, 20, 27, 35, 36]):
        for ilen in sorted(set([0, 1, n // 2, n - 1])):
            flen = n - ilen
            if flen < 1:
                continue
            for pat in (['9', '1', '5z'] if t else ['9', '5z']):
                if pat == '9':
                    d = '9' * n
                elif pat == '1':
                    d = '1' + '0' * (n - 2) + '1' if n > 1 else '1'
                else:
                    d = '5' + '0' * (n - 1)
                ip, fp = d[:ilen], d[ilen:]
                if len(ip) > 1 and ip[0] == '0':
                    continue
                toks.append(ip + '.' + fp)
    return list(dict.fromkeys(toks))


def fraction_tokens_cnl2(t):
    """decimal tokens with a radix point that are binary fractions m / 2^j (the documented precondition of _cnl2)"""
    toks = []
    for j in (range(1, 21) if t else [1, 2, 3, 5, 8, 13]):
        ms = [1, 3, 2 ** j - 1, 2 ** j + 1, 5 * 2 ** j + 1, 2 ** (j - 1) if j > 1 else 1, 3 * 2 ** j + 2 ** (j - 1)]
        if t:
            ms += [2 ** (j + 7) - 1, 0x55555 % (2 ** (j + 3)) | 1]
        for m in dict.fromkeys(ms):
            ip, fr = m >> j, (m % 2 ** j) * 5 ** j
            f = str(fr).rjust(j, '0')
            toks.append('%d.%s' % (ip, f))
            if ip == 0:
                toks.append('.' + f)
                if j <= 5:
                    toks.append('00.' + f)
            if j <= 6:
                toks.append('%d.%s0' % (ip, f))
                toks.append('%d.%s00' % (ip, f))
    toks += ['0.0', '1.0', '2.', '0.', '6.50', "1'0.5", "0.1'25"]
    return list(dict.fromkeys(toks))


def descale_accepts(tok, out_radix, maxv=2 ** INTMAX_BITS - 1):
    """does cnl::_impl::descale<intmax_t, out_radix, true>(significand, power<-f, 10>) terminate normally for this
    fractional token? (a transcription of the loop, used ONLY to keep tokens that CNL cannot compile out of the
    generated translation units - never as an oracle; the rejected shapes are exercised at run time in mode 5)"""
    s = tok.replace("'", '')
    ip, _, fp = s.partition('.')
    sig, e = int((ip + fp) or '0'), -len(fp)
    if sig == 0 or e == 0:
        return True
    it = 0
    while e != 0 or sig % out_radix == 0:
        it += 1
        if it > 5000:
            return False
        if sig % 10:
            if sig > maxv // out_radix:
                return False
            sig *= out_radix
            continue
        sig //= 10
        e += 1
    return True


def literal_lines(t):
    """returns dict kind -> list of L(...) lines"""
    def lines(toks, suffix):
        out = []
        for i, tk in enumerate(toks):
            neg = 1 if i % 3 == 2 else 0
            expr = ('-(%s%s)' if neg else '%s%s') % (tk, suffix)
            out.append('L("%s", %d, %s)' % (tk, neg, expr))
        return out
    ints127 = int_tokens(t, INTMAX_BITS, False)
    wide = int_tokens(t, None, True)
    # _cnl2 gets every other integer token (the same parse, a different descale radix)
    return dict(
        c=lines(ints127, '_c'),
        cnl=lines(ints127[::2] + [tk for tk in fraction_tokens_cnl(t) if descale_accepts(tk, 10)], '_cnl'),
        cnl2=lines(ints127[1::2] + [tk for tk in fraction_tokens_cnl2(t) if descale_accepts(tk, 2)], '_cnl2'),
        wide=lines(wide, '_wide'),
    )


def constant_lines(t):
    """V("id", expression) lines: the boundary lattice of int64 (typed long), a part of it typed int, and
    (thorough: denser) 65..127-bit values typed __int128. The most negative value of a type is excluded
    (digits_v<constant<V>> negates V: not a constant expression there)."""
    vals64 = set()
    step = 1 if t else 4
    for d in range(0, 4):
        vals64 |= {d, -d, 2 ** 63 - 1 - d, -(2 ** 63 - 1) + d}
    for k in range(1, 63, step):
        for d in (-1, 0, 1):
            vals64 |= {2 ** k + d, -(2 ** k + d)}
    for k in (31, 32, 62):
        for d in (-1, 0, 1):
            vals64 |= {2 ** k + d, -(2 ** k + d)}
    for w in (8, 16, 32, 64):
        for pat in (0x55, 0xAA, 0x33, 0x0F, 0xCC):
            p = 0
            for _ in range(w // 8):
                p = (p << 8) | pat
            if p >= 2 ** 63:
                p >>= 1
            vals64 |= {p, -p}
            if t and p < 2 ** 40:
                vals64 |= {p << 20, -(p << 20)}
    vals64 |= {444, 1000, 136, 40, 0x123400000000, 1536, 0xAA}  # the documented examples
    lines = []

    def lit(v, suffix):
        return '%d%s' % (v, suffix) if v >= 0 else '-%d%s' % (-v, suffix)
    for i, v in enumerate(sorted(vals64, key=lambda x: (abs(x), x))):
        lines.append('V("%d/i64", %s)' % (v, lit(v, 'L')))
        if abs(v) < 2 ** 31 and (t or i % 5 == 0):
            lines.append('V("%d/i32", %s)' % (v, lit(v, '')))
    ks = range(63, 127, 3 if t else 16)
    for k in list(ks) + [126]:
        for d in (-1, 0, 1):
            for sg in (1, -1):
                v = sg * (2 ** k + d)
                e = '(((__int128)1 << %d) + %d)' % (k, d)
                lines.append('V("%d/i128", %s%s)' % (v, '-' if sg < 0 else '', e))
    # constants of UNSIGNED value types, with and without the type's top bit set (the sign test of digits_v<constant<V>>
    # and of the factories must look at the value, not at its bit pattern)
    for (ty, w, cast) in [('u8', 8, '(unsigned char)%dU'), ('u16', 16, '(unsigned short)%dU'), ('u32', 32, '%dU'), ('u64', 64, '%dULL')]:
        us = {0, 1, 2, 3, 2 ** (w - 1) - 1, 2 ** (w - 1), 2 ** (w - 1) + 1, 2 ** w - 1, 2 ** w - 2, (2 ** w - 1) // 3, (2 ** w - 1) // 3 * 2, 2 ** (w - 1) + 2 ** (w - 2), 2 ** (w - 2)}
        for v in sorted(us):
            lines.append('V("%d/%s", %s)' % (v, ty, cast % v))
    lines.append('V("%d/u128", ~(unsigned __int128)0 >> 1)' % (2 ** 127 - 1))
    lines.append('V("%d/u128", ((unsigned __int128)1 << 100) + 5)' % (2 ** 100 + 5))
    v = 2 ** 127 - 1
    lines.append('V("%d/i128", (__int128)(~(unsigned __int128)0 >> 1))' % v)
    lines.append('V("%d/i128", -(__int128)(~(unsigned __int128)0 >> 1))' % -v)
    v = int('55' * 16, 16)
    lines.append('V("%d/i128", (((__int128)0x5555555555555555 << 64) | 0x5555555555555555))' % v)
    lines.append('V("%d/i128", (((__int128)0x5555555555555555 << 64) | 0x5555555500000000))' % (v & ~0xffffffff))
    return lines


def split(lines, nparts):
    parts = [[] for _ in range(nparts)]
    for i, l in enumerate(lines):
        parts[i % nparts].append(l)
    return ['\n'.join(p) + '\n' for p in parts]


def plan(tier):
    t = 1 if tier == 'thorough' else 0
    units = []
    tdef = 'VF_TIER=%d' % t
    # (1) run-time parse
    for comp in ('g++', 'clang++'):
        for part in range(3):
            units.append(dict(name='parse-%s-p%d' % (comp, part), src='C15.cpp', compiler=comp, mode='ndebug',
                              defines=[tdef, 'C15_MODE=1', 'VF_PART=%d' % part], shards=6 if t else 3))
    # (2) literals
    lit = literal_lines(t)
    # one suffix kind per unit: a change that makes the library REJECT some tokens at compile time then breaks
    # only the units of that kind (reported as INFRA for those units) while the other kinds still run
    nlit = 6 if t else 1
    parts = {k: split(v, nlit) for k, v in lit.items()}
    kinds = ['c', 'cnl', 'cnl2', 'wide']
    for comp in ('g++', 'clang++'):
        for kind in kinds:
            for i in range(nlit):
                if comp == 'clang++' and not t and kind in ('c', 'wide'):
                    continue
                gen = {'lit_%s.inc' % kk: (parts[kk][i] if kk == kind else '\n') for kk in kinds}
                units.append(dict(name='lit-%s-%s-p%d' % (comp, kind, i), src='C15.cpp', compiler=comp, mode='ndebug', opt='-O0',
                                  defines=[tdef, 'C15_MODE=2', 'C15_PART=%d' % (kinds.index(kind) * 100 + i)], shards=1, gen=gen))
    # (3) deduction from constants
    cl = constant_lines(t)
    ncon = 16 if t else 4
    cparts = split(cl, ncon)
    for comp in ('g++', 'clang++'):
        for i in range(ncon):
            if comp == 'clang++' and i % 2:
                continue
            units.append(dict(name='const-%s-p%d' % (comp, i), src='C15.cpp', compiler=comp, mode='ndebug', opt='-O0',
                              defines=[tdef, 'C15_MODE=3', 'C15_PART=%d' % i], shards=1, gen={'constants.inc': cparts[i]}))
    # (4) deduction from run-time values
    for comp in ('g++', 'clang++'):
        for part in range(6):
            units.append(dict(name='value-%s-p%d' % (comp, part), src='C15.cpp', compiler=comp, mode='ndebug', opt='-O0',
                              defines=[tdef, 'C15_MODE=4', 'VF_PART=%d' % part], shards=1))
    # (5) the descale step of _cnl/_cnl2 at run time
    for comp in ('g++', 'clang++'):
        units.append(dict(name='descale-%s' % comp, src='C15.cpp', compiler=comp, mode='ndebug', opt='-O0',
                          defines=[tdef, 'C15_MODE=5'], shards=2, hang_ticks=6))
    ntok = sum(len(v) for v in lit.values())
    return dict(
        units=units,
        rule='parse: state = (T, token) for every token [+-]? prefix digit (digit | \' digit)* with a body of at most %d characters over the stated digit alphabets, '
             'and long tokens of every digit count up to the widest T (+2) x (first x fill x last digit | the alphabet in rotation from every offset) x separator layout x sign x zero padding; '
             'literals: state = generated token x {_c, _cnl, _cnl2, _wide} (%d tokens, every third negated); deduction: state = (factory, constant V) for %d generated constants '
             'and (factory, source type, value) over the boundary lattice of every built-in integer type; '
             'non-trivial = token has a sign, a separator or more than one chunk / digit (parse, literals), V is negative, has trailing zero bits or is wider than int (deduction)'
             % (6 if t else 5, ntok, len(cl)),
        bound=dict(parse_types=['i64', 'u64', 'i128', 'u128', 'wide_integer<128>', 'wide_integer<200>', 'wide_integer<512>', 'wide_integer<200,unsigned>'],
                   alphabets_long_tokens={str(k): v for k, v in ALPHA.items()},
                   alphabets_short_tokens={str(k): v for k, v in (ALPHA_SHORT_THOROUGH if t else ALPHA).items()}, short_body_len=6 if t else 5,
                   udl_descale='I.F, I from 20 boundary integers, F every string of 1..3 digits over 0125, radix 10 and 2',
                   literal_tokens={k: len(v) for k, v in lit.items()}, constants=len(cl),
                   factories=['make_elastic_integer', 'make_elastic_scaled_integer', 'make_static_integer', 'make_static_number', 'make_scaled_integer',
                              'elastic_integer{} / scaled_integer{} (g++ only: alias CTAD)'],
                   value_sources=['i8', 'u8', 'i16', 'u16', 'i32', 'u32', 'i64', 'u64', 'i128', 'u128']),
        assumptions=['tokens that CNL rejects at compile time cannot be in a generated translation unit: literal tokens are limited to values below 2^127 for _c/_cnl/_cnl2 '
                     '(cnl::intmax_t), fractional _cnl tokens to 36 significant digits, fractional _cnl2 tokens to binary fractions m/2^j with j <= 20; '
                     "a separator directly after the octal prefix (0'7) is exercised through parse() only",
                     'the promised digits/exponent are taken from the doc comments and unit tests: _cnl/_cnl2 normalise trailing zero digits of the token radix / trailing zero bits into the exponent and '
                     'use the used digits of the rest; _wide and _c only promise a type wide enough; make_scaled_integer and CTAD are held to exponent == trailing zero bits and digits >= used digits',
                     'the most negative value of a constant\'s type is excluded (digits_v<constant<V>> evaluates -V)'],
        deadline_s=1500 if t else 420,
    )


META = dict(
    text='Run-time parse<T>() is run on every token of the numeric-token grammar with a body of up to 6 characters (reduced digit alphabets, all prefixes, signs and separator '
         'placements) and on long tokens of every digit count up to the widest T, for T from int64 to wide_integer<512>, against a big-integer reading of the token. '
         'The four literal operators are compiled over generated token lists (all bases, every length up to 127 bits / 516 binary digits, decimal fractions) and the resulting objects '
         'are read back exactly and compared with the rational the token denotes, their type with the promised digits and exponent. The deduction factories and CTAD are instantiated for a '
         'generated boundary lattice of constants and run on the lattice of every built-in integer type; value, digits and exponent are compared with the promise.',
    note='Bound: reduced digit alphabets; long tokens only as first x fill x last; literal tokens below 2^127 (except _wide); constants on the stated lattice. '
         'Trusted: compilers, UBSan trap mode, BigInt/Rational reference, the harness\'s own token reader.',
    technique='explicit-state enumeration of the token grammar automaton (run time) and of generated instantiation lists (compile time) vs exact big-integer/rational reference',
)
