def plan(tier):
    t = 1 if tier == 'thorough' else 0
    corner_digits = [1, 2, 3, 7, 8, 15, 16, 31, 32, 33, 48, 62, 63] if t else [1, 3, 8, 16, 31, 32, 63]
    wide_digits = [31, 64, 100, 130, 200] if t else [64, 130]
    value_parts = list(range(1, 8)) if t else [1, 2, 3, 5, 7]
    units = []
    for comp in ('g++', 'clang++'):
        if comp == 'clang++' and not t:
            parts = [3, 7] + [100 + d for d in (8, 32, 63)] + [1130]
        else:
            parts = value_parts + [100 + d for d in corner_digits] + [1000 + d for d in wide_digits]
        for part in parts:
            units.append(dict(name='%s-p%d' % (comp, part), src='C05.cpp', compiler=comp, mode='ndebug', opt='-O0',
                              defines=['VF_TIER=%d' % t, 'VF_PART=%d' % part], shards=2))
    # corner products with 8- and 16-bit Narrowest types (the storage ladder below int)
    for d in ([8, 15] if not t else [1, 7, 8, 9, 15]):
        units.append(dict(name='g++-narrow%d' % d, src='C05.cpp', compiler='g++', mode='ndebug', opt='-O0',
                          defines=['VF_TIER=%d' % t, 'VF_PART=%d' % (3000 + d)], shards=2))
    # elastic_integer op built-in integer (either side)
    for d in ([3, 8] if not t else [1, 3, 7, 8]):
        units.append(dict(name='g++-builtin%d' % d, src='C05.cpp', compiler='g++', mode='ndebug', opt='-O0',
                          defines=['VF_TIER=%d' % t, 'VF_PART=%d' % (2000 + d)], shards=2))
    # comparisons of elastic_scaled_integers with different exponents/digits/signedness (kernel of C03)
    cmp_lines = []
    for (ld, le, rd, re) in [(40, 0, 8, -4), (8, -4, 40, 0), (20, 12, 20, 0), (31, 1, 31, 0), (7, 2, 31, -10), (33, 0, 5, -3), (5, -3, 33, 0)] + ([(63, 0, 8, -1), (15, -8, 48, 4)] if t else []):
        for (lf, rf) in [('ESS', 'ESS'), ('ESS', 'ESU'), ('ESU', 'ESS'), ('ESU', 'ESU')]:
            cmp_lines.append('{ using L_ = %s<%d, %d>; using R_ = %s<%d, %d>; prog<L_, R_>(FB, ST); }' % (lf, ld, le, rf, rd, re))
    for d in (8, 32):
        for bi in ('i8', 'i32', 'u32', 'i64'):
            cmp_lines.append('{ using L_ = EU<%d>; using R_ = %s; prog<L_, R_>(FB, ST); }' % (d, bi))
            cmp_lines.append('{ using L_ = %s; using R_ = ES<%d>; prog<L_, R_>(FB, ST); }' % (bi, d))
    import scaledgen as g0
    for i, text in enumerate(g0.split(cmp_lines, 4 if t else 2)):
        units.append(dict(name='g++-escmp%d' % i, src='C03.cpp', compiler='g++', mode='ndebug', opt='-O0',
                          defines=['VF_TIER=%d' % t], gen={'programs.inc': text}, shards=2))
    # elastic_scaled_integer (= scaled_integer<elastic_integer<D>, power<E>>): + - * and unary - through the scaled_integer
    # kernel of C01 with elastic reps whose digits + alignment gap land on the storage boundaries
    import C01
    import scaledgen as g
    es = C01.elastic_boundary_programs(t, unsigned=True)
    for d in (3, 7):
        for (le, re) in [(-2, -2), (-4, 1), (3, -3)]:
            es.append('P(ES<%d>, %d, ES<%d>, %d, 2)' % (d, le, d, re))
            es.append('P(EU<%d>, %d, ES<%d>, %d, 2)' % (d, le, d + 1, re))
    for i, text in enumerate(g.split(es, 6 if t else 3)):
        units.append(dict(name='g++-escaled%d' % i, src='C01.cpp', compiler='g++', mode='ndebug', opt='-O0',
                          defines=['VF_TIER=%d' % t], gen={'programs.inc': text}, shards=2))
    return dict(
        units=units,
        rule='values: every operand pair of elastic_integer<L,{signed,unsigned}> x elastic_integer<R,...> for L in %s, R in 1..7, narrowest int8_t/uint8_t and int/unsigned, '
             'operators + - * / %% (divisor != 0), six comparisons, unary -,+, << and >> by constant<0|1|3>; corners: complete product of the corner values '
             '{0,+-1,+-2,+-3,+-7,+-(2^D-1),+-(2^D-2),+-2^(D-1)(+-1),+-2^(D/2)(+-1),0101..} for digit pairs from %s x same; '
             'elastic_scaled_integer: + - * unary - over lattice values for digit/exponent pairs whose digits + alignment gap hit 8/16/32/64 (+-1); '
             'non-trivial = an operand at the edge of its declared range or operand types differ' % (value_parts, corner_digits),
        bound=dict(value_digits_lhs=value_parts, value_digits_rhs=[1, 7], corner_digits=corner_digits, wide_storage_corner_digits=wide_digits, narrowest=['int8_t/uint8_t', 'int16_t/uint16_t (corners)', 'int/unsigned']),
        assumptions=['>> by a constant is judged as floor(x / 2^k) (arithmetic shift)',
                     'bitwise operators are not part of the property and are not checked'],
        deadline_s=1500 if t else 240,
    )


META = dict(
    text='Every operand pair of every elastic_integer pairing with 1..7 digits (all signedness and two narrowest-storage families) is executed for + - * / % , '
         'comparisons, unary and constant shifts and compared with exact arithmetic; result digits/signedness are read from the result type and the value must lie in the '
         'range numeric_limits reports. For digit counts up to 127 (thorough: 200, multi-word storage) the complete product of the corner values of both operand ranges is enumerated.',
    note='Bound: full operand spaces only for <= 7 digits; larger digit counts at corner values (operators are monotone between corners). Trusted: compilers, UBSan trap mode, BigInt reference.',
    technique='explicit-state enumeration over (digit pair, signedness pair, narrowest, operator, operands) vs exact integer reference',
)
