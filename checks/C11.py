import scaledgen as g

R = ['NEA', 'TIE', 'NEG', 'NAT']
O = ['SAT', 'THR', 'TRP']


def programs(t):
    lines = []
    # small types: everything enumerated
    combos = [(r, o) for r in R for o in O] if t else [('NEA', 'SAT'), ('NEA', 'THR'), ('NEG', 'TRP'), ('TIE', 'SAT'), ('NAT', 'THR'), ('TIE', 'TRP')]
    for (r, o) in combos:
        for d in ([2, 3, 4] if t else [3]):
            ty = 'SInt<%d, %s, %s>' % (d, r, o)
            lines.append('prog_machine<%s, %s, %s>("static_integer<%d,i8>");' % (ty, r, o, d))
            lines.append('prog_trees<%s, %s, %s>("static_integer<%d,i8>", DEPTH > (%d > 3 ? 2 : 3) ? (%d > 3 ? 2 : 3) : DEPTH, 8, 1);' % (ty, r, o, d, d, d))
        for (d, e) in ([(3, -2), (4, 1)] if not t else [(3, -2), (4, 1), (4, -5), (2, 0), (5, -1)]):
            ty = 'SNum<%d, %d, %s, %s>' % (d, e, r, o)
            lines.append('prog_machine<%s, %s, %s>("static_number<%d,%d,i8>");' % (ty, r, o, d, e))
            lines.append('prog_trees<%s, %s, %s>("static_number<%d,%d,i8>", 2, 8, 1);' % (ty, r, o, d, e))
    # conversions into small static types (int, double, plain scaled_integer sources) and built-in operands
    for (r, o) in ([('NEA', 'SAT'), ('NEG', 'THR'), ('TIE', 'TRP'), ('NAT', 'SAT')] if not t else [(r, o) for r in R for o in O]):
        lines.append('prog_convert<SInt<4, %s, %s>, %s, %s>("static_integer<4,i8>");' % (r, o, r, o))
        for (d, e) in ([(4, -2), (4, 1), (7, 0)] if not t else [(4, -2), (4, 1), (5, -5), (3, 0), (7, 0), (7, -3)]):
            lines.append('prog_convert<SNum<%d, %d, %s, %s>, %s, %s>("static_number<%d,%d,i8>");' % (d, e, r, o, r, o, d, e))
    # the same conversions / built-in operand arithmetic with UNSIGNED Narrowest storage (negative built-in operands)
    for (r, o) in ([('NEA', 'SAT'), ('NEG', 'THR')] if not t else [('NEA', 'SAT'), ('NEG', 'THR'), ('TIE', 'TRP'), ('NAT', 'THR')]):
        lines.append('prog_convert<SInt<4, %s, %s, u8>, %s, %s>("static_integer<4,u8>");' % (r, o, r, o))
        lines.append('prog_convert<SNum<4, -2, %s, %s, u8>, %s, %s>("static_number<4,-2,u8>");' % (r, o, r, o))
    # unsigned narrowest storage (results of - and unary - must still be exact: the intermediate types turn signed)
    for (r, o) in ([('NEA', 'SAT'), ('NEG', 'THR')] if not t else [('NEA', 'SAT'), ('NEG', 'THR'), ('TIE', 'TRP')]):
        lines.append('prog_machine<SInt<3, %s, %s, u8>, %s, %s>("static_integer<3,u8>");' % (r, o, r, o))
        lines.append('prog_trees<SInt<3, %s, %s, u8>, %s, %s>("static_integer<3,u8>", 2, 8, 1);' % (r, o, r, o))
        for d in ([16, 32, 64] if not t else [8, 16, 31, 32, 33, 63, 64]):
            lines.append('prog_trees<SInt<%d, %s, %s, unsigned>, %s, %s>("static_integer<%d,unsigned>", 2, 0, %d);' % (d, r, o, r, o, d, 8 if d <= 16 else 16))
        lines.append('prog_trees<SNum<32, -16, %s, %s, unsigned>, %s, %s>("static_number<32,-16,unsigned>", 2, 0, 16);' % (r, o, r, o))
    # storage boundaries (lattice leaves, depth 1-2)
    for (r, o) in ([('NEA', 'SAT'), ('NEG', 'THR')] if not t else [('NEA', 'SAT'), ('NEG', 'THR'), ('TIE', 'TRP'), ('NAT', 'SAT')]):
        for d in ([7, 16, 31, 63, 64, 100] if not t else [7, 8, 15, 16, 31, 32, 48, 63, 64, 80, 96, 100, 200]):  # products land on 14..400 digits incl. 128, 160, 192 (multiples of the limb width)
            ty = 'SInt<%d, %s, %s, int>' % (d, r, o)
            depth = 2 if d <= 31 else 1
            lines.append('prog_trees<%s, %s, %s>("static_integer<%d,int>", %d, 0, %d);' % (ty, r, o, d, depth, 8 if d <= 16 else 16))
        for (d, e) in [(16, -8), (31, -16)] + ([(63, -40)] if t else []):  # (100,-50): narrowing a 200-digit product divides multi-limb reps of different widths, which the limb class does not provide
            ty = 'SNum<%d, %d, %s, %s, int>' % (d, e, r, o)
            lines.append('prog_trees<%s, %s, %s>("static_number<%d,%d,int>", 1, 0, 16);' % (ty, r, o, d, e))
    return lines


def plan(tier):
    t = 1 if tier == 'thorough' else 0
    lines = programs(t)
    parts = g.split(lines, 40 if t else 16)
    units = []
    for i, text in enumerate(parts):
        for comp in ('g++', 'clang++'):
            if comp == 'clang++' and i % (2 if t else 4):
                continue
            units.append(dict(name='%s-p%d' % (comp, i), src='C11.cpp', compiler=comp, mode='ndebug', opt='-O0',
                              defines=['VF_TIER=%d' % t], gen={'programs.inc': text}, shards=4))
    # undefined_overflow_tag is observable in CNL_DEBUG mode through the abort hook
    und = ['prog_machine<SInt<3, NEA, UND>, NEA, UND>("static_integer<3,i8>");',
           'prog_trees<SInt<3, NEA, UND>, NEA, UND>("static_integer<3,i8>", 2, 8, 1);',
           'prog_machine<SNum<3, -2, NEG, UND>, NEG, UND>("static_number<3,-2,i8>");']
    units.append(dict(name='g++-debug-undefined', src='C11.cpp', compiler='g++', mode='debug', opt='-O0',
                      defines=['VF_TIER=%d' % t], gen={'programs.inc': '\n'.join(und) + '\n'}, shards=4))
    return dict(
        units=units,
        rule='register machine: every state (a,b) of static_integer<D,R,O,int8_t> / static_number<D,E,R,O,int8_t> x transitions {a=T(a op b), a op= b for + - * /, a=-a, ++a, --a, a++, a--, six comparisons}; '
             'expression trees: all trees with <= 2 operator nodes over {+,-,*,/} (thorough: plus 16 three-operator shapes) over all leaf values, un-narrowed result and result narrowed back to the leaf type; '
             'storage boundaries D in {7..200} over lattice leaves; every state counts as non-trivial (each runs >= 1 narrowing or multi-operator history)',
        bound=dict(programs=len(lines) + len(und), max_depth=3 if t else 2, rounding=R, overflow=O + ['undefined (CNL_DEBUG)']),
        assumptions=['division rounds at the resolution of the CNL result type of that node (exponent read from the type); narrowing rounds by the mode, then range-checks',
                     'an overflow signal raised inside a tree although the final value fits is counted (outcome tree_signal_although_result_fits) but accepted: the property forbids silent wrong values, not early signals',
                     'division by zero anywhere in the tree: state skipped'],
        deadline_s=1700 if t else 260,
    )


META = dict(
    text='Explicit-state exploration of the real operators: (1) for small static_integer/static_number types the complete transition relation of a two-register machine (every state x every arithmetic, compound, unary and increment '
         'transition, each narrowed back into the register type with the rounding and overflow behaviour of its tags) and (2) every expression tree up to depth 2 (3 in thorough) over all leaf values, compared node by node with exact rational '
         'arithmetic; (3) the same trees over boundary-lattice leaves for digit counts that cross the 8/16/32/64/128-bit and multi-word storage boundaries. Overflow signals (clamp / exception / abort message) are outcomes.',
    note='Bound: full leaf spaces only for <= 5 digits; depth <= 3; larger digit counts on the lattice. Trusted: compilers, UBSan trap mode, abort hook, BigInt/Rational reference.',
    technique='explicit-state search over operation histories (register-machine transition relation + bounded expression trees) vs exact rational reference model',
)
