def plan(tier):
    t = 1 if tier == 'thorough' else 0
    units = []
    # part 0 holds the fraction<int8_t> programs (2^32 operand tuples in thorough): listed first so
    # that its shards start first
    for part in range(3):
        for comp in ('g++', 'clang++'):
            units.append(dict(name='%s-p%d' % (comp, part), src='C16.cpp', compiler=comp, mode='ndebug',
                              defines=['VF_TIER=%d' % t, 'VF_PART=%d' % part], shards=16))
    sub8 = [-128, -127, -126, -125, -100, -86, -85, -65, -64, -63, -52, -51, -33, -32, -31, -17, -16, -15, -12, -10,
            -9, -8, -7, -6, -5, -4, -3, -2, -1, 0, 1, 2, 3, 4, 5, 6, 7, 8, 9, 10, 12, 15, 16, 17, 31, 32, 33, 51, 63, 64,
            65, 85, 100, 125, 126, 127]
    return dict(
        units=units,
        rule='state = (program, operands, operation). bin8: fraction<int8_t> pairs (n1,d1,n2,d2) x {+,-,*,/,the six comparisons}'
             + (': ALL 2^32 tuples' if t else ': complete 4-fold product of the 56-value sub-lattice SUB8 of int8')
             + ' (plus std::hash of both operands whenever operator== returns true); bin<LN,LD,RN,RD>: 16/32/64-bit and mixed '
             'component types, complete 4-fold product of the B0 lattices with n2 closed under the pre-images (+-1) of '
             '"a cross product, their sum/difference or n1*n2 equals a limit of the type it is computed in"; single<N,D>: one '
             'fraction x {unary +, unary -, conversion to float/double/long double, reduce, canonical, hash}: all 2^16 '
             'fraction<int8_t>, lattice^2 closed under the multipliers {2,3,-3,6,10,16,255,-1} for wider types. '
             'non-trivial = both numerators non-zero and not both denominators +-1 (binary) / n != 0 and d != 1 (single)',
        bound=dict(int8_pairs='all 2^32, all ten binary operators' if t else 'SUB8^4',
                   SUB8=sub8,
                   int8_single_fractions='all 2^16',
                   lattice_step_bin=dict(i16=1 if t else 2, i32=2 if t else 4, i64=4 if t else 8),
                   lattice_step_single=dict(i16=1, i32=1 if t else 2, i64=1 if t else 4),
                   bin_types=['i16,i16,i16,i16', 'i32,i32,i32,i32', 'i64,i64,i64,i64', 'i8,i8,i32,i32', 'i32,i32,i64,i64',
                              'i16,i64,i32,i8', 'i64,i32,i8,i16'],
                   single_types=['i8,i8', 'i16,i16', 'i32,i32', 'i64,i64', 'i8,i16', 'i32,i8', 'i16,i64', 'i64,i32'],
                   canon_types_reduce_canonical_hash_only=['u8', 'u16', 'u32', 'u64', 'i128'],
                   component_width_max=64),
        assumptions=[
            '"cross products fit" is taken relative to the built-in type each product/sum is formed in by operators.h '
            '(decltype of the component product, e.g. int for int8/int16 components); tuples where any of them does not fit are '
            'excluded per operator and counted as skipped',
            'reduce/canonical/hash are only exercised inside the std::gcd contract [numeric.ops.gcd]: |n| and |d| representable in '
            'common_type_t<N,D> (this excludes a component equal to the most negative value of that type, e.g. -128 for '
            'fraction<int8_t>); canonical additionally needs the negated reduced components to fit',
            'conversion to floating point is compared with F(n)/F(d) evaluated in the target format F by the exact FloatX '
            'reference (round-to-nearest-even conversion of each component, correctly rounded division), including the sign of zero',
            'lowest terms of a zero fraction: denominator +-1 (reduce) / +1 (canonical)',
            'only signed built-in component types; unsigned and class-type components are outside this check'],
        deadline_s=240 if not t else 1500,
    )


META = dict(
    text='cnl::fraction is compared with exact rational arithmetic. For fraction<int8_t> every pair of fractions with non-zero '
         'denominators (2^32 operand tuples, thorough; the complete product of a 56-value boundary sub-lattice, quick) goes through '
         '+, -, *, / and all six comparison operators, results being judged by integer cross-multiplication in 128-bit arithmetic and '
         'the order by the sign of n1/d1 - n2/d2 whatever the signs of the denominators; every pair operator== calls equal is also '
         'hashed. All 2^16 single fraction<int8_t> values go through unary +/-, conversion to the three floating-point formats, reduce, '
         'canonical and std::hash (hash compared with the hash of the canonical representative of the same rational value). '
         '16/32/64-bit and mixed component types are explored over boundary lattices closed under the overflow pre-images, with the '
         '"products fit" precondition decided exactly in big-integer arithmetic before CNL runs. UB traps, aborts and hangs are outcomes. '
         'Both compilers.',
    note='Bound: exhaustive for 8-bit components only; 16..64-bit components on the stated lattices; signed built-in component types. '
         'Trusted: g++/clang++, UBSan trap mode, 128-bit and Big reference arithmetic, FloatX.',
    technique='explicit-state enumeration (complete int8 operand space, closure lattices for wider types) vs exact rational reference',
)
