"""C10 — wide_integer is N-bit two's complement, independent of the limb type.

plan() first try-compiles a handful of one-line snippets against the tree under test (syntax only,
in parallel, a few seconds): expressions that do not compile cannot be put into a harness TU without
turning a finding into a build break, so the harness is told about them through a generated include
file and reports them as violations of class ill_formed/... (or instantiate/...) at run time.
"""
import concurrent.futures as cf
import hashlib
import json
import os
import subprocess
import tempfile

REPO = os.environ.get('VERIF_REPO', '/repo')

PRELUDE = r'''
#include <cnl/wide_integer.h>
#include <sstream>
using W = cnl::wide_integer<200, int>;
using U = cnl::wide_integer<200, unsigned>;
using W8 = cnl::wide_integer<200, signed char>;
using W64 = cnl::wide_integer<200, long>;
using W100 = cnl::wide_integer<100, int>;
using W300 = cnl::wide_integer<300, int>;
W w{5}; U u{7u}; W8 w8{3}; W64 w64{4}; W100 w100{9}; W300 w300{1};
char buf[900];
'''

# name -> (expression text shown in the report, statement compiled)
FEATURES = {
    'not_signed': ('~cnl::wide_integer<200,int>{5}', 'auto r = ~w;'),
    'not_unsigned': ('~cnl::wide_integer<200,unsigned>{7u}', 'auto r = ~u;'),
    'to_chars_signed': ('cnl::to_chars(first, last, cnl::wide_integer<200,int>{5})', 'auto r = cnl::to_chars(buf, buf + 900, w);'),
    'to_chars_unsigned': ('cnl::to_chars(first, last, cnl::wide_integer<200,unsigned>{7u})', 'auto r = cnl::to_chars(buf, buf + 900, u);'),
    'mixed_width_arith': ('cnl::wide_integer<200>{5} + cnl::wide_integer<300>{1}', 'auto r = w + w300; auto s = w300 - w; auto t = w * w300;'),
    'mixed_width_cmp_rel': ('cnl::wide_integer<200>{5} < cnl::wide_integer<300>{1}', 'auto r = w < w300; auto s = w300 <= w; auto t = w300 >= w; auto v = w > w300;'),
    'mixed_width_cmp_eq': ('cnl::wide_integer<200>{5} == cnl::wide_integer<300>{1}', 'auto r = w == w300; auto s = w300 == w; auto t = w300 != w;'),
    'mixed_sign_arith': ('cnl::wide_integer<200,int>{5} + cnl::wide_integer<200,unsigned>{7u}', 'auto r = w + u; auto s = w * u;'),
    'mixed_sign_cmp': ('cnl::wide_integer<200,int>{5} < cnl::wide_integer<200,unsigned>{7u}', 'auto r = w < u;'),
    'or_xor_builtin': ('cnl::wide_integer<200>{5} | 3, cnl::wide_integer<200>{5} ^ 3', 'auto r = w | 3; auto s = w ^ 3; auto t = w | 7u;'),
    'or_wide100': ('cnl::wide_integer<200>{5} | cnl::wide_integer<100>{9}', 'auto r = w | w100;'),
    'mixed_narrowest/wide_plus_wide': ('cnl::wide_integer<200,int>{5} + cnl::wide_integer<200,signed char>{3}', 'auto r = w + w8;'),
    'mixed_narrowest/int8_limbs_mod_unsigned_int': ('cnl::wide_integer<200,signed char>{3} % 3u', 'auto r = w8 % 3u;'),
    'mixed_narrowest/int8_limbs_minus_wide100': ('cnl::wide_integer<200,signed char>{3} - cnl::wide_integer<100>{9}', 'auto r = w8 - w100;'),
    'mixed_narrowest/int64_limbs_lt_int': ('cnl::wide_integer<200,long>{4} < 3', 'auto r = w64 < 3;'),
}

NARROWEST = {(8, 1): 'std::int8_t', (8, 0): 'std::uint8_t', (16, 1): 'std::int16_t', (16, 0): 'std::uint16_t',
             (32, 1): 'std::int32_t', (32, 0): 'std::uint32_t', (64, 1): 'std::int64_t', (64, 0): 'std::uint64_t'}


_CACHE = None
_CACHE_PATH = os.path.join(os.path.dirname(os.path.abspath(__file__)), '..', 'build', 'c10_probe_cache.json')


def _tree_signature():
    """content hash of every header of the tree under test: a cached probe result is reused only for identical sources"""
    h = hashlib.sha1()
    root = os.path.join(REPO, 'include')
    for d, dirs, files in sorted(os.walk(root)):
        dirs.sort()
        for f in sorted(files):
            fp = os.path.join(d, f)
            h.update(fp.encode())
            with open(fp, 'rb') as fh:
                h.update(fh.read())
    for tool in ('g++', 'clang++'):
        try:
            h.update(subprocess.run([tool, '--version'], stdout=subprocess.PIPE).stdout)
        except Exception:
            pass
    return h.hexdigest()


def _cache_load():
    global _CACHE
    if _CACHE is None:
        sig = _tree_signature()
        _CACHE = dict(sig=sig, res={})
        try:
            with open(_CACHE_PATH) as fh:
                c = json.load(fh)
            if c.get('sig') == sig:
                _CACHE = c
        except Exception:
            pass
    return _CACHE


def _cache_save():
    try:
        os.makedirs(os.path.dirname(_CACHE_PATH), exist_ok=True)
        with open(_CACHE_PATH + '.tmp', 'w') as fh:
            json.dump(_CACHE, fh)
        os.replace(_CACHE_PATH + '.tmp', _CACHE_PATH)
    except Exception:
        pass


def _try_compile(job):
    comp, std, text = job
    key = hashlib.sha1((comp + '|' + std + '|' + text).encode()).hexdigest()
    cache = _cache_load()
    if key in cache['res']:
        return cache['res'][key]
    r = _try_compile_uncached(job)
    cache['res'][key] = r
    return r


def _try_compile_uncached(job):
    comp, std, text = job
    with tempfile.NamedTemporaryFile('w', suffix='.cpp', delete=False) as fh:
        fh.write(text)
        path = fh.name
    try:
        p = subprocess.run([comp, '-std=' + std, '-fsyntax-only', '-w', '-DNDEBUG', '-DJOHNMCFARLANE_CNL_VERIF',
                            '-I' + os.path.join(REPO, 'include'), path], stdout=subprocess.DEVNULL, stderr=subprocess.DEVNULL)
        return p.returncode == 0
    finally:
        os.unlink(path)


TYPE_SNIPPET = 'cnl::wide_integer<%d, %s> x%d_%d_%d{1}; x%d_%d_%d = x%d_%d_%d * x%d_%d_%d;'


def _type_stmt(d, s, l):
    return TYPE_SNIPPET % ((d, NARROWEST[(l, s)]) + (d, s, l) * 4)


def probe(digits, comp, std='gnu++20', features=True):
    head = '#include <cnl/wide_integer.h>\n#include <cstdint>\n'
    jobs = {}
    for name, (_, stmt) in (FEATURES.items() if features else ()):
        jobs[('f', name)] = PRELUDE + 'int main(){ %s return 0; }\n' % stmt
    # all eight Narrowest of one Digits in one TU; only a failing group is probed type by type
    for d in digits:
        jobs[('g', d)] = head + 'int main(){ %s return 0; }\n' % ' '.join(_type_stmt(d, s, l) for (l, s) in NARROWEST)
    # sanity: the probe mechanism itself must work, otherwise everything would look ill-formed
    jobs[('sanity',)] = head + 'cnl::wide_integer<200, int> w{5};\nint main(){ auto r = w + w; return 0; }\n'
    with cf.ThreadPoolExecutor(16) as ex:
        res = dict(zip(jobs.keys(), ex.map(_try_compile, [(comp, std, text) for text in jobs.values()])))
        if not res[('sanity',)]:
            raise RuntimeError('C10: the try-compile probe cannot compile `wide_integer<200>{5} + wide_integer<200>{5}` with %s against %s' % (comp, REPO))
        single = {}
        for d in digits:
            for (l, s) in NARROWEST:
                if res[('g', d)]:
                    res[('t', d, s, l)] = True
                else:
                    single[('t', d, s, l)] = head + 'int main(){ %s return 0; }\n' % _type_stmt(d, s, l)
        res.update(dict(zip(single.keys(), ex.map(_try_compile, [(comp, std, text) for text in single.values()]))))
    _cache_save()
    return res


def probe_inc(res):
    have = lambda n: int(res[('f', n)])
    lines = ['// generated by checks/C10.py from try-compiles against the tree under test']
    lines.append('#define C10_HAVE_PUBLIC_NOT %d' % int(have('not_signed') and have('not_unsigned')))
    lines.append('#define C10_HAVE_TO_CHARS_SIGNED %d' % have('to_chars_signed'))
    lines.append('#define C10_HAVE_TO_CHARS_UNSIGNED %d' % have('to_chars_unsigned'))
    lines.append('#define C10_HAVE_MIXED_WIDTH_ARITH %d' % have('mixed_width_arith'))
    lines.append('#define C10_HAVE_MIXED_WIDTH_CMP_REL %d' % have('mixed_width_cmp_rel'))
    lines.append('#define C10_HAVE_MIXED_WIDTH_CMP_EQ %d' % have('mixed_width_cmp_eq'))
    lines.append('#define C10_HAVE_MIXED_SIGN_ARITH %d' % have('mixed_sign_arith'))
    lines.append('#define C10_HAVE_OR_XOR_BUILTIN %d' % have('or_xor_builtin'))
    bad = ['{%d, %d, %d},' % (k[1], k[2], k[3]) for k, ok in sorted(res.items(), key=lambda kv: str(kv[0])) if k[0] == 't' and not ok]
    lines.append('#define C10_BAD_TYPES ' + ' '.join(bad))
    ill = ['{"%s", "%s"},' % (n, FEATURES[n][0].replace('"', '\\"')) for n in FEATURES if not res[('f', n)]]
    lines.append('#define C10_ILL_FORMED ' + ' '.join(ill))
    return '\n'.join(lines) + '\n'


def plan(tier):
    t = 1 if tier == 'thorough' else 0
    digits = [128, 129, 200, 256, 512, 1024, 2048] if t else [128, 200, 512, 1024]
    single_word = [64, 65, 100, 127] if t else [65]
    units = []
    results = {}
    for comp in ('g++', 'clang++'):
        res = results[comp] = probe(digits + single_word, comp)
        inc = probe_inc(res)

        def unit(part, name, opt, shards):
            units.append(dict(name='%s-%s' % (comp, name), src='C10.cpp', compiler=comp, mode='ndebug', opt=opt,
                              defines=['VF_TIER=%d' % t, 'VF_PART=%d' % part], shards=shards, gen={'c10_probe.inc': inc}))

        quick_clang = (comp == 'clang++' and not t)
        # (A) the 2^32-pair programs first: they are the long poles
        unit(0, 'vend16-bin-s', '-O2', 16 if t else 2)
        unit(1, 'vend16-bin-u', '-O2', 16 if t else 2)
        # (B) public type
        wide_opt = '-O1' if t else '-O0'
        for d in sorted(digits, reverse=True):
            if quick_clang and d != 200:
                continue
            for s in (1, 0):
                if d == 128 and s == 0:
                    continue  # wide_integer<128, unsigned> is stored in unsigned __int128 under gnu++20
                if d == 1024 and not t:
                    # quick: only the signed binary program (129 8-bit limbs: the Karatsuba path with an odd limb count)
                    if s == 1:
                        unit(10000 + 2 * d + s, 'wide-bin-%d%s' % (d, 'su'[1 - s]), '-O1', 2)
                    continue
                sh = (8 if d >= 1024 else 4 if d >= 256 else 3) if t else 2
                unit(10000 + 2 * d + s, 'wide-bin-%d%s' % (d, 'su'[1 - s]), wide_opt, sh)
                unit(20000 + 2 * d + s, 'wide-un-%d%s' % (d, 'su'[1 - s]), '-O0', 2 if t else 1)  # cheap to run, expensive to optimise
        if not quick_clang:
            for d in single_word:
                unit(10000 + 2 * d + 1, 'word-bin-%ds' % d, wide_opt, 1)
                unit(20000 + 2 * d + 1, 'word-un-%ds' % d, '-O0', 1)
        unit(30000, 'wide-mixed', wide_opt, 2)
        # (A) the rest: lattice binary (100+i) optimised, unary (2, 200+i) not; one (width, limb) per TU
        lat = ['24-u8', '32-u8', '32-u16', '48-u16', '64-u16', '64-u32', '96-u32', '128-u32', '128-u64']
        if t:
            sel = range(9)
        elif comp == 'g++':
            sel = (1, 3, 7, 8)
        else:
            sel = (1, 7)
        for i in sel:
            four_limbs = i in (1, 4, 7)
            unit(100 + i, 'vend-lattice-bin-' + lat[i], '-O1', (12 if four_limbs else 2) if t else 2)
        unit(2, 'vend16-unary', '-O0', 4)
        for i in sel:
            unit(200 + i, 'vend-lattice-un-' + lat[i], '-O0', 2)
    if t:
        # second dialect cell: -std=c++20 has no __int128, so Digits 64..128 are multi-limb (8/16/32-bit limbs only)
        strict = [(65, 1), (100, 1), (100, 0), (127, 1)]
        res = probe([d for d, _ in strict], 'g++', 'c++20', features=False)
        res.update({k: v for k, v in results['g++'].items() if k[0] == 'f'})  # operator facts: as established under gnu++20
        results['g++/c++20'] = res
        inc = probe_inc(res)
        for d, s in strict:
            for base, nm in ((10000, 'bin'), (20000, 'un')):
                units.append(dict(name='g++-strict-%s-%d%s' % (nm, d, 'us'[s]), src='C10.cpp', compiler='g++', mode='ndebug', opt='-O1' if nm == 'bin' else '-O0', std='c++20',
                                  defines=['VF_TIER=1', 'VF_PART=%d' % (base + 2 * d + s)], shards=2, gen={'c10_probe.inc': inc}))
    res = results['g++']
    return dict(
        units=units,
        rule='(A) vendored uintwide_t<16,uint8_t,void,{true,false}>: %s operand pairs x {+,-,*,/,%%,&,|,^,<,<=,>,>=,==,!=}; all 2^16 values x all 16 shift counts (int and unsigned count), '
             'unary -,~,++,-- (pre/post), conversion to 14 and from 12 built-in integer types and to float/double/long double, decimal operator<<, numeric_limits; '
             'uintwide_t<24|32,uint8_t>, <32|48|64,uint16_t>, <64|96|128,uint32_t>, <128,uint64_t> (quick: <32,uint8_t>, <48,uint16_t>, <128,uint32_t>, <128,uint64_t>): every limb drawn from {00,01,02,7f,80,81,fe,ff}%s scaled to the limb width, complete product; '
             '(B) cnl::wide_integer<D,Narrowest>, D in %s, Narrowest in {int,uint}{8,16,32,64}_t all run on the same mathematical operands: values with a 00../ff.. background and <= %d foreground limbs '
             '(patterns as above) at limb positions {0,1,mid,top-1,top} ({0,mid,top} for D>600) for each of the four limb granularities, %s, plus the extremes of each type\'s storage; '
             'unary program additionally on integers constructed to sit at and around rounding ties of float/double/long double; mixed program: wide_integer<200,{int,unsigned}> op {int,unsigned,long,unsigned long}, '
             'wide_integer<100> op wide_integer<200>, wide_integer<200> cmp wide_integer<300>, conversions between widths/signedness. '
             'non-trivial = both operands non-zero and not representable in one limb (binary), operand not representable in one limb (unary)'
             % ('ALL 2^32' if t else 'the 2^12 x 2^12 sub-grid with both bytes in {00..0f,70..8f,f0..ff} of', ' (thorough: plus {55,aa,0f..,10..} on the left operand, on both for <= 3 limbs)' if t else '',
                digits, 2 if t else 1, 'A-set x (<=1 foreground)-set in both operand orders' if t else 'complete product'),
        bound=dict(small_scope='uintwide_t<16,uint8_t> complete' if t else 'uintwide_t<16,uint8_t> 2^12 x 2^12 sub-grid', lattice_instantiations=['24/u8', '32/u8', '32/u16', '48/u16', '64/u16', '64/u32', '96/u32', '128/u32', '128/u64'] if t else ['32/u8', '48/u16', '128/u32', '128/u64'],
                   public_digits=digits, single_word_digits=single_word, limb_bits=[8, 16, 32, 64], foreground_limbs=2 if t else 1,
                   not_instantiable={c: [list(k[1:]) for k, ok in r.items() if k[0] == 't' and not ok and not (c.endswith('c++20') and k[3] == 64)] for c, r in results.items()},
                   ill_formed={c: [n for n in FEATURES if not r[('f', n)]] for c, r in results.items()}),
        assumptions=['N is the width of the storage the type really has (multiple of the limb width, >= Digits+sign), which is where the library wraps; numeric_limits max/lowest are judged against 2^Digits-1 / -2^Digits',
                     'numeric_limits::min() == 1 for signed wide_integer is recorded as an outcome class, not judged (same convention as elastic_integer, asserted by the library\'s own unit tests)',
                     'conversion to floating point is judged against round-to-nearest-even; a result that is the other adjacent value gets its own violation class (adjacent_*_instead_of_nearest)',
                     'floating point -> vendored class is only judged for Width2 > 64 (the constructor stores the up-to-64-bit significand in an object of the same width and shifts it arithmetically); every multi-limb rep CNL builds is >= 136 bits',
                     'Digits <= 127 (signed) / 128 (unsigned) are stored in a built-in integer under gnu++20: cases whose exact result overflows that built-in are outside the property (UB of the built-in) and skipped',
                     'expressions that do not compile are established by try-compiling one-line snippets in plan() and reported as violations ill_formed/..., instantiate/...'],
        deadline_s=1500 if t else 420,
    )


META = dict(
    text='The same limb code is run in a small scope - uintwide_t<16,uint8_t>, signed and unsigned, ALL 2^32 operand pairs (thorough; quick: a stated 2^12 x 2^12 sub-grid) for 8 binary operators and 6 comparisons, '
         'all values x all shift counts, unary operators, every built-in conversion, text, numeric_limits - and over complete limb lattices for 24..128-bit instantiations with 8/16/32/64-bit limbs, against 64/128-bit '
         'arithmetic reduced to N bits. The public cnl::wide_integer<D,Narrowest> is run for D up to 2048 with every limb width on identical mathematical operands (limb lattice with <= 2 foreground limbs, storage extremes, '
         'floating-point tie constructions) against a BigInt oracle reduced to the N bits of the storage; limb independence is checked directly; mixed-width/mixed-type operands and result types are checked at run time; '
         'expressions that do not compile are found by try-compilation and reported.',
    note='Bound: complete only for the 16-bit instantiation; wider instantiations on the stated lattices. Trusted: g++/clang++, UBSan trap mode, engine/ref BigInt, the 30-line two\'s-complement reduction in harness/C10_util.h.',
    technique='explicit-state enumeration (complete 2^32 small-scope space + limb lattices) vs N-bit reduced exact integer reference; try-compile probes for ill-formed operators',
)
