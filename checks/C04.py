import scaledgen as g


def T(rep, e, radix=2):
    return 'SI<%s, %d, %d>' % (rep, e, radix)


def line(src, dst):
    return '{ using S_ = %s; using D_ = %s; prog<S_, D_>(FB, ST); }' % (src, dst)


def programs(t):
    lines = []
    reps = ['i8', 'u8', 'i16', 'u16', 'i32', 'u32', 'i64', 'u64']
    exps = [-33, -8, -3, -1, 0, 1, 7, 31] if not t else [-70, -63, -33, -31, -17, -9, -8, -3, -1, 0, 1, 2, 7, 16, 31, 33, 70]
    n = 0
    # scaled -> scaled (radix 2)
    for s in reps:
        for d in reps:
            for se in exps:
                for de in exps:
                    sh = se - de
                    if abs(sh) >= g.promoted_digits(s):
                        continue
                    n += 1
                    if n % (7 if not t else 3):
                        continue
                    lines.append(line(T(s, se), T(d, de)))
    # int <-> scaled
    for rep in reps:
        for e in ([-8, -1, 0, 3] if not t else [-20, -8, -3, -1, 0, 1, 3, 12]):
            for bi in (['i8', 'i32', 'u32', 'i64'] if t else ['i8', 'i32', 'u64']):
                if abs(e) < g.promoted_digits(bi):
                    lines.append(line(bi, T(rep, e)))
                if abs(e) < g.promoted_digits(rep):
                    lines.append(line(T(rep, e), bi))
    # 64-bit reps with more than 32 fractional digits -> narrow built-in integers (the high word decides; negatives truncate
    # toward zero), and 8/16-bit reps with large positive exponents -> floating (rep * 2^E exceeds the promoted int)
    for (rep, e, bi) in [('i64', -33, 'i32'), ('i64', -40, 'i8'), ('i64', -48, 'i16'), ('i64', -62, 'i32'), ('u64', -33, 'u32'), ('i64', -33, 'u8')] + ([('i64', -34, 'i32'), ('i64', -56, 'i16'), ('u64', -60, 'u8')] if t else []):
        lines.append(line(T(rep, e), bi))
    for f in ['f32', 'f64', 'f80']:
        for (rep, e) in [('i16', 20), ('u16', 16), ('i8', 25), ('u8', 24), ('i16', 17), ('u8', 30)] + ([('i16', 16), ('u16', 15), ('i8', 24), ('i16', 30)] if t else []):
            lines.append(line(T(rep, e), f))
    # radix 10 integer <-> integer
    for (s, d) in [('i8', 'i8'), ('i16', 'i32'), ('i32', 'i16'), ('i64', 'i64'), ('u8', 'u16')]:
        for se in (-3, -1, 0, 2):
            for de in (-2, 0, 1):
                lines.append(line(T(s, se, 10), T(d, de, 10)))
    # different radixes on the two sides (decimal <-> binary fixed point), positive and negative source exponents
    for (s_, se, sr, d, de, dr) in [('i32', 2, 10, 'i32', -4, 2), ('i32', -2, 10, 'i32', -8, 2), ('i16', 1, 10, 'i32', 0, 2), ('i32', -4, 2, 'i32', -2, 10), ('i8', 3, 2, 'i16', -1, 10), ('i64', 3, 10, 'i64', -10, 2)]:
        lines.append(line(T(s_, se, sr), T(d, de, dr)))
    # floating <-> scaled / integer
    for f in ['f32', 'f64', 'f80']:
        for rep in reps:
            for e in ([-33, -8, -1, 0, 7] if not t else [-70, -33, -17, -8, -3, -1, 0, 1, 7, 31, 70]):
                n += 1
                if not t and n % 2:
                    continue
                lines.append(line(f, T(rep, e)))
                lines.append(line(T(rep, e), f))
        # exponents at the powers-of-two boundaries of the scaling factor (2^+-31..33, 2^+-62..64)
        for rep in ['i32', 'i64', 'u64', 'i8']:
            for e in ([-64, -63, -62, -32, -31, 31, 32, 62, 63, 64] if t or rep == 'i64' else [-63, 63, -32, 32]):
                lines.append(line(f, T(rep, e)))
                lines.append(line(T(rep, e), f))
        for bi in ['i8', 'u8', 'i16', 'i32', 'u32', 'i64', 'u64']:
            lines.append(line(bi, f))
        lines.append(line(f, T('i32', -2, 10)))
        lines.append(line(T('i32', -2, 10), f))
        lines.append(line(T('i8', 1, 10), f))
    # elastic reps
    for (s, se, d, de) in [('E7', -3, 'E15', -8), ('E15', -8, 'E7', -3), ('E31', -16, 'E7', 0), ('E7', 2, 'E31', -4), ('E15', -4, 'i32', -2), ('i16', -4, 'E7', -1)]:
        lines.append(line(T(s, se), T(d, de)))
    for f in ['f32', 'f64']:
        lines.append(line(T('E15', -8), f))
        lines.append(line(f, T('E15', -8)))
    return lines


def plan(tier):
    t = 1 if tier == 'thorough' else 0
    lines = programs(t)
    parts = g.split(lines, 24 if t else 10)
    units = []
    for comp in ('g++', 'clang++'):
        for i, text in enumerate(parts):
            if comp == 'clang++' and not t and i % 2:
                continue
            units.append(dict(name='%s-p%d' % (comp, i), src='C04.cpp', compiler=comp, mode='ndebug', opt='-O0',
                              defines=['VF_TIER=%d' % t], gen={'programs.inc': text}, shards=2))
    return dict(
        units=units,
        rule='state = (source type, destination type, source value) for %d generated type pairs; 8/16-bit source reps enumerated completely, wider reps over the boundary lattice; '
             'floating sources: every exponent of the destination window x 8 six-bit mantissas x both signs, k, k+-0.25/0.5/0.75/0.999 and their nextafter neighbours, denormals; '
             'non-trivial = digits are lost or exponents differ (integer sources) / value needs rounding or has >= p-1 significant bits (to floating)' % len(lines),
        bound=dict(programs=len(lines)),
        assumptions=[
                     'radix-10 conversions between binary floating point and scaled_integer are reported in violation classes of their own (…/decimal/…): the scaling factor is not exactly representable, so they are a separate (known) finding and never mix with the radix-2 classes',
                     'scaled -> floating is judged bit-exactly against nearest-even rounding of the exact value (radix 2)'],
        deadline_s=1500 if t else 240,
    )


META = dict(
    text='For a generated matrix of (source, destination) type pairs over scaled_integer instantiations, built-in integers and float/double/long double every source value of 8/16-bit reps '
         '(lattice for wider reps, an exponent x mantissa lattice with tie/near-integer neighbours for floating sources) is converted and compared with the exact value or its truncation toward zero; '
         'scaled->floating is compared bit-exactly with nearest-even rounding; round trips and from_rep/to_rep, wrap/unwrap identities are checked on every state.',
    note='Bound: type pairs from the generated matrix; wide reps and floating sources on stated lattices. Trusted: compilers, UBSan trap mode, BigInt/Rational/FloatX reference.',
    technique='explicit-state enumeration over a generated conversion matrix x source values vs exact rational / correctly-rounded reference',
)
