"""C14 (text denotes the value) — same harness and program matrix as C13, compiled with -DVF_PROP=14."""
import C13 as base


def plan(tier):
    t = 1 if tier == 'thorough' else 0
    P, S = (8, 4) if t else (3, 3)
    configs = [
        dict(compiler='g++', mode='ndebug', parts=P, shards=S),
        dict(compiler='clang++', mode='ndebug', parts=P, shards=S),
        # the text must not depend on the assert mode: CNL_DEBUG builds over the complete matrix in thorough, the 8-bit programs in quick
        dict(compiler='g++', mode='debug', parts=P if t else 2, shards=S, subset='all' if t else 'narrow'),
        dict(compiler='clang++', mode='debug', parts=P if t else 2, shards=S, subset='all' if t else 'narrow'),
        # real release build (no sanitizer, -O2): what is printed where the UBSan builds trap (most negative values)
        dict(compiler='g++', mode='ndebug', sanitize='none', opt='-O2', tag='-release', subset='narrow', parts=4 if t else 2, shards=S),
    ]
    nprog = len(base.programs(t))
    return dict(
        units=base.units_for(14, t, configs),
        rule='state = (program, value, base, buffer length), the enumeration of C13 (%d programs) restricted to the calls that succeed. Integers: text == canonical '
             'numeral of the exact value in the base. scaled_integer / seam: text parsed with -?(d+(.d*)?|.d+)(e[+-]?d+)? into P = S*10^q and compared with the exact '
             'expansion of |v| = |rep|*radix^E: sign, P <= |v|, |v|-P < 10^q + |v|*2^-50, P == |v| when the expansion has <= 18 significant digits and the complete text fits. '
             'to_chars_static / to_string / operator<< text == to_chars text with a capacity-sized buffer. non-trivial = buffer shorter than the complete text (scaled) / '
             'negative value or base != 10 (integers)' % nprog,
        bound=base.bound(t),
        assumptions=base.ASSUMPTIONS + [
            '"same sign as the value" is read on the text: a leading \'-\' iff the value is negative; a negative value whose magnitude truncates to zero digits may print "-0" '
            '(reported as outcome class ok_minus_zero_text_for_small_negative, not as a violation)',
            '"fits the buffer" = the complete text in the shorter of CNL\'s two layouts (fixed without a leading zero before the point; d.ddde[-]N with the point always present) '
            'is not longer than the buffer',
            'calls that fail, trap, abort or hang are C13\'s subject and are counted as unsuccessful_call_out_of_scope here',
        ],
        deadline_s=3000 if t else 900,
    )


META = dict(
    text='Over the enumeration of C13 (every value of the 8/16-bit representations, lattices for wider ones, every buffer length, exponents [-70,70], scale radix 2/3/8/10, '
         'integer bases 2..36) every successfully produced text is read back by an independent parser and compared with the exact value: integers must be the canonical '
         'numeral (including the most negative value), scaled values must carry the sign of the value, never exceed its magnitude, differ by less than one unit of the last '
         'printed digit (plus 2^-50 relative) and be exact when <= 18 significant digits fit the buffer; to_string / to_chars_static / operator<< must print the to_chars text.',
    note='Bound as C13. Trusted: compilers, the Big reference arithmetic, the parser in harness/C13.cpp.',
    technique='explicit-state enumeration with an exact decimal-expansion oracle',
)
