"""C13 (to_chars stays inside the buffer and fails cleanly) — plan and the program matrix shared with C14."""
import scaledgen as g

SRC = 'C13.cpp'

INT_NAMES = dict(i8='int8', u8='uint8', i16='int16', u16='uint16', i32='int32', u32='uint32', i64='int64', u64='uint64',
                 i128='int128', u128='uint128', W100='wide_integer<100>', W100U='wide_integer<100,unsigned>',
                 W200='wide_integer<200>', E7N8='elastic_integer<7,int8_t>', OVU32='overflow_integer<unsigned>', RNU32='rounding_integer<unsigned>', E33N8='elastic_integer<33,int8_t>', EU32N8='elastic_integer<32,uint8_t>', OVU8='overflow_integer<uint8_t>', W7C='wide_integer<7,signed char>', E1='elastic_integer<1>', E2='elastic_integer<2>', E3='elastic_integer<3>', E7='elastic_integer<7>', E31='elastic_integer<31>',
                 OVN='overflow_integer<int>', RND='rounding_integer<int>')
RADIX_E = list(range(-5, 6))
RADIX_EQ = [-5, -3, -1, 0, 2, 5]


def programs(t, subset='all'):
    """lines of programs.inc. subset: 'all' | 'narrow' (8-bit reps, integers up to 64 bits: the reduced enumeration
    of the unsanitised / ASan / secondary units)"""
    fb16 = 16 if t else 8
    ints, stat, sc8, scw, seam = [], [], [], [], []
    # (i) integers
    for ty in ['i8', 'u8', 'E1', 'E2', 'E3', 'E7', 'E7N8', 'OVU8', 'W7C']:  # E1..E3: capacity 2, the smallest buffers to_chars_static ever uses
        ints.append('I(%s, 16, "%s")' % (ty, INT_NAMES[ty]))
    for ty in ['i16', 'u16']:
        ints.append('I(%s, %d, "%s")' % (ty, fb16, INT_NAMES[ty]))
    for ty in ['i32', 'u32', 'i64', 'u64', 'E31', 'OVN', 'RND', 'E33N8', 'EU32N8', 'OVU32', 'RNU32']:
        ints.append('I(%s, 16, "%s")' % (ty, INT_NAMES[ty]))
    if subset == 'all':
        for ty in ['i128', 'u128', 'W100', 'W100U', 'W200']:
            ints.append('I(%s, 16, "%s")' % (ty, INT_NAMES[ty]))
    # to_chars_static<Base>
    st_types = ['i8', 'u8', 'i16', 'u16', 'i32', 'i64'] if t else ['i8', 'u8', 'i32']
    st_bases = [2, 3, 8, 16, 36] if t else [2, 8, 16]
    for ty in st_types:
        for b in st_bases:
            stat.append('ST(%s, %d, %d, "%s")' % (ty, b, 16 if ty in ('i8', 'u8') else fb16, INT_NAMES[ty]))
    # (ii) scaled_integer, 8-bit reps: every value
    e8 = list(range(-70, 71)) if t else g.EXP
    for rep in ['i8', 'u8']:
        for e in e8:
            sc8.append('S(%s, %d, 2, 8)' % (rep, e))
        for radix in (3, 8, 10, 16):
            for e in (RADIX_E if t else RADIX_EQ):
                sc8.append('S(%s, %d, %d, 8)' % (rep, e, radix))
    # wider reps
    if subset == 'all':
        for rep in ['i16', 'u16']:
            for e in (g.EXP if t else g.EXPQ):
                scw.append('S(%s, %d, 2, %d)' % (rep, e, fb16))
        for rep in ['i32', 'u32', 'i64', 'u64']:
            for e in (g.EXP if t else g.EXPQ):
                scw.append('S(%s, %d, 2, 8)' % (rep, e))
        for rep in ['i128']:
            for e in (g.EXPQ if t else [-70, -8, 0, 31]):
                scw.append('S(%s, %d, 2, 8)' % (rep, e))
        for rep, es in [('i32', [-9, -3, 0, 3]), ('i64', [-18, -3, 2]), ('u16', [-4, 1])]:
            for e in es:
                scw.append('S(%s, %d, 10, 8)' % (rep, e))
        scw.append('S(i32, -1, 8, 8)')
        scw.append('S(i64, 1, 16, 8)')
        scw.append('S(i32, 2, 16, 8)')
        scw.append('S(i64, -3, 16, 8)')
        scw.append('S(i32, -4, 16, 8)')
        scw.append('S(i64, -4, 16, 8)')
        scw.append('S(u32, -3, 16, 8)')
    else:
        # the unsanitised / ASan units also see a few 64-bit reps (what a release build prints at the type's extremes)
        for e in (-32, -8, 0):
            scw.append('S(i64, %d, 2, 8)' % e)
        scw.append('S(i32, -16, 2, 8)')
        scw.append('S(i32, -1, 3, 8)')
        scw.append('S(i64, -20, 3, 8)')
    # (iii) the layout seam
    nseam = 8
    for k in range(nseam):
        seam.append('SEAM(%d, %d)' % (k, nseam))
    return ints + stat + seam + scw + sc8


def split(lines, nparts):
    """round-robin with the expensive programs (16-bit complete types, wide integers) dealt first"""
    def cost(l):
        if l.startswith('S(i16') or l.startswith('S(u16'):
            return 0
        if 'W200' in l or 'i128' in l or 'u128' in l or 'W100' in l:
            return 1
        if l.startswith('I(i16') or l.startswith('I(u16'):
            return 2
        return 3
    order = sorted(range(len(lines)), key=lambda i: (cost(lines[i]), i))
    parts = [[] for _ in range(nparts)]
    for j, i in enumerate(order):
        parts[j % nparts].append(lines[i])
    return ['\n'.join(p) + '\n' for p in parts]


def units_for(prop, t, configs):
    """configs: list of dict(compiler, mode, sanitize, subset, parts, shards, tag, extra defines)"""
    units = []
    for c in configs:
        lines = programs(t, c.get('subset', 'all'))
        for i, text in enumerate(split(lines, c['parts'])):
            u = dict(name='%s-%s%s-p%d' % (c['compiler'], c['mode'], c.get('tag', ''), i), src=SRC, compiler=c['compiler'],
                     mode=c['mode'], sanitize=c.get('sanitize', 'ubsan-trap'), opt=c.get('opt', '-O1'),
                     defines=['VF_TIER=%d' % t, 'VF_PROP=%d' % prop] + c.get('defines', []),
                     gen={'programs.inc': text}, shards=c['shards'], hang_ticks=2)
            units.append(u)
    return units


def bound(t):
    return dict(
        integer_types=list(INT_NAMES.values()), integer_bases=[2, 3, 8, 10, 16, 36],
        integer_values='every value of the 8-bit types%s and of elastic_integer<7>; wider types: boundary lattice closed under base^k+-1' % (' and 16-bit types' if t else ''),
        scaled_reps_complete=['int8', 'uint8'] + (['int16', 'uint16'] if t else []),
        scaled_reps_lattice=(['int32', 'uint32', 'int64', 'uint64', 'int128'] if t else ['int16', 'uint16', 'int32', 'uint32', 'int64', 'uint64', 'int128']),
        exponents_8bit='every integer in [-70,70]' if t else g.EXP,
        exponents_wider=g.EXP if t else g.EXPQ,
        radix={'2': 'all of the above', '3,8,10,16': '8-bit reps, E in %s; a few int32/int64/uint16 programs' % (RADIX_E if t else RADIX_EQ)},
        buffer_lengths='every length 0..max(to_chars_capacity, longest numeral of the type in the base)+2',
        seam='to_chars_positive: 92 digit strings of 1..19 digits x exponents -95..95 x lengths 0..40',
        to_chars_static_base=dict(types=['int8', 'uint8', 'int16', 'uint16', 'int32', 'int64'] if t else ['int8', 'uint8', 'int32'], bases=[2, 3, 8, 16, 36] if t else [2, 8, 16]),
        arena='4 KiB sentinel before and >= 4 KiB after the buffer, 1 MiB PROT_NONE fences')


ASSUMPTIONS = [
    'scaled_integer to_chars and to_chars_capacity only support base 10 (CNL_ASSERT(radix == 10)): scaled values are printed in decimal only; '
    'the radix 2/3/8/10 axis is the radix of the scale. Integer to_chars takes base 2..36: bases 2,3,8,10,16,36 are enumerated',
    'cnl::to_chars(first,last,wide_integer<200,unsigned>) does not compile on the pinned tree (operator- of mixed-signedness uintwide_t in to_chars_natural) and is left out; '
    'wide_integer<100,unsigned> (stored in unsigned __int128) is included',
    'operator<< of built-in integers up to 64 bits and to_string of integers are the standard library\'s and are not checked; operator<< is checked for '
    '__int128, the wrappers, wide_integer and scaled_integer, to_string for scaled_integer',
    'the fixed-capacity variants write into a stack object that cannot be fenced: they are executed only for values whose to_chars call with a capacity-sized '
    'fenced buffer stayed inside the buffer (otherwise outcome static_not_run_unsafe; the out-of-bounds write itself is reported by the fenced call)',
    'values for which to_chars does not return (descale with a positive exponent) are rationed by a defect model that is re-confirmed on the first and every '
    '4^k-th predicted value of each program and shard; lengths/values not executed for that reason are counted as not_run_hang_predicted_by_confirmed_defect_model, '
    'never as checked, and the program is then reported as lattice rather than full-type',
]


def plan(tier):
    t = 1 if tier == 'thorough' else 0
    P, S = (8, 4) if t else (3, 3)
    configs = [
        dict(compiler='g++', mode='ndebug', parts=P, shards=S),
        dict(compiler='clang++', mode='ndebug', parts=P, shards=S),
        dict(compiler='g++', mode='debug', parts=P, shards=S),
        dict(compiler='clang++', mode='debug', parts=P, shards=S),
        # what a release build really does when the internal asserts are compiled out: no sanitizer, -O2
        dict(compiler='g++', mode='ndebug', sanitize='none', opt='-O2', tag='-release', subset='narrow', defines=['VF_UNSAN=1'], parts=4 if t else 2, shards=S),
        # AddressSanitizer: exactly sized heap buffers instead of the arena (reads and far writes)
        dict(compiler='g++', mode='ndebug', sanitize='asan+ubsan-trap', tag='-asan', subset='narrow', defines=['VF_ASAN=1'], parts=4 if t else 2, shards=S),
    ]
    nprog = len(programs(t))
    return dict(
        units=units_for(13, t, configs),
        rule='state = (program, value, base, buffer length): %d programs (integer types x 6 bases, scaled_integer<Rep,power<E,Radix>>, to_chars_static<Base>, the '
             'to_chars_positive seam); for every value every buffer length 0..capacity+2, then to_chars_static / to_string / operator<< once per value. '
             'The buffer is fenced by a sentinel arena: no byte outside [first,last) may change; success => first < p <= last, ec == {} and exactly [first,p) written; '
             'failure => {last, value_too_large}; trap / assert / SIGSEGV / hang are outcomes. non-trivial = buffer shorter than the complete text, or value negative, '
             'or |E| greater than the digits of the rep' % nprog,
        bound=bound(t),
        assumptions=ASSUMPTIONS,
        deadline_s=3000 if t else 900,
    )


META = dict(
    text='Every value of the 8-bit (thorough: and 16-bit) integer and scaled_integer representations, and a boundary lattice closed under decade/base-power '
         'boundaries for 32/64/128-bit, wide and wrapper types, is printed by cnl::to_chars into every buffer length from 0 to capacity+2, for every exponent in '
         '[-70,70] (8-bit reps, thorough) and scale radix 2/3/8/10, integer bases 2/3/8/10/16/36. The buffer lies in a sentinel arena fenced by PROT_NONE pages, so '
         'any byte written outside [first,last) is seen; the returned {ptr, errc} protocol is checked on every call; to_chars_static (also with Base != 10), '
         'to_string and operator<< are run for every value; the internal layout function to_chars_positive is driven directly. NDEBUG and CNL_DEBUG builds under both '
         'compilers with UBSan traps, an unsanitised -O2 build (real release behaviour) and an ASan build over the 8-bit programs.',
    note='Bound: values of wider types only on the stated lattice; exponents of wider reps from the EXP set; values on which to_chars hangs are sampled, not exhausted '
         '(see assumptions). Trusted: compilers, sanitizer runtimes, mmap/mprotect fencing, the Big reference arithmetic.',
    technique='explicit-state enumeration (value x buffer length x program) with a fenced sentinel arena as memory-safety oracle',
)
