import C06


def plan(tier):
    t = tier == 'thorough'
    return dict(
        units=C06._units(7, tier, ['ndebug', 'debug'] if t else ['ndebug', 'debug']),
        rule='same states as C06 plus %, >>, ~ and unary +; the oracle is the absence of UBSan traps (signed overflow, out-of-range shift, '
             'division overflow, unreachable), internal-contract aborts ("CNL internal error", failed CNL_ASSERT), SIGSEGV and hangs; '
             'intended signals (overflow_error, "positive/negative overflow" aborts) are defined behaviour; non-trivial as in C06',
        bound=dict(types=['i8', 'u8', 'i16', 'u16', 'i32', 'u32', 'i64', 'u64', 'i128/u128 (6 pairs)'],
                   operators=['add', 'sub', 'mul', 'div', 'mod', 'shl', 'shr', 'minus', 'plus', 'bitwise_not', 'convert', 'compound assignment', '++/--'],
                   tags=['saturated', 'throwing', 'trapping'], lattice_step=1 if t else 3, contract_modes=['NDEBUG', 'CNL_DEBUG'],
                   cells='g++/intrinsic + clang++/portable (quick); all four compiler x path cells (thorough)'),
        assumptions=['zero divisors and negative shift counts are excluded as the property states'],
        deadline_s=1500 if t else 280,
    )


META = dict(
    text='The same complete state enumeration as C06, extended by %, >>, ~ and unary +, run in NDEBUG and CNL_DEBUG contract modes: any UBSan trap '
         '(trap mode, one signal per occurrence), internal-contract abort, crash or hang inside a checked operation is a violation; intended overflow signals are not.',
    note='Bound as C06. UB that UBSan does not instrument (e.g. strict-aliasing) is invisible. Trusted: compilers, UBSan trap mode.',
    technique='explicit-state enumeration with UB/abort/hang observed per state via UBSan trap mode and the guarded abort hook',
)
