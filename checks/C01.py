import scaledgen as g


def programs(t):
    exps = g.EXP if t else g.EXPQ
    lines = []
    narrow = [('i8', 'i8'), ('u8', 'u8'), ('i8', 'u8'), ('u8', 'i8')]
    wide = [('i16', 'i16'), ('i32', 'i32'), ('u32', 'u32'), ('i64', 'i64'), ('u64', 'u64'), ('i32', 'i64'), ('i64', 'i32'), ('i8', 'i32'),
            ('i32', 'u8'), ('i16', 'i64'), ('u16', 'u32'), ('i128', 'i128'), ('i64', 'i128')]
    if t:
        wide += [('u16', 'u16'), ('u64', 'u32'), ('u128', 'u128'), ('i128', 'i32'), ('u8', 'u64')]
    for (l, r) in narrow + wide:
        for le in exps:
            for re in exps:
                d = abs(le - re)
                # CNL static_asserts that the alignment shift is smaller than the promoted digits
                lim = min(g.promoted_digits(l), g.promoted_digits(r))
                if d >= lim:
                    continue
                if (l, r) in wide and not t and (le, re) not in [(-8, -8), (-8, -1), (0, -33), (1, 7), (31, 7), (-70, -70), (0, 0), (-1, 0), (7, -8)]:
                    continue
                if (l, r) in wide and t and (abs(le) + abs(re)) % 3 == 1:
                    continue  # thin the wide matrix
                lines.append('P(%s, %d, %s, %d, 2)' % (l, le, r, re))
    # radix 10
    for (l, r) in [('i8', 'i8'), ('i32', 'i32'), ('i64', 'i64'), ('u8', 'i16')]:
        for le in ([-3, -1, 0, 2] if not t else [-4, -3, -2, -1, 0, 1, 2, 3]):
            for re in ([-3, -1, 0, 2] if not t else [-4, -3, -2, -1, 0, 1, 2, 3]):
                lines.append('P(%s, %d, %s, %d, 10)' % (l, le, r, re))
    # radix 10 / 3 with large exponent gaps on 8-bit reps (power_value recursion depth; only small operands fit, which the precondition sorts out)
    for (l, r) in [('i8', 'i8'), ('u8', 'u8'), ('i8', 'i32')]:
        for (le, re) in ([(0, -6), (-7, 0), (1, -8), (-9, 0)] if not t else [(0, -6), (-6, 0), (0, -7), (-7, 0), (1, -7), (0, -8), (-8, 0), (0, -9), (-9, 0), (2, -6)]):
            lines.append('P(%s, %d, %s, %d, 10)' % (l, le, r, re))
    for (le, re) in ([(0, -12), (-15, 0)] if not t else [(0, -12), (-12, 0), (0, -15), (-15, 0), (0, -19), (3, -9)]):
        lines.append('P(i8, %d, i8, %d, 3)' % (le, re))
    if t:
        for le in (-2, 0, 1):
            for re in (-2, 0, 1):
                lines.append('P(i8, %d, i8, %d, 3)' % (le, re))
    # built-in integer operands (exponent 0) on either side
    for rep in ['i8', 'u8', 'i32', 'i64']:
        for e in ([-8, -1, 0, 7] if not t else [-20, -8, -3, -1, 0, 1, 7, 20]):
            for bi in ['i8', 'i32', 'u32', 'i64'] if t else ['i8', 'i32']:
                if abs(e) >= min(g.promoted_digits(rep), g.promoted_digits(bi)):
                    continue
                lines.append('PIR(%s, %d, 2, %s)' % (rep, e, bi))
                lines.append('PIL(%s, %s, %d, 2)' % (bi, rep, e))
    # CNL wrappers as representation
    for rep in ['E7', 'E15', 'E31', 'OVN', 'RND', 'W100'] + (['E63'] if t else []):
        for (le, re) in ([(-3, -3), (-8, -1), (0, 5), (2, -2)] if not t else [(-3, -3), (-8, -1), (0, 5), (2, -2), (-20, -3), (10, 0), (-1, -12), (-40, -33)]):
            lines.append('P(%s, %d, %s, %d, 2)' % (rep, le, rep, re))
        lines.append('P(%s, -4, i32, -2, 2)' % rep)
        lines.append('P(i16, 3, %s, -1, 2)' % rep)
    lines += elastic_boundary_programs(t)
    # exponent gaps of 64 and more (power_value builds 2^n in two steps there): 128-bit reps and elastic reps whose
    # aligned width exceeds 63 digits; odd and even gaps
    for (le, re) in [(0, -65), (-65, 0), (3, -66), (0, -64), (-101, 0), (0, -126)] + ([(1, -70), (-69, 0), (0, -99), (-64, 1)] if t else []):
        lines.append('P(i128, %d, i128, %d, 2)' % (le, re))
    lines.append('P(u128, 0, u128, -65, 2)')
    # unsigned elastic reps whose digits fill a storage word (32, 64) and beyond: with a negative built-in operand on either
    # side, with a signed built-in-rep scaled_integer, and under unary minus (every program negates both operands)
    for d in ([32, 40, 64] if not t else [8, 16, 31, 32, 33, 40, 63, 64]):
        lines.append('PIR(EU<%d>, -4, 2, i32)' % d)
        lines.append('PIL(i32, EU<%d>, -2, 2)' % d)
        lines.append('P(EU<%d>, 0, i32, -3, 2)' % d)
        lines.append('P(i16, 2, EU<%d>, 0, 2)' % d)
        lines.append('P(EU<%d>, 0, EU<%d>, -3, 2)' % (d, min(d, 31)))
        if d <= 40:
            lines.append('PIR(EU<%d>, 0, 2, i64)' % d)
    # overflow-checked reps narrower than int (results are int: unary minus and sums fit, no overflow may be reported)
    for rep in ['OVU8S', 'OVU16S', 'OVI8S']:
        lines.append('P(%s, -3, %s, -3, 2)' % (rep, rep))
        lines.append('P(%s, 0, %s, -2, 2)' % (rep, rep))
    # one-digit signed elastic reps (the values -1, 0, 1): x * -1, and alignment by an elastic multiply
    for (l, r, le, re) in [('ES<1>', 'ES<8>', 0, -2), ('ES<8>', 'ES<1>', -3, 0), ('ES<1>', 'ES<1>', 2, 0), ('ES<1>', 'i8', -1, -4), ('ES<31>', 'ES<1>', 0, 3)]:
        lines.append('P(%s, %d, %s, %d, 2)' % (l, le, r, re))
    for (d, le, re) in [(30, 0, -71), (20, -67, 0), (31, 0, -65), (40, -64, 0)] + ([(7, 0, -100), (50, 3, -70)] if t else []):
        lines.append('P(ES<%d>, %d, ES<%d>, %d, 2)' % (d, le, d, re))
    return lines


def elastic_boundary_programs(t, unsigned=False):
    """elastic reps whose digits + alignment gap land on the storage boundaries (8,16,32,64 +-1)"""
    out = []
    digs = (7, 20, 31) if not t else (3, 7, 15, 20, 24, 31, 40)
    sums = (16, 32, 64) if not t else (8, 15, 16, 17, 31, 32, 33, 63, 64, 65)
    for d in digs:
        for s_ in sums:
            gap = s_ - d
            if gap < 1 or gap > 45:
                continue
            for fam in (['ES'] + (['EU'] if unsigned else [])):
                out.append('P(%s<%d>, %d, %s<%d>, 0, 2)' % (fam, d, gap, fam, d))
                out.append('P(%s<%d>, %d, %s<%d>, %d, 2)' % (fam, d, -5 - gap, fam, d, -5))
            if unsigned:
                out.append('P(EU<%d>, %d, ES<%d>, 0, 2)' % (d, gap, d))
    return out


def plan(tier):
    t = 1 if tier == 'thorough' else 0
    lines = programs(t)
    nparts = 24 if t else 10
    parts = g.split(lines, nparts)
    units = []
    for comp in ('g++', 'clang++'):
        for i, text in enumerate(parts):
            if comp == 'clang++' and not t and i % 2:
                continue
            units.append(dict(name='%s-p%d' % (comp, i), src='C01.cpp', compiler=comp, mode='ndebug', opt='-O0',
                              defines=['VF_TIER=%d' % t], gen={'programs.inc': text}, shards=2))
    return dict(
        units=units,
        rule='state = (L type, R type, a, b) for %d generated operand-type pairs (rep x exponent x radix, built-in operands, wrapper reps); '
             '8-bit reps enumerated completely, wider reps over the boundary lattice; +, -, * on every state, unary - on every a; '
             'non-trivial = exponents differ or the exact result is within 2 of a limit of the result rep' % len(lines),
        bound=dict(programs=len(lines), exponents=g.EXP if t else g.EXPQ, radix=[2, 10] + ([3] if t else []),
                   reps=['i8', 'u8', 'i16', 'u16', 'i32', 'u32', 'i64', 'u64', 'i128', 'elastic_integer<7|15|31>', 'overflow_integer<int,native>', 'rounding_integer<int>', 'wide_integer<100>']),
        assumptions=['"fits the promoted representation" is decided as: the exponent-aligned rep of each operand fits decltype(+rep) (built-in reps) or the type cnl::_impl::scale yields (wrapper reps), '
                     'and the aligned operands and the exact result fit the rep of the result type; everything else is skipped and counted'],
        deadline_s=1500 if t else 240,
    )


META = dict(
    text='For a generated matrix of operand-type pairs (rep x exponent x radix, built-in integers on either side, CNL wrappers as rep) every operand pair of 8-bit reps and the '
         'complete boundary-lattice product of wider reps is run through +, -, * and unary -; the result value (rep x radix^exponent with the exponent read from the result type) '
         'is compared with exact rational arithmetic and the result exponent with min / sum of the operand exponents.',
    note='Bound: exponent pairs from the stated set with alignment shifts below the promoted width; wide reps on the lattice only. Trusted: compilers, UBSan trap mode, BigInt/Rational reference.',
    technique='explicit-state enumeration over a generated instantiation matrix x operand values vs exact rational reference',
)
