PARTS = {0: 'fraction<int8_t>, fraction<int16_t>, CTAD from float', 1: 'fraction<int32_t>, CTAD from double',
         2: 'fraction<int64_t>', 3: 'fraction<__int128>, CTAD from long double',
         4: 'no sanitizer (plain release build): CTAD from float, fraction<int32_t> from double, fraction<int8_t> from float, quick lattice'}


def plan(tier):
    t = 1 if tier == 'thorough' else 0
    shards = {0: 8, 1: 3, 2: 4, 3: 8, 4: 2} if t else {0: 2, 1: 1, 2: 1, 3: 2, 4: 2}
    # watchdog: 200 ms (quick, a few dozen hangs), 100 ms (thorough, several thousand hangs)
    ticks = 2 if t else 4
    units = []
    # the heavy parts (0: hangs in release mode, 3: 128-bit reference arithmetic) are listed first
    for part in (0, 3, 2, 1):
        for comp in ('g++', 'clang++'):
            for mode in ('ndebug', 'debug'):
                u = dict(name='%s-%s-p%d' % (comp, mode, part), src='C17.cpp', compiler=comp, mode=mode,
                         defines=['VF_TIER=%d' % t, 'VF_PART=%d' % part], shards=shards[part], hang_ticks=ticks)
                if mode == 'ndebug':
                    # a failed CNL_ASSERT is __builtin_unreachable() in release mode; with UBSan's
                    # "unreachable" check on, every such case would stop there with a trap and the
                    # behaviour a release build really shows (wrong results, hangs) would stay unobserved.
                    # The assertion failures themselves are observed in the debug units.
                    u['flags'] = ['-fno-sanitize=unreachable']
                units.append(u)
    # what a plain release build does (undefined behaviour is not trapped, so non-termination shows as such)
    for comp in ('g++', 'clang++'):
        units.append(dict(name='%s-ndebug-nosan-p4' % comp, src='C17.cpp', compiler=comp, mode='ndebug', sanitize='none',
                          defines=['VF_TIER=%d' % t, 'VF_PART=4'], shards=shards[4], hang_ticks=4))
    M, Mu = (12, 8) if t else (8, 5)
    return dict(
        units=units,
        rule='state = (program, x); programs = ctor<T,F> (cnl::fraction<T>(x)), make<T,F> (cnl::make_fraction<T>(x)) for '
             'T in {int8,int16,int32,int64,__int128} x F in {float,double,long double}, and the three deduction-guide forms '
             'cnl::fraction(x) (float->int32, double->int64, long double->__int128), each in release (NDEBUG) and CNL_DEBUG mode, g++ and clang++. '
             'Inputs per program, both signs, restricted by the exact precondition |x| <= max(T): every binary exponent 2^-(D+8) .. 2^D '
             '(D = digits of T) x all values of the top %d mantissa bits%s; the same lattice at %d bits moved one ulp of F up and down '
             '(make<T,F>, which the constructor delegates to, and the sanitizer-free units: 8 and 5 bits in both tiers); '
             'F(k), F(k) +- {1/8,1/4,1/2,3/4} and both neighbours in F for every k of the boundary lattice B0(T); '
             'k/2^j for 22 odd k and j = 1..D+8; k/10^j (k < 1000, j <= 6) and p/q (p,q <= 40) computed by division in F; unit-test constants; '
             'the six values of F at and below F(max(T)), max(T)/2; neighbours of 1/2, 1, 2; +0, -0; 2^-(D+9), 3*2^-(D+20), 1e-30, '
             'smallest normal and denormal values of float/double (long double: 2^-1000). '
             'non-trivial = x is not an integer (the search loop is entered)'
             % (M, ' (16 bits for ctor<int8,float>)' if t else '', Mu),
        bound=dict(component_types=['int8', 'int16', 'int32', 'int64', '__int128'], floating_types=['float', 'double', 'long double'],
                   mantissa_bits=M, mantissa_bits_int8_float_ctor=16 if t else M, mantissa_bits_ulp_lattice=Mu,
                   exponent_range='2^-(D+8) .. 2^D', long_double_inputs_not_below='2^-1000 (capacity of the reference arithmetic)',
                   hang_watchdog_ms=100 if t else 200, hang_confirmation_s=5 if t else 2, parts=PARTS),
        exhaustive_over='the stated input lattice of every program (not the whole floating-point types)',
        assumptions=[
            'a hang is "no return within %d ms of CPU time"; the first hang of every program is re-run with a %d s watchdog and '
            'reported as slow_not_hang if it returns then' % (100 if t else 200, 5 if t else 2),
            '"the sign of the input": the numerator must not have the opposite sign; a zero result for a non-zero input is judged by the '
            'error bound only (|x| < 2^(4-D) may legitimately become 0) and is counted as outcome class ok_rounds_to_zero',
            '"components within the range of the component type" is not observable on the stored components; out-of-range intermediates '
            'are observed as UBSan traps (signed overflow, float-to-integer conversion out of range) and CNL_ASSERT failures',
            'release-mode UBSan units are built with -fno-sanitize=unreachable: a failed CNL_ASSERT (== __builtin_unreachable() under NDEBUG) does '
            'not stop the case there, so that what a release build does next is observed; every other UBSan check stays in trap mode. '
            'Two further release-mode units (config .../none) are built without any sanitizer for three programs on the quick lattice: '
            'there undefined behaviour is not intercepted and the observable failures are wrong results and non-termination',
            'labels on violation classes are exact predicates on the input: position (zero / below_1_over_max / below_1 / ge_1 / at_max), '
            'representability (integer / exact_ratio / inexact) and, for inexact inputs, whether one of the two adjacent fractions with '
            'components in T converts back to x in F (nbr_converts / nbr_none)'],
        deadline_s=1500 if t else 300,
    )


META = dict(
    text='cnl::fraction<T>(x), cnl::make_fraction<T>(x) and the deduction-guide forms cnl::fraction(x) are run for every pairing of '
         'int8/16/32/64/128 with float/double/long double on an exponent x mantissa lattice of finite inputs with |x| <= max(T) (all binary '
         'exponents from 2^-(digits+8) to the numerator limit, top 8 (quick) / 12 (thorough; 16 for int8 from float) mantissa bits, the '
         'same values one ulp up and down, boundary integers, dyadic, decimal and small-ratio values, values next to the limit, zeros, '
         'tiny values and denormals), in release and CNL_DEBUG mode with both compilers. Every call must return (watchdog), with a '
         'positive denominator and not the opposite sign; the result is compared in exact rational arithmetic with the input: equal when '
         'the input is a ratio of two representable integers, otherwise between the adjacent integers and closer than '
         'max(1,|x|)*2^(4-digits). UBSan traps, CNL_ASSERT failures and hangs are outcomes.',
    note='Bound: inputs on the stated lattice only (not all floats); long double not below 2^-1000. Trusted: g++/clang++, UBSan trap mode, '
         'Big/Rational/FloatX reference arithmetic, the 50 ms CPU-time watchdog.',
    technique='explicit-state enumeration over (component type, floating type, construction form, input lattice) vs exact rational oracle '
              '(Stern-Brocot neighbours in big-integer arithmetic), hang detection by CPU-time watchdog',
)
