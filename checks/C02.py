import scaledgen as g


def programs(t):
    lines = []
    exps = [-70, -33, -8, -1, 0, 1, 7, 31, 70] if not t else [-70, -64, -33, -31, -17, -8, -3, -1, 0, 1, 2, 7, 16, 31, 33, 70]
    narrow = [('i8', 'i8'), ('u8', 'u8'), ('i8', 'u8'), ('u8', 'i8')]
    wide = [('i16', 'i16'), ('i32', 'i32'), ('u32', 'u32'), ('i64', 'i64'), ('u64', 'u64'), ('i32', 'i64'), ('i64', 'i32'), ('i8', 'i32'), ('i32', 'u8'), ('u16', 'i64')]
    for (l, r) in narrow + wide:
        for i, le in enumerate(exps):
            for j, re in enumerate(exps):
                if (l, r) in wide and (i * len(exps) + j) % (5 if not t else 3) != 0:
                    continue
                if (l, r) in narrow and not t and (i + j) % 2:
                    continue
                # quotient() needs integer_digits+fractional_digits of both operands in one built-in rep (<= 127 digits)
                quot = g.BITS[l] + g.BITS[r] <= 127 and abs(le) <= 40 and abs(re) <= 40
                lines.append(('PQ(%s, %d, %s, %d)' if quot else 'P(%s, %d, %s, %d, 2)') % (l, le, r, re))
    # every ordered pair of 8..64-bit reps at least once (result/quotient type rules depend on the pairing)
    allreps = ['i8', 'u8', 'i16', 'u16', 'i32', 'u32', 'i64', 'u64']
    have = set((l, r) for (l, r) in narrow + wide)
    k = 0
    for l in allreps:
        for r in allreps:
            if (l, r) in have:
                continue
            k += 1
            for (le, re) in ([(-4, -2)] if not t else [(-4, -2), (3, -7), (0, 0)]):
                quot = g.BITS[l] + g.BITS[r] <= 127
                lines.append(('PQ(%s, %d, %s, %d)' if quot else 'P(%s, %d, %s, %d, 2)') % (l, le, r, re))
    for (l, r) in [('i8', 'i8'), ('i32', 'i32'), ('i64', 'i16')]:
        for le in (-3, -1, 0, 2):
            for re in (-2, 0, 1):
                lines.append('P(%s, %d, %s, %d, 10)' % (l, le, r, re))
    for rep in ['E7', 'E15', 'E31']:
        for (le, re) in [(-3, -3), (-8, -1), (0, 5), (2, -2)]:
            lines.append('PQ(%s, %d, %s, %d)' % (rep, le, rep, re))
    # elastic_scaled_integer with mixed signedness / digits (the result is specified by value: every pair is in scope)
    for (l, r) in [('EU7', 'E7'), ('E7', 'EU7'), ('EU7', 'EU7'), ('EU15', 'E3'), ('E3', 'EU15'), ('E15', 'EU7')]:
        for (le, re) in ([(-2, -3), (0, 0)] if not t else [(-2, -3), (0, 0), (3, -1), (-8, -8)]):
            lines.append('PQ(%s, %d, %s, %d)' % (l, le, r, re))
    # unsigned elastic operands whose digits fill the storage word (top bit in use), and pairs from two families
    # (built-in rep with unsigned elastic rep: the built-in operand is lifted into the elastic family)
    for (l, r) in [('EU32', 'E7'), ('E7', 'EU32'), ('EU32', 'E31'), ('EU64', 'E15'), ('i8', 'EU7'), ('EU7', 'i8'), ('i32', 'EU15'), ('EU32', 'i32'), ('i16', 'EU32')]:
        for (le, re) in ([(-2, -3)] if not t else [(-2, -3), (0, 0), (3, -1)]):
            lines.append('P(%s, %d, %s, %d, 2)' % (l, le, r, re))
    # reps with an overflow layer (division of the most negative value by negative divisors other than -1)
    for (l, r) in [('OVS32', 'OVS32'), ('OVS64', 'OVS64'), ('OVS8', 'OVS8'), ('OVS32', 'OVS8')]:
        for (le, re) in ([(-2, -3)] if not t else [(-2, -3), (0, 0)]):
            lines.append('P(%s, %d, %s, %d, 2)' % (l, le, r, re))
    return lines


def plan(tier):
    t = 1 if tier == 'thorough' else 0
    lines = programs(t)
    parts = g.split(lines, 20 if t else 8)
    units = []
    for comp in ('g++', 'clang++'):
        for i, text in enumerate(parts):
            if comp == 'clang++' and not t and i % 2:
                continue
            units.append(dict(name='%s-p%d' % (comp, i), src='C02.cpp', compiler=comp, mode='ndebug', opt='-O0',
                              defines=['VF_TIER=%d' % t], gen={'programs.inc': text}, shards=2))
    return dict(
        units=units,
        rule='state = (L type, R type, a, b != 0) for %d generated operand-type pairs; 8-bit reps enumerated completely, wider reps over the boundary lattice; '
             '/, %% and (where the quotient type exists) quotient() on every state; non-trivial = a is not a multiple of b' % len(lines),
        bound=dict(programs=len(lines), radix=[2, 10], reps=['i8', 'u8', 'i16', 'u16', 'i32', 'u32', 'i64', 'u64', 'elastic_integer<3|7|15|31> signed and unsigned, mixed']),
        assumptions=['operands whose rep is not representable in the promoted common rep type of the built-in operator (negative value, unsigned common type) are skipped',
                     'quotient() is judged in exact rationals: |q| <= |a/b|, |a/b|-|q| < one unit of the result type, sign(q) in {0, sign(a/b)}'],
        deadline_s=1500 if t else 240,
    )


META = dict(
    text='For a generated matrix of operand-type pairs every operand pair of 8-bit reps (lattice product for wider reps) with a non-zero divisor is run through /, % and quotient(); '
         'the division identity, remainder sign and magnitude, truncation and result exponents are checked in exact arithmetic, quotient() against the exact rational quotient, '
         'and the quotient type\'s range against the extreme operand pairs.',
    note='Bound: exponent pairs from the stated set; wide reps on the lattice only; quotient() for reps up to 64 bits. Trusted: compilers, UBSan trap mode, BigInt/Rational reference.',
    technique='explicit-state enumeration over a generated instantiation matrix x operand values vs exact rational reference',
)
