def plan(tier):
    t = 1 if tier == 'thorough' else 0
    units = []
    for comp in ('g++', 'clang++'):
        for part in range(15):
            if comp == 'clang++' and not t and part % 2 == 0 and part < 12:
                continue
            units.append(dict(name='%s-p%d' % (comp, part), src='C12.cpp', compiler=comp, mode='ndebug', opt='-O0',
                              defines=['VF_TIER=%d' % t, 'VF_PART=%d' % part], shards=2))
    return dict(
        units=units,
        rule='state = (wrapper nesting, T, U, a, b): nestings scaled_integer<T,power<0>>, overflow_integer<T,native>, rounding_integer<T,native> and their three pairings; '
             '18 (T,U) pairs over 8..64-bit; 8-bit pairs enumerated completely, wider over the boundary lattice plus shift counts 0..66; per state: + - * / %% & | ^ << >>, six comparisons, '
             'eight compound assignments, unary - + ~, ++/-- pre/post, each compared with the built-in expression (value and promoted result type); '
             'documentation kernels multiply-widen, average, mixed-exponent add, square vs hand-written integer code; '
             '15 general scaled_integer<Rep,power<E,Radix>> programs (radix 2/3/8/10/16, E<=0): ++/-- pre/post must add exactly Radix^-E to the rep, += -= *= /= must equal S(a op b); '
             '10 scaled_bitwise<Rep,E1,E2> programs: & | ^ between different exponents and with built-in operands vs align-and-operate integer code (compared by value); '
             'non-trivial = operand types differ, an operand is changed by the usual arithmetic conversions, or the result is within 2 of a limit',
        bound=dict(nestings=6, type_pairs=18, lattice_step=1 if t else 3),
        assumptions=['states where the built-in reference expression is undefined (signed overflow, shift count out of range, zero divisor, lowest / -1) are skipped and counted',
                     'equivalence is decided by execution on the enumerated states; IR-level equivalence for all 2^64 operand pairs is a solver question and is not claimed',
                     'an operator a nesting does not provide at all is counted as outcome unsupported_<op>, not as a violation'],
        deadline_s=1500 if t else 240,
    )


META = dict(
    text='Every operator, compound assignment and increment of six native-tag wrapper nestings over 18 representation pairs is executed on every operand pair of 8-bit types and on the complete lattice product of wider '
         'types and compared with the same built-in expression: identical value and identical promoted result representation; the four documentation kernels are compared with their hand-written integer forms.',
    note='Bound: 16/32/64-bit operands on the lattice only; equivalence by execution, not on compiled IR. Trusted: compilers, UBSan trap mode, BigInt reference.',
    technique='explicit-state enumeration of generated kernels (operator x nesting x rep pair) vs the built-in expression as reference model',
)
