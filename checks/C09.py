import scaledgen as g

TAGS = ['NAT', 'NEA', 'TIE', 'NEG']


def T(rep, e, radix=2):
    return ('SI<%s, %d>' % (rep, e)) if radix == 2 else ('SI<%s, %d, %d>' % (rep, e, radix))


def line(src, dst, tag, how):
    return '{ using S_ = %s; using D_ = %s; prog<S_, D_, %s, %s>(FB, ST); }' % (src, dst, tag, how)


def programs(t):
    lines = []
    ints = ['i8', 'i16', 'i32', 'i64', 'u8', 'u32', 'u64'] if not t else ['i8', 'u8', 'i16', 'u16', 'i32', 'u32', 'i64', 'u64']
    floats = ['f32', 'f64', 'f80']
    for tag in TAGS:
        # floating -> integer
        for f in floats:
            for d in ints:
                lines.append(line(f, d, tag, 'VIA_CONVERT'))
            for d in (['i32', 'i8', 'u64'] if not t else ['i8', 'i32', 'i64', 'u16', 'u64']):
                lines.append(line(f, d, tag, 'VIA_CTOR'))
            # floating -> scaled
            for (rep, e) in ([('i8', -2), ('i32', -2), ('i32', -16), ('i64', -31), ('u16', -4), ('i16', 3)] if not t else
                             [('i8', -2), ('i8', -7), ('i16', -8), ('i16', 3), ('i32', -2), ('i32', -16), ('i32', -30), ('i64', -31), ('i64', -62), ('u16', -4), ('u32', -31), ('i32', 5)]):
                lines.append(line(f, T(rep, e), tag, 'VIA_CONVERT'))
                lines.append(line(f, T(rep, e), tag, 'VIA_CTOR'))
        # class-type integer destinations (elastic_integer, overflow_integer, wide_integer) and scaled_integer over them
        for f in floats:
            for d in ['E15', 'E31', 'OVS'] + (['W100'] if t else []):
                lines.append(line(f, d, tag, 'VIA_CONVERT'))
            lines.append(line(f, T('E15', -4), tag, 'VIA_CONVERT'))
        # finer scaled -> coarser scaled / integer, and loss-free
        shifts = [1, 2, 3, 7, 8, 15, 30] if t else [1, 3, 8, 15]  # < 31: half() converts the int literal 1 through the shift
        for (srep, drep) in ([('i8', 'i8'), ('i16', 'i8'), ('i32', 'i32'), ('i32', 'i16'), ('i64', 'i32'), ('i64', 'i64'), ('u8', 'u8'), ('i32', 'i64'), ('u32', 'u32'), ('u64', 'u64')] if not t else
                             [('i8', 'i8'), ('u8', 'u8'), ('i16', 'i8'), ('i16', 'i16'), ('u16', 'u8'), ('i32', 'i32'), ('i32', 'i16'), ('i32', 'i64'), ('i64', 'i32'), ('i64', 'i64'), ('u32', 'u32'), ('u64', 'u64'), ('i8', 'i32')]):
            for sh in shifts:
                if sh >= g.promoted_digits(srep):
                    continue
                for se in ([-sh - 1, -20] if not t else [-sh - 1, -sh, -20, -40]):
                    de = se + sh
                    # `from >= 0` inside the conversion aligns the int 0 to the source exponent: |se| must stay below the promoted digits
                    if abs(se) >= 31 or abs(de) >= 31:  # the literal 0 is an int
                        continue
                    lines.append(line(T(srep, se), T(drep, de), tag, 'VIA_CONVERT'))
                    if srep[0] == drep[0] and sh in (1, 3, 8):
                        lines.append(line(T(srep, se), T(drep, de), tag, 'VIA_CTOR'))
                # scaled -> built-in integer goes through a scaled_integer<Dest, power<0>> destination
                lines.append(line(T(srep, -sh), T(drep, 0), tag, 'VIA_CONVERT'))
                # ... and, where the library provides it (every tag but nearest), directly: convert<Tag, Int>{}(scaled) and
                # rounding_integer<Int, Tag>{scaled} (separate overloads of the conversion operator)
                if tag != 'NEA':
                    lines.append(line(T(srep, -sh), drep, tag, 'VIA_CONVERT'))
                    if sh in (1, 3, 8):
                        lines.append(line(T(srep, -sh), drep, tag, 'VIA_CTOR'))
                    # a POSITIVE source exponent (whole numbers with trailing zero bits): loses no digits, must be exact
                    if sh in (1, 3):
                        lines.append(line(T(srep, sh), drep, tag, 'VIA_CONVERT'))
                        lines.append(line(T(srep, sh), drep, tag, 'VIA_CTOR'))
                        lines.append(line(T(srep, 0), drep, tag, 'VIA_CONVERT'))
            # loss-free (destination finer or equal)
            if tag != 'NEA':  # convert<nearest_rounding_tag, finer-or-equal destination> is not instantiable (empty specialisation)
                lines.append(line(T(srep, -2), T(drep, -4), tag, 'VIA_CONVERT'))
                lines.append(line(T(srep, -3), T(drep, -3), tag, 'VIA_CONVERT'))
            if srep[0] == drep[0]:
                lines.append(line(T(srep, -2), T(drep, -4), tag, 'VIA_CTOR'))
                lines.append(line(T(srep, -3), T(drep, -3), tag, 'VIA_CTOR'))
    # non-binary radix (decimal fixed point and radix 3 / 16): scaled -> coarser scaled of the same radix, float -> scaled
    for tag in TAGS:
        for (rep, radix, se, de) in ([('i8', 10, -2, -1), ('i32', 10, -3, -1), ('i16', 16, -2, -1), ('i8', 3, -3, -1), ('i64', 10, -6, -2)] if not t else
                                     [('i8', 10, -2, -1), ('u8', 10, -2, 0), ('i16', 10, -3, -1), ('i32', 10, -3, -1), ('i32', 10, -4, 1), ('i64', 10, -6, -2), ('i16', 16, -2, -1), ('i8', 3, -3, -1), ('i32', 3, -5, -2), ('i8', 4, -3, -1)]):
            lines.append(line(T(rep, se, radix), T(rep, de, radix), tag, 'VIA_CONVERT'))
            if tag != 'NEA':
                lines.append(line(T(rep, de, radix), T(rep, se, radix), tag, 'VIA_CONVERT'))  # loss-free
        for f in floats:
            for (rep, radix, de) in ([('i32', 10, -1), ('i16', 10, -2)] if not t else [('i32', 10, -1), ('i16', 10, -2), ('i64', 10, -3), ('i32', 16, -1), ('i32', 3, -2)]):
                lines.append(line(f, T(rep, de, radix), tag, 'VIA_CONVERT'))
    # rounding_integer<int> as the DESTINATION of convert<Tag, ...>: its own rounding must not be applied on top
    # (same tag only: convert<neg_inf, rounding_integer<int, nearest>> asks for two different modes at once)
    for f in floats:
        lines.append(line(f, 'RNI', 'NEA', 'VIA_CONVERT'))
        lines.append(line(f, 'SI<RNI, -2>', 'NEA', 'VIA_CONVERT'))
    # the elastic-on-rounding nesting: narrowing (also by >= the source's digits) and conversion to a built-in integer
    for tag in ['NEA', 'TIE', 'NEG', 'NAT']:
        for (sd, se, dd, de) in ([(8, -8, 4, 0), (8, -8, 8, -1), (10, -6, 6, -2), (6, -9, 4, 0)] if not t else
                                 [(8, -8, 4, 0), (8, -8, 8, -1), (8, -8, 6, -7), (10, -6, 6, -2), (6, -9, 4, 0), (12, -4, 10, 0), (7, -7, 2, 1)]):
            lines.append('prog_er<%s, %d, %d, %d, %d>();' % (tag, sd, se, dd, de))
    # static_number destinations (the property names them): from floating point, from a finer PLAIN scaled_integer, and from a
    # finer static_number whose own rounding tag differs (the destination's mode must decide)
    RT = dict(NEA='nearest', TIE='tie_to_pos_inf', NEG='neg_inf')
    for tag in ['NEA', 'TIE', 'NEG']:
        def sn(src, d, e, name=None):
            lines.append('{ using S_ = %s; using D_ = SI<i64, %d>; prog<S_, D_, %s, VIA_SN, %d>(FB, ST%s); }' % (src, e, tag, d, (', "%s"' % name) if name else ''))
        for f in floats:
            for (d, e) in ([(8, -2), (20, -8)] if not t else [(8, -2), (7, 0), (20, -8), (31, -16), (40, -20), (15, 3)]):
                sn(f, d, e)
        for (srep, se, d, e) in ([('i8', -4, 6, -1), ('i16', -8, 8, -2), ('i32', -8, 8, -2), ('i32', -16, 20, -4), ('i64', -30, 31, -10), ('u8', -3, 7, 0)] if not t else
                                 [('i8', -4, 6, -1), ('i8', -7, 4, -3), ('u8', -3, 7, 0), ('i16', -8, 8, -2), ('i16', -8, 12, -7), ('i32', -8, 8, -2), ('i32', -16, 20, -4), ('i32', -1, 31, 0),
                                  ('i64', -30, 31, -10), ('i64', -40, 50, -20), ('u32', -8, 24, 0)]):
            sn(T(srep, se), d, e)
        for (sd, se, d, e) in ([(7, -4, 6, -1), (12, -8, 8, -2), (20, -16, 6, -1), (8, -8, 4, 0)] if not t else [(7, -4, 6, -1), (7, -4, 4, -3), (12, -8, 8, -2), (15, -10, 10, -5), (20, -16, 6, -1), (40, -30, 16, -4), (8, -8, 4, 0), (6, -9, 4, 0)]):
            for stag in ['NEA', 'TIE', 'NEG']:
                sn('SN<%d, %d, %s>' % (sd, se, stag), d, e, 'static_number<%d,%d,%s>' % (sd, se, RT[stag]))
    return lines


def plan(tier):
    t = 1 if tier == 'thorough' else 0
    lines = programs(t)
    parts = g.split(lines, 24 if t else 12)
    units = []
    for comp in ('g++', 'clang++'):
        for i, text in enumerate(parts):
            if comp == 'clang++' and not t and i % 2:
                continue
            units.append(dict(name='%s-p%d' % (comp, i), src='C09.cpp', compiler=comp, mode='ndebug', opt='-O0',
                              defines=['VF_TIER=%d' % t], gen={'programs.inc': text}, shards=2))
    return dict(
        units=units,
        rule='state = (rounding tag, source type, destination type, source value) for %d generated programs (convert<Tag,Dest> and wrapper construction); 8-bit (thorough: 16-bit) fixed-point sources '
             'enumerated completely, wider ones over the boundary lattice closed under k*2^s +- 2^(s-1) +- 1; floating sources: exponent window x 9 six-bit mantissas x both signs, '
             '(k + {0,.25,.499,.5,.501,.75}) destination units for boundary k incl. 2^23+-1, 2^24+2, 2^52+1, 2^53-1 and their nextafter neighbours; non-trivial = source is not a multiple of the destination unit' % len(lines),
        bound=dict(programs=len(lines), tags=['native', 'nearest', 'tie_to_pos_inf', 'neg_inf']),
        assumptions=['native_rounding_tag is judged as truncation toward zero', 'source and destination of a fixed-point conversion have the same radix (2, 3, 4, 10, 16)'],
        deadline_s=1500 if t else 240,
    )


META = dict(
    text='For the four rounding tags and a generated matrix of (source, destination) pairs (float/double/long double and finer scaled_integer sources; integer and scaled_integer destinations; '
         'convert<> and wrapper construction) every source value of narrow fixed-point types and a tie/near-tie directed lattice of wide and floating sources is converted and compared with the exact '
         'rational value rounded by the mode; loss-free conversions must be exact under every mode.',
    note='Bound: generated type pairs; floating and wide sources on stated lattices. Trusted: compilers, UBSan trap mode, BigInt/Rational/FloatX reference.',
    technique='explicit-state enumeration over (tag, type pair, source value) vs exact rational rounding reference',
)
