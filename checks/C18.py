# C18 bit utilities. Units: both compilers x {default (GCC intrinsic specialisations where CNL enables
# them), CNL_USE_GCC_INTRINSICS=0 (generic definitions)}. UBSan trap mode (driver default) already
# contains -fsanitize=builtin and shift checks on g++ 12 / clang++ 14: __builtin_ctz(0),
# __builtin_clz(0) and x >> width trap (verified), so no extra flags are needed.
#
# Measured cost of one complete 2^32 sweep (core-seconds, -O1 + UBSan):
#   unary (9 functions)             g++ 135   clang++ 180   g++/generic 600   clang++/generic 800
#   counts_bit (4 functions)        g++ 180 (__builtin_clrsb is a libgcc call)
#   counts_numeric (used_digits x3) ~1100-1500 (g++) .. ~2300 (clang++): CNL recurses through 31 divisions
# so the full sweeps are allotted per unit; everything not swept completely runs over the 2^27
# sub-lattice {hi12 x mid8 in 8 patterns x lo12} plus the pattern lattice P(u32).

def _full32(tier, comp, generic):
    """which 2^32 sweeps this unit performs: (unary, signed bit.h counts, signed numeric.h counts, unsigned numeric.h counts)"""
    if tier == 'thorough':
        # used_digits/leading_bits do not depend on CNL_USE_GCC_INTRINSICS: swept once per compiler
        return dict(UNARY=1, SBIT=1, SNUM=0 if generic else 1, UNUM=1 if (comp == 'g++' and not generic) else 0)
    return dict(UNARY=0 if generic else 1, SBIT=0, SNUM=0, UNUM=0)


def plan(tier):
    t = 1 if tier == 'thorough' else 0
    units = []
    sweeps = {}
    for comp in ('g++', 'clang++'):
        for generic in (False, True):
            f = _full32(tier, comp, generic)
            name = comp + ('-generic' if generic else '-default')
            sweeps[name] = [k for k, v in sorted(f.items()) if v]
            defines = ['VF_TIER=%d' % t] + ['C18_FULL32_%s=%d' % (k, v) for k, v in sorted(f.items())]
            if generic:
                defines.append('CNL_USE_GCC_INTRINSICS=0')
            units.append(dict(name=name, src='C18.cpp', compiler=comp, mode='ndebug', defines=defines, shards=16))
    return dict(
        units=units,
        rule='state = (function, operand type, value[, rotation count]); one case = one value (all unary / count functions of that '
             'value are executed and compared) or one (value, count) pair for rotl/rotr. u8/u16/i8/i16: every value; rotations of '
             'u8/u16: every value x every count 0..2w. u32/i32: every value where the unit sweeps 2^32 (see bound.full_2e32_sweeps), '
             'else the 2^27 sub-lattice hi12 x {00,FF,01,80,55,AA,7F,FE} x lo12 plus P(u32). u64/unsigned long long/u128 and their signed '
             'counterparts: P(U) = all runs of ones i..j, single bits, pairs of bits, B0(U), B0(signed U) and complements; rotations '
             'P(U) x every count 0..2w. non-trivial = value is neither 0 nor all-ones (signed: neither 0 nor -1) and, for rotations, '
             'count is not a multiple of the width',
        bound=dict(full_bits=16, full_2e32_sweeps=sweeps, sub_lattice_32='2^27', rotation_counts='0..2*width',
                   wide_types=['u64', 'ull64', 'u128', 'i64', 'll64', 'i128'],
                   functions=['countl_zero', 'countl_one', 'countr_zero', 'countr_one', 'popcount', 'ispow2', 'ceil2', 'floor2', 'log2p1',
                              'rotl', 'rotr', 'countl_rsb', 'countl_rb', 'countr_used', 'used_digits', '_impl::used_digits',
                              'leading_bits', 'trailing_bits']),
        exhaustive_over='all values of the 8/16-bit types and of the 32-bit types in the listed 2^32 sweeps; stated lattices otherwise',
        assumptions=['ceil2(x) is only required for x <= 2^(width-1) (std::bit_ceil is undefined beyond; counted as skipped); '
                     'ceil2(0) == 0 is the documented deviation from std::bit_ceil',
                     'rotation counts outside 0..2*width (including counts that only arise from converting a negative int to unsigned) are outside the property',
                     'optimisation level -O1 only; CNL_USE_GCC_INTRINSICS=0 selects the generic definitions on both compilers'],
        deadline_s=400 if not t else 2700,
    )


META = dict(
    text='Every value of uint8/16/32 is run through countl_zero, countl_one, countr_zero, countr_one, popcount, ispow2, ceil2, floor2, '
         'log2p1 and compared with std <bit> (ceil2(0)==0 being the documented deviation); every value of int8/16/32 through countl_rsb, '
         'countl_rb, countr_used, used_digits, leading_bits, trailing_bits against the bit length of v (v>=0) or -v-1 (v<0); rotl/rotr for '
         'every 8/16-bit value x every count 0..2w; 64/128-bit types over all runs of ones, single bits, bit pairs, boundary values and '
         'complements (x every count for rotations). UBSan traps (builtin, shift) inside a CNL function are violations. g++ and clang++, '
         'with and without CNL_USE_GCC_INTRINSICS.',
    note='Bound: 32-bit sweeps are complete only in the units listed in evidence bound.full_2e32_sweeps (quick: intrinsic units; thorough: all '
         'units for the <bit>-like and bit.h count functions, one unit per compiler for used_digits/leading_bits); 64/128-bit values only on the '
         'stated pattern lattice. Trusted: g++/clang++, UBSan trap mode, libstdc++ <bit> (cross-checked against naive bit loops outside the 2^32 loops).',
    technique='explicit-state enumeration (complete 8/16/32-bit value spaces, pattern lattices for 64/128-bit) vs std <bit> and naive bit-loop reference',
)
