"""Shared matrix generation for the scaled_integer checks (C01..C04)."""
EXP = [-70, -64, -63, -33, -32, -31, -17, -16, -15, -9, -8, -7, -3, -2, -1, 0, 1, 2, 3, 7, 8, 9, 15, 16, 17, 31, 32, 33, 63, 64, 70]
EXPQ = [-70, -33, -8, -1, 0, 1, 7, 31, 70]
BITS = dict(i8=8, u8=8, i16=16, u16=16, i32=32, u32=32, i64=64, u64=64, i128=128, u128=128)


def promoted_digits(rep):
    """digits of the promoted built-in representation (what `rep * power` is computed in)"""
    b = max(BITS[rep], 32)
    signed = rep[0] == 'i' or BITS[rep] < 32
    return b - 1 if signed else b


def split(lines, nparts):
    parts = [[] for _ in range(nparts)]
    for i, l in enumerate(lines):
        parts[i % nparts].append(l)
    return ['\n'.join(p) + '\n' for p in parts]
