"""Driver: build harness units against /repo's working tree, run sharded workers, aggregate,
match known findings, write evidence and replay files."""
import concurrent.futures as cf
import hashlib
import importlib
import json
import os
import re
import shutil
import subprocess
import sys
import time

VERIF = os.path.abspath(os.path.join(os.path.dirname(os.path.abspath(__file__)), '..'))
REPO = os.environ.get('VERIF_REPO', '/repo')
NCPU = int(os.environ.get('VERIF_JOBS', '16'))
GUARD = 'JOHNMCFARLANE_CNL_VERIF'

IDS = ['C%02d' % i for i in range(1, 21)]


# ----------------------------------------------------------------------------------------------
# build configurations

def compiler_flags(unit):
    cxx = unit.get('compiler', 'g++')
    f = [cxx, '-std=' + unit.get('std', 'gnu++20'), unit.get('opt', '-O1'), '-w', '-g0',
         '-I' + os.path.join(REPO, 'include'), '-I' + os.path.join(VERIF, 'engine'),
         '-I' + os.path.join(VERIF, 'harness'), '-D' + GUARD]
    san = unit.get('sanitize', 'ubsan-trap')
    if san == 'ubsan-trap':
        if cxx.startswith('g++'):
            f += ['-fsanitize=undefined,float-cast-overflow', '-fsanitize-undefined-trap-on-error',
                  '-fno-sanitize=vptr']
        else:
            f += ['-fsanitize=undefined,float-cast-overflow',
                  '-fsanitize-trap=undefined,float-cast-overflow', '-fno-sanitize=vptr,function']
    elif san == 'asan+ubsan-trap':
        if cxx.startswith('g++'):
            f += ['-fsanitize=address,undefined', '-fsanitize-undefined-trap-on-error',
                  '-fno-sanitize=vptr']
        else:
            f += ['-fsanitize=address,undefined', '-fsanitize-trap=undefined',
                  '-fno-sanitize=vptr,function']
    elif san == 'none':
        pass
    else:
        raise ValueError(san)
    mode = unit.get('mode', 'ndebug')
    f += ['-DNDEBUG'] if mode == 'ndebug' else ['-DCNL_DEBUG']
    if unit.get('path') is not None:
        f += ['-DJOHNMCFARLANE_CNL_VERIF_OVERFLOW_PATH=%d' % unit['path']]
    for d in unit.get('defines', []):
        f += ['-D' + d]
    f += unit.get('flags', [])
    return f


def config_str(unit):
    s = '%s/%s' % (unit.get('compiler', 'g++'), unit.get('mode', 'ndebug'))
    if unit.get('path') is not None:
        s += '/path=%s' % ('intrinsic' if unit['path'] else 'portable')
    if unit.get('std', 'gnu++20') != 'gnu++20':
        s += '/' + unit['std']
    if unit.get('sanitize', 'ubsan-trap') != 'ubsan-trap':
        s += '/' + unit['sanitize']
    return s


def build_unit(unit, bdir):
    """compile one unit; returns (ok, log)"""
    udir = os.path.join(bdir, unit['name'])
    os.makedirs(udir, exist_ok=True)
    for fname, text in unit.get('gen', {}).items():
        with open(os.path.join(udir, fname), 'w') as fh:
            fh.write(text)
    exe = os.path.join(udir, 'run')
    src = os.path.join(VERIF, 'harness', unit['src'])
    cmd = compiler_flags(unit) + ['-I' + udir, src, '-o', exe]
    t0 = time.time()
    p = subprocess.run(cmd, stdout=subprocess.PIPE, stderr=subprocess.STDOUT, text=True)
    unit['_exe'] = exe
    unit['_cmd'] = cmd
    unit['_build_s'] = time.time() - t0
    return p.returncode == 0, p.stdout[:3000]


def run_shard(unit, shard, nshards, out, deadline_left, extra=None):
    cmd = [unit['_exe'], '--shard', '%d/%d' % (shard, nshards), '--out', out]
    if deadline_left is not None:
        cmd += ['--deadline', '%.1f' % max(deadline_left, 0.0)]
    if unit.get('hang_ticks'):
        cmd += ['--hang-ticks', str(unit['hang_ticks'])]
    cmd += extra or []
    env = dict(os.environ)
    env['ASAN_OPTIONS'] = 'detect_leaks=0:abort_on_error=0:handle_segv=0:handle_sigill=0:handle_sigfpe=0:handle_abort=0:allow_user_segv_handler=1'
    t0 = time.time()
    try:
        p = subprocess.run(cmd, stdout=subprocess.PIPE, stderr=subprocess.PIPE, text=True, env=env,
                           timeout=unit.get('worker_timeout', 3000))
        rc, err = p.returncode, p.stderr[-3000:]
    except subprocess.TimeoutExpired:
        rc, err = -999, 'worker timeout'
    return rc, err, time.time() - t0


# ----------------------------------------------------------------------------------------------
# known findings

def load_known():
    p = os.path.join(VERIF, 'known_findings.json')
    if not os.path.exists(p):
        return {'findings': [], 'fixed': []}
    with open(p) as fh:
        return json.load(fh)


def match_known(known, prop, tier, config, program, key, vc):
    """returns the matching known entry or None"""
    for e in known.get('findings', []):
        if e.get('property') != prop or e.get('status', 'known') != 'known':
            continue
        # a finding is delimited by one (program, key[, config]) pattern or by several ("also": the same defect
        # seen through differently shaped classes, each pattern as narrow as what was observed)
        for pat in [e] + list(e.get('also', [])):
            if (re.fullmatch(pat.get('program', '.*'), program) and re.fullmatch(pat.get('key', '.*'), key)
                    and ('config' not in pat or re.fullmatch(pat['config'], config))):
                break
        else:
            continue
        if 'cases' in e:
            allowed = set(e['cases'])
            if vc['count'] > len(vc['cases']):
                continue  # class larger than what was recorded: cannot be verified against pins
            if not set(vc['cases']) <= allowed:
                continue
        return e
    return None


# ----------------------------------------------------------------------------------------------

def load_plan(pid, tier):
    sys.path.insert(0, os.path.join(VERIF, 'checks'))
    mod = importlib.import_module(pid)
    return mod.plan(tier)


def cmd_run(pid, tier, keep=False):
    t_start = time.time()
    seed = int(os.environ.get('VERIF_SEED', '0') or 0)
    plan = load_plan(pid, tier)
    units = plan['units']
    # exploration budget (seconds after the build); floors keep a loaded machine from cutting a tier short
    deadline_s = float(os.environ.get('VERIF_DEADLINE_S', max(plan.get('deadline_s', 0), 600 if tier == 'quick' else 2400)))
    bdir = os.path.join(VERIF, 'build', '%s-%s' % (pid, tier))
    shutil.rmtree(bdir, ignore_errors=True)
    os.makedirs(bdir)
    evid_path = os.path.join(VERIF, 'evidence', pid + '.json')
    os.makedirs(os.path.dirname(evid_path), exist_ok=True)
    if os.path.exists(evid_path):
        os.remove(evid_path)
    shutil.rmtree(os.path.join(VERIF, 'replays', pid), ignore_errors=True)

    # ---- build
    names = [u['name'] for u in units]
    assert len(set(names)) == len(names), 'duplicate unit names'
    with cf.ThreadPoolExecutor(NCPU) as ex:
        results = list(ex.map(lambda u: build_unit(u, bdir), units))
    # a compiler that was killed or ran out of memory under load (no diagnostic of its own) says nothing about
    # the code: such units are rebuilt once, two at a time. A unit with a compiler diagnostic fails at once.
    def transient(log):
        return ('error' not in log) or any(k in log for k in ('Killed', 'internal compiler error', 'virtual memory exhausted',
                                                               'annot allocate', 'bad_alloc', 'out of memory', 'No space left', 'Resource temporarily'))
    retry = [i for i, (ok, log) in enumerate(results) if not ok and transient(log)]
    if retry:
        print('note: rebuilding %d unit(s) whose compiler died without a diagnostic' % len(retry))
        with cf.ThreadPoolExecutor(2) as ex:
            again = list(ex.map(lambda i: build_unit(units[i], bdir), retry))
        for i, r in zip(retry, again):
            results[i] = r
    failed = [(u, log) for u, (ok, log) in zip(units, results) if not ok]
    infra = []
    if failed:
        for u, log in failed[:1]:
            print('BUILD-FAILED unit=%s config=%s\n%s' % (u['name'], config_str(u), log))
        print('INFRA-ERROR property=%s: %d of %d harness unit(s) failed to build against %s' % (pid, len(failed), len(units), REPO))
        infra += ['unit %s failed to build' % u['name'] for u, _ in failed]
        # a unit that does not build decides nothing; the units that do build are still run, so that a change
        # which breaks one instantiation family cannot hide violations attributable in the others
        units = [u for u, (ok, _) in zip(units, results) if ok]
        if not units:
            if not keep:
                shutil.rmtree(bdir, ignore_errors=True)
            return 2
    t_built = time.time()

    # ---- run
    tasks = []
    for u in units:
        n = u.get('shards', max(1, min(NCPU, (2 * NCPU) // max(1, len(units)))))
        u['_nshards'] = n
        for i in range(n):
            tasks.append((u, i, n, os.path.join(bdir, u['name'], 'out.%d.json' % i)))

    def job(t):
        u, i, n, out = t
        # the deadline budgets the exploration, not the compilation: a slow (loaded) machine must not turn a
        # check into a vacuous pass because the build alone used up the time
        left = deadline_s - (time.time() - t_built)
        r = run_shard(u, i, n, out, left)
        if r[0] in (-9, 137):
            # killed from outside (out-of-memory killer under load): the worker is deterministic, run it once more
            left = deadline_s - (time.time() - t_built)
            r = run_shard(u, i, n, out, left)
        return t, r

    recs = []
    with cf.ThreadPoolExecutor(NCPU) as ex:
        for t, (rc, err, wall) in ex.map(job, tasks):
            u, i, n, out = t
            if rc != 0 or not os.path.exists(out):
                infra.append('worker unit=%s shard=%d/%d rc=%s: %s' % (u['name'], i, n, rc, err.strip()[-800:]))
                continue
            with open(out) as fh:
                recs.append((u, json.load(fh)))
    # A worker that died (or faulted outside a guarded case) cannot be attributed to a state, so it is
    # never a verdict by itself; but it must not hide violations that other workers did attribute:
    # aggregation continues with the records that exist, and the infrastructure error decides the exit
    # code (2) only if no violation is reported.
    for m in infra[:5]:
        print('INFRA-ERROR property=%s %s' % (pid, m))

    # ---- aggregate
    tot = dict(evals=0, nontrivial=0, skipped=0, transitions=0, validated=0)
    outcomes = {}
    programs = {}  # (config, program) -> merged
    deadline_hit = False
    skipped_programs = set()
    for u, r in recs:
        cfg = config_str(u)
        deadline_hit = deadline_hit or r['deadline_hit']
        for sp in r['skipped_programs']:
            skipped_programs.add(cfg + ' ' + sp)
        for p in r['programs']:
            k = (u['name'], cfg, p['name'])
            m = programs.setdefault(k, dict(unit=u, full=p['full'], evals=0, nontrivial=0, skipped=0, transitions=0,
                                            validated=0, outcomes={}, samples=[], viol={}))
            for f in ('evals', 'nontrivial', 'skipped', 'transitions', 'validated'):
                m[f] += p[f]
                tot[f] += p[f]
            for o, c in p['outcomes'].items():
                m['outcomes'][o] = m['outcomes'].get(o, 0) + c
                outcomes[o] = outcomes.get(o, 0) + c
            if len(m['samples']) < 3:
                m['samples'] += p['samples'][:3 - len(m['samples'])]
            for v in p['violations']:
                vc = m['viol'].setdefault(v['key'], dict(count=0, digest=0, cases=[], examples=[]))
                vc['count'] += v['count']
                vc['digest'] = (vc['digest'] + int(v['digest'], 16)) & (2**64 - 1)
                vc['cases'] += v['cases']
                vc['examples'] += v['examples']

    known = load_known()
    known_hit = {}  # entry id -> info
    new_viol = []
    n_viol_cases = 0
    for (uname, cfg, pname), m in sorted(programs.items(), key=lambda kv: kv[0]):
        for key, vc in sorted(m['viol'].items()):
            vc['cases'] = sorted(set(vc['cases']))[:400]
            vc['examples'] = vc['examples'][:3]
            n_viol_cases += vc['count']
            e = match_known(known, pid, tier, cfg, pname, key, vc)
            if e is not None:
                h = known_hit.setdefault(e['id'], dict(entry=e, classes=0, cases=0, example=None, keys={}))
                h['classes'] += 1
                h['keys'][key] = h['keys'].get(key, 0) + vc['count']
                h['cases'] += vc['count']
                h['example'] = h['example'] or (vc['examples'][0] if vc['examples'] else None)
            else:
                new_viol.append(dict(unit=m['unit'], config=cfg, program=pname, key=key, vc=vc))

    # ---- replay files for unlisted violations (re-executed first: same observation required)
    rdir = os.path.join(VERIF, 'replays', pid)
    viol_lines = []
    nondeterministic = []
    if new_viol:
        os.makedirs(rdir, exist_ok=True)
    seen_keys = set()
    n_more_classes = 0
    for v in new_viol:
        # one replay file per (program-family, key): strip template arguments for the file hash
        fam = (v['config'], re.sub(r'[<(].*', '', v['program']), v['key'])
        h = hashlib.sha1(json.dumps([v['config'], v['program'], v['key']]).encode()).hexdigest()[:12]
        path = os.path.join(rdir, h + '.json')
        u = v['unit']
        rep = dict(property=pid, tier=tier, config=v['config'], program=v['program'], key=v['key'],
                   case=v['vc']['cases'][0] if v['vc']['cases'] else None, count=v['vc']['count'],
                   examples=v['vc']['examples'],
                   unit={k: u[k] for k in u if not k.startswith('_')},
                   how='bin/vcheck replay ' + os.path.relpath(path, VERIF))
        with open(path, 'w') as fh:
            json.dump(rep, fh, indent=1)
        if fam in seen_keys or len(viol_lines) >= 10:
            n_more_classes += 1
            continue
        first_of_family = fam not in seen_keys
        seen_keys.add(fam)
        if first_of_family and rep['case'] is not None and plan.get('replayable', True):
            ok = replay_confirms(u, rep)
            if not ok:
                nondeterministic.append(rep)
                continue
        viol_lines.append('VIOLATION property=%s replay=%s' % (pid, path))
        if len(viol_lines) <= 12:
            ex = v['vc']['examples'][0] if v['vc']['examples'] else ''
            print('  class: config=%s program=%s key=%s count=%d\n    e.g. %s' % (v['config'], v['program'], v['key'], v['vc']['count'], ex))

    # ---- evidence
    samples = []
    for (uname, cfg, pname), m in sorted(programs.items(), key=lambda kv: kv[0]):
        for s in m['samples'][:1]:
            if len(samples) < 24:
                samples.append(dict(config=cfg, program=pname, case=s))
    n_prog = len(programs)
    n_full = sum(1 for m in programs.values() if m['full'])
    vacuous = len(outcomes) < 2
    wall = time.time() - t_start
    exhaustive = (not deadline_hit) and not skipped_programs and not infra
    coverage = dict(
        states=tot['evals'] + tot['skipped'],
        transitions=tot['transitions'],
        traces_validated_against_impl=tot['validated'],
        evaluations=tot['evals'],
        distinct_nontrivial=tot['nontrivial'],
        rule=plan.get('rule', ''),
        samples=samples or [dict(note='no case executed')],
        programs=n_prog,
        programs_full_type=n_full,
        programs_lattice=n_prog - n_full,
        skipped_precondition=tot['skipped'],
        outcomes=dict(sorted(outcomes.items(), key=lambda kv: -kv[1])[:60]),
        distinct_outcomes=len(outcomes),
        vacuous=vacuous,
        configs=sorted(set(config_str(u) for u in units)),
        units=len(units),
        bound=plan.get('bound', {}),
        exhaustive=exhaustive,
        exhaustive_over=plan.get('exhaustive_over', 'stated bound: full types for narrow programs, stated lattices for wide ones'),
        deadline_hit=deadline_hit,
        worker_failures=infra[:10],
        programs_not_started=sorted(skipped_programs)[:50],
        build_s=round(t_built - t_start, 1),
        violation_cases=n_viol_cases,
        known_findings_matched=[dict(id=k, classes=h['classes'], cases=h['cases'], distinct_keys=len(h['keys']),
                                     keys=dict(sorted(h['keys'].items())[:60])) for k, h in sorted(known_hit.items())],
        repo=REPO,
        repo_head=git_head(),
    )
    ev = dict(property_id=pid, tier=tier, seed=seed, level='model_checking', coverage=coverage,
              assumptions=plan.get('assumptions', []) + [
                  'C++ compilers, UBSan trap instrumentation and the reference arithmetic in engine/ref (cross-checked against Python integers by setup_cmd) are trusted',
                  'VERIF_SEED is recorded but no choice depends on it: enumeration is total and deterministic'],
              wall_s=round(wall, 2), violations=len(viol_lines))
    with open(evid_path, 'w') as fh:
        json.dump(ev, fh, indent=1)

    for k, h in sorted(known_hit.items()):
        print('KNOWN-FINDING: property=%s %s [%s: %d classes, %d cases; e.g. %s]' % (pid, h['entry']['what'], k, h['classes'], h['cases'], h['example']))
    print('%s %s: programs=%d (full-type %d) states=%d transitions=%d validated=%d nontrivial=%d skipped_pre=%d outcomes=%d configs=%d build=%.0fs wall=%.0fs exhaustive=%s%s' % (
        pid, tier, n_prog, n_full, coverage['states'], tot['transitions'], tot['validated'], tot['nontrivial'], tot['skipped'],
        len(outcomes), len(coverage['configs']), t_built - t_start, wall, exhaustive, ' VACUOUS(one outcome class)' if vacuous else ''))
    if not keep:
        shutil.rmtree(bdir, ignore_errors=True)
    if n_prog == 0 or tot['evals'] == 0:
        print('INFRA-ERROR property=%s: no program was executed (deadline or filter); this run decides nothing' % pid)
        return 2
    if infra and not viol_lines:
        print('INFRA-ERROR property=%s: %d worker(s) failed and no violation was attributed; this run decides nothing' % (pid, len(infra)))
        return 2
    if nondeterministic and not viol_lines:
        for r in nondeterministic[:5]:
            print('INFRA-ERROR property=%s observation did not reproduce on replay: %s %s %s' % (pid, r['program'], r['key'], r['case']))
        return 2
    if viol_lines:
        if n_more_classes:
            print('(%d further violation classes have replay files under %s)' % (n_more_classes, rdir))
        for l in viol_lines:
            print(l)
        return 1
    return 0


def git_head():
    try:
        return subprocess.run(['git', '-C', REPO, 'rev-parse', '--short', 'HEAD'], stdout=subprocess.PIPE, text=True).stdout.strip()
    except Exception:
        return ''


def replay_run(u, rep, bdir):
    """build (if needed) and run a single case; returns list of violation keys observed for the program"""
    if '_exe' not in u or not os.path.exists(u['_exe']):
        ok, log = build_unit(u, bdir)
        if not ok:
            print(log)
            raise RuntimeError('replay build failed')
    out = os.path.join(os.path.dirname(u['_exe']), 'replay.json')
    rc, err, _ = run_shard(u, 0, 1, out, None, ['--only', rep['program'], '--case', rep['case']])
    if rc != 0:
        return None, 'worker rc=%s %s' % (rc, err)
    with open(out) as fh:
        r = json.load(fh)
    keys = {}
    for p in r['programs']:
        for v in p['violations']:
            keys[v['key']] = v['examples']
    return keys, ''


def replay_confirms(u, rep):
    keys, err = replay_run(u, rep, os.path.dirname(os.path.dirname(u['_exe'])))
    return keys is not None and rep['key'] in keys


def cmd_replay(path):
    with open(path) as fh:
        rep = json.load(fh)
    u = rep['unit']
    bdir = os.path.join(VERIF, 'build', 'replay')
    shutil.rmtree(bdir, ignore_errors=True)
    os.makedirs(bdir)
    try:
        keys, err = replay_run(u, rep, bdir)
    finally:
        pass
    if keys is None:
        print('replay failed to run: ' + err)
        shutil.rmtree(bdir, ignore_errors=True)
        return 2
    print('replay property=%s config=%s program=%s case=%s' % (rep['property'], rep['config'], rep['program'], rep['case']))
    for k, ex in keys.items():
        print('  observed class %s\n    %s' % (k, ex[0] if ex else ''))
    shutil.rmtree(bdir, ignore_errors=True)
    if rep['key'] in keys:
        print('REPRODUCED %s' % rep['key'])
        return 1
    print('not reproduced')
    return 0


def cmd_setup():
    bdir = os.path.join(VERIF, 'build', 'setup')
    shutil.rmtree(bdir, ignore_errors=True)
    os.makedirs(bdir)
    sys.path.insert(0, os.path.join(VERIF, 'lib'))
    import refvectors
    vec = os.path.join(bdir, 'vectors.txt')
    n = refvectors.write(vec)
    exe = os.path.join(bdir, 'selftest')
    cmd = ['g++', '-std=gnu++20', '-O1', '-w', '-fsanitize=undefined', '-fsanitize-undefined-trap-on-error',
           '-I' + os.path.join(VERIF, 'engine'), os.path.join(VERIF, 'engine', 'ref', 'selftest.cpp'), '-o', exe]
    p = subprocess.run(cmd)
    if p.returncode != 0:
        print('setup: reference self-test failed to build')
        return 1
    p = subprocess.run([exe, vec])
    shutil.rmtree(bdir, ignore_errors=True)
    if p.returncode != 0:
        print('setup: reference library disagrees with Python on %d vectors file' % n)
        return 1
    print('setup: reference library agrees with Python integers/fractions on %d vectors' % n)
    for tool in ('g++', 'clang++'):
        if shutil.which(tool) is None:
            print('setup: missing ' + tool)
            return 1
    return 0


def main(argv):
    if not argv:
        print(__doc__)
        return 64
    if argv[0] == 'setup':
        return cmd_setup()
    if argv[0] == 'run':
        pid = argv[1]
        tier = os.environ.get('VERIF_TIER', 'quick')
        keep = False
        i = 2
        while i < len(argv):
            if argv[i] == '--tier':
                tier = argv[i + 1]
                i += 2
            elif argv[i] == '--keep':
                keep = True
                i += 1
            else:
                print('unknown argument ' + argv[i])
                return 64
        if tier not in ('quick', 'thorough'):
            print('bad tier')
            return 64
        return cmd_run(pid, tier, keep)
    if argv[0] == 'replay':
        return cmd_replay(argv[1])
    if argv[0] == 'all':
        tier = argv[2] if len(argv) > 2 and argv[1] == '--tier' else 'quick'
        with open(os.path.join(VERIF, 'MANIFEST.json')) as fh:
            man = json.load(fh)
        rc = 0
        for c in man['checks']:
            r = cmd_run(c['property_id'], tier)
            rc = max(rc, r)
        return rc
    print(__doc__)
    return 64
