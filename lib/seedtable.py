#!/usr/bin/env python3
"""Prints a markdown table of /verif/seeded/*/meta.json (which checks caught which seeded change)."""
import glob, json, os, re
VERIF = os.path.abspath(os.path.join(os.path.dirname(os.path.abspath(__file__)), '..'))
rows = []
for d in sorted(glob.glob(os.path.join(VERIF, 'seeded', '*'))):
    mp = os.path.join(d, 'meta.json')
    if not os.path.exists(mp):
        continue
    m = json.load(open(mp))
    name = os.path.basename(d)
    stat = m.get('patch_stat', '')
    files = ''
    try:
        diff = open(os.path.join(d, 'patch.diff')).read()
        files = ', '.join(sorted(set(re.sub(r'^include/cnl/(_impl/)?', '', f) for f in re.findall(r'^\+\+\+ b/(\S+)', diff, re.M))))
    except Exception:
        pass
    caught = ', '.join(m.get('caught_by', [])) or '**none**'
    ex = ''
    for c in m.get('caught_by', []):
        r = m['checks'][c]
        if r.get('classes'):
            ex = re.sub(r'^class: config=\S+ ', '', r['classes'][0])
            break
    what = m.get('needs', '')
    rows.append('| %s | %s | %s | %s | %s |' % (name, files, what, caught, ex[:140].replace('|', '/')))
print('| seed | file(s) changed | needs to manifest | caught by (quick tier) | first class reported |')
print('|---|---|---|---|---|')
print('\n'.join(rows))
