#!/usr/bin/env python3
"""seedcheck.py <PROP> <LABEL> [--checks C01,C05] [--tier quick] [--skip-suite]

Confirms a seeded property-breaking change produced by an independent agent and measures whether
the checks catch it:
  1. in the agent's scratch worktree /tmp/seed_<PROP>: apply seed/<LABEL>.diff, rebuild and run the
     repository's own suite (expect the pinned 113/115), build the demonstration with the change
     (must fail) and without it (must pass);
  2. apply the patch to /repo, run the named checks, undo it straight afterwards;
  3. store patch.diff, the demonstration and meta.json under /verif/seeded/<PROP>-<LABEL>/.
Nothing is ever committed to /repo.
"""
import json
import os
import re
import shutil
import subprocess
import sys
import time

VERIF = os.path.abspath(os.path.join(os.path.dirname(os.path.abspath(__file__)), '..'))


def sh(cmd, cwd=None, timeout=7200):
    p = subprocess.run(cmd, shell=True, cwd=cwd, stdout=subprocess.PIPE, stderr=subprocess.STDOUT, text=True, timeout=timeout)
    return p.returncode, p.stdout


def main():
    prop, label = sys.argv[1], sys.argv[2]
    checks = [prop]
    tier = 'quick'
    skip_suite = False
    args = sys.argv[3:]
    while args:
        a = args.pop(0)
        if a == '--checks':
            checks = args.pop(0).split(',')
        elif a == '--tier':
            tier = args.pop(0)
        elif a == '--skip-suite':
            skip_suite = True
    wt = '/tmp/seed_%s' % prop
    patch = os.path.join(wt, 'seed', label + '.diff')
    demo = os.path.join(wt, 'seed', 'demo_%s.cpp' % label)
    out = os.path.join(VERIF, 'seeded', '%s-%s' % (prop, label))
    os.makedirs(out, exist_ok=True)
    meta = dict(property=prop, breaks_property=prop, label=label, ran=[])
    needs_file = os.path.join(VERIF, 'seeded', 'needs.json')
    if os.path.exists(needs_file):
        meta['needs'] = json.load(open(needs_file)).get('%s-%s' % (prop, label), '')
    an_file = os.path.join(VERIF, 'seeded', 'analysis.json')
    if os.path.exists(an_file):
        an = json.load(open(an_file)).get('%s-%s' % (prop, label))
        if an:
            meta['analysis'] = an
    notes = os.path.join(wt, 'seed', 'NOTES6.md' if (label in ('K', 'L', 'M') and os.path.exists(os.path.join(wt, 'seed', 'NOTES6.md'))) else 'NOTES5.md' if (label in ('I', 'J', 'K') and os.path.exists(os.path.join(wt, 'seed', 'NOTES5.md'))) else 'NOTES4.md' if (label in ('G', 'H', 'I') and os.path.exists(os.path.join(wt, 'seed', 'NOTES4.md'))) else 'NOTES3.md' if label in ('E', 'F', 'G') else ('NOTES2.md' if label in ('C', 'D') else 'NOTES.md'))

    # ---- 1. confirm in the scratch worktree
    sh('git checkout -- include', wt)
    rc, o = sh('git apply --check %s && git apply %s' % (patch, patch), wt)
    assert rc == 0, 'patch does not apply: ' + o
    rc, files = sh('git diff --stat | tail -1', wt)
    meta['patch_stat'] = files.strip()
    if not skip_suite:
        t0 = time.time()
        sh('cmake --build _build -j10 -- -k 0 > _seedcheck_build.log 2>&1', wt)
        rc, o = sh('grep -E "^FAILED:" _seedcheck_build.log | sort -u', wt)
        build_failed = [l for l in o.splitlines() if 'boost.multiprecision' not in l and 'index.dir' not in l]
        sh('ctest --test-dir _build -j10 --timeout 900 > _seedcheck_ctest.log 2>&1', wt)
        rc, o = sh('grep -E "tests passed|tests failed" _seedcheck_ctest.log; sed -n "/The following tests FAILED/,$p" _seedcheck_ctest.log | grep -E "^\\s+[0-9]+ - "', wt)
        failed = [l.strip() for l in o.splitlines() if re.match(r'\s*\d+ - ', l)]
        unexpected = [l for l in failed if 'test-unit-index' not in l and 'test-unit-boost.multiprecision' not in l]
        meta['suite_with_change'] = dict(summary=o.splitlines()[0] if o else '', unexpected_failures=unexpected, build_failures=build_failed, wall_s=round(time.time() - t0))
        meta['ran'].append('cmake --build _build -- -k 0 && ctest --test-dir _build  (in %s, change applied)' % wt)
        suite_ok = not unexpected and not build_failed and '2 tests failed out of 115' in o
    else:
        suite_ok = None
        meta['suite_with_change'] = 'not re-run by seedcheck (see agent NOTES.md)'
        # keep the suite result of an earlier full confirmation of the same patch
        old_meta = os.path.join(out, 'meta.json')
        if os.path.exists(old_meta) and os.path.exists(os.path.join(out, 'patch.diff')) and open(os.path.join(out, 'patch.diff')).read() == open(patch).read():
            om = json.load(open(old_meta))
            if isinstance(om.get('suite_with_change'), dict):
                meta['suite_with_change'] = om['suite_with_change']
                suite_ok = om.get('confirmed', {}).get('suite_passes')
                meta['ran'] = [r for r in om.get('ran', []) if 'ctest' in r]
    # demo with and without the change
    first = open(demo).read(4000)
    san = '-fsanitize=undefined -fno-sanitize-recover=all' if 'fsanitize' in first else ''
    cmd = 'g++ -std=gnu++20 -O1 -w %s -I%s/include %s -o %s/_demo_%s' % (san, wt, demo, wt, label)
    # honour the compile command the author states in the demo's header comment (first one found):
    # some demos need clang++ (portable overflow path), -DNDEBUG or specific defines
    mcmd = re.search(r'^//\s*((?:g\+\+|clang\+\+)\s[^\n]*-std=gnu\+\+20[^\n]*)', first, re.M)
    if mcmd:
        stated = mcmd.group(1)
        comp = stated.split()[0]
        flags = [t for t in stated.split()[1:] if (t.startswith('-D') or t.startswith('-O') or t.startswith('-f') or t == '-DNDEBUG')]
        if comp == 'clang++' or flags:
            cmd = '%s -std=gnu++20 -w %s -I%s/include %s -o %s/_demo_%s' % (comp, ' '.join(flags) or '-O1', wt, demo, wt, label)
    rc, o = sh(cmd, wt)
    demo_with = None
    if rc == 0:
        rc2, o2 = sh('timeout 120 %s/_demo_%s' % (wt, label), wt)
        demo_with = dict(rc=rc2, tail=o2[-600:])
    else:
        demo_with = dict(rc='compile failed', tail=o[-600:])
    sh('git checkout -- include', wt)
    rc, o = sh(cmd, wt)
    rc2, o2 = sh('timeout 120 %s/_demo_%s' % (wt, label), wt) if rc == 0 else (None, o)
    demo_without = dict(rc=rc2, tail=(o2 or '')[-300:])
    meta['demo_with_change'] = demo_with
    meta['demo_without_change'] = demo_without
    meta['ran'].append(cmd + '   (with and without the change)')
    demo_ok = demo_without['rc'] == 0 and demo_with['rc'] not in (0, 'compile failed')

    # ---- 2. run the checks against the patched tree.
    # mode "worktree" (default while other jobs use /repo): the patch is applied in the scratch worktree and
    # the checks rebuild from it (VERIF_REPO=<worktree>); mode "repo": git -C /repo apply, run, checkout.
    mode = os.environ.get('SEEDCHECK_MODE', 'worktree')
    results = {}
    if mode == 'repo':
        rc, o = sh('git -C /repo status --porcelain --untracked-files=no')
        assert o.strip() == '', '/repo has uncommitted changes: ' + o
        rc, o = sh('git -C /repo apply %s' % patch)
        assert rc == 0, 'patch does not apply to /repo: ' + o
        env = ''
    else:
        rc, o = sh('git apply %s' % patch, wt)
        assert rc == 0, 'patch does not re-apply: ' + o
        env = 'VERIF_REPO=%s ' % wt
    try:
        for c in checks:
            t0 = time.time()
            rc, o = sh(env + 'bin/vcheck run %s --tier %s' % (c, tier), VERIF)
            lines = o.splitlines()
            viol = [l for l in lines if l.startswith('VIOLATION')]
            classes = [l.strip() for l in lines if l.strip().startswith('class:')][:6]
            egs = [l.strip() for l in lines if l.strip().startswith('e.g.')][:3]
            results[c] = dict(exit=rc, violations=len(viol), classes=classes, examples=egs, wall_s=round(time.time() - t0),
                              infra=[l for l in lines if 'INFRA-ERROR' in l or 'BUILD-FAILED' in l][:3])
            meta['ran'].append((env + 'bin/vcheck run %s --tier %s  (patch applied in %s)' % (c, tier, wt)) if mode != 'repo' else
                               ('git -C /repo apply patch.diff; bin/vcheck run %s --tier %s; git -C /repo checkout -- .' % (c, tier)))
    finally:
        if mode == 'repo':
            sh('git -C /repo checkout -- .')
        else:
            sh('git checkout -- include', wt)
    meta['checks'] = results
    meta['caught_by'] = [c for c, r in results.items() if r['exit'] == 1 and r['violations'] > 0]
    meta['confirmed'] = dict(suite_passes=suite_ok, demo_discriminates=demo_ok)
    # what it needs to manifest: the agent's own description for this change
    if os.path.exists(notes):
        shutil.copy(notes, os.path.join(out, 'NOTES_from_author.md'))
    shutil.copy(patch, os.path.join(out, 'patch.diff'))
    shutil.copy(demo, os.path.join(out, 'demo.cpp'))
    # restore the evidence files of the unchanged tree is the caller's job (re-run the checks)
    with open(os.path.join(out, 'meta.json'), 'w') as fh:
        json.dump(meta, fh, indent=1)
    print('%s-%s: suite_ok=%s demo_ok=%s caught_by=%s' % (prop, label, suite_ok, demo_ok, meta['caught_by']))
    for c, r in results.items():
        print('   %s exit=%s violations=%d %s' % (c, r['exit'], r['violations'], (r['classes'][:1] + r['examples'][:1] + r['infra'][:1])))


if __name__ == '__main__':
    main()
