"""Cross-validation vectors for engine/ref (BigInt/Rational) computed with Python integers and
fractions.Fraction. Enumerated (not sampled): complete product of a boundary value set."""
from fractions import Fraction
import math


def values():
    v = {0, 1, 2, 3, 5, 7, 10, 1000000007, 0x5555555555555555, 0xAAAAAAAAAAAAAAAA, 0x0123456789ABCDEF0123456789ABCDEF}
    for k in (7, 8, 15, 16, 31, 32, 33, 63, 64, 65, 95, 96, 127, 128, 129, 200):
        v |= {2**k - 1, 2**k, 2**k + 1}
    v |= {-x for x in v}
    return sorted(v)


def tdiv(a, b):
    q = abs(a) // abs(b)
    if (a < 0) != (b < 0):
        q = -q
    return q, a - q * b


def half_away(fr):
    q = (abs(fr.numerator) * 2 + fr.denominator) // (2 * fr.denominator)
    return -q if fr < 0 else q


def half_up(fr):
    return math.floor(fr + Fraction(1, 2))


def half_even(fr):
    return round(fr)


def wrap(v, bits, signed):
    r = v % (1 << bits)
    if signed and r >= 1 << (bits - 1):
        r -= 1 << bits
    return r


def write(path):
    vs = values()
    n = 0
    with open(path, 'w') as f:
        for a in vs:
            f.write('str %d\n' % a)
            for s in (0, 1, 31, 32, 33, 64, 100):
                f.write('shl %d %d %d\n' % (a, s, a * 2**s))
                q = abs(a) >> s
                f.write('shr %d %d %d\n' % (a, s, -q if a < 0 else q))
                n += 2
            for bits in (8, 16, 24, 32, 64, 128, 200):
                f.write('wrap %d %d 1 %d\n' % (a, bits, wrap(a, bits, True)))
                f.write('wrap %d %d 0 %d\n' % (a, bits, wrap(a, bits, False)))
                n += 2
            for b in vs:
                f.write('add %d %d %d\n' % (a, b, a + b))
                f.write('sub %d %d %d\n' % (a, b, a - b))
                f.write('mul %d %d %d\n' % (a, b, a * b))
                f.write('cmp %d %d %d\n' % (a, b, (a > b) - (a < b)))
                n += 4
                if b != 0:
                    q, r = tdiv(a, b)
                    fr = Fraction(a, b)
                    f.write('div %d %d %d %d\n' % (a, b, q, r))
                    f.write('rnd %d %d %d %d %d %d %d\n' % (a, b, math.floor(fr), math.ceil(fr), half_away(fr), half_up(fr), half_even(fr)))
                    n += 2
    return n
