#!/usr/bin/env python3
"""Regenerate /verif/MANIFEST.json from checks/*.py (one check per implemented property)."""
import importlib, json, os, sys
VERIF = os.path.abspath(os.path.join(os.path.dirname(os.path.abspath(__file__)), '..'))
sys.path.insert(0, os.path.join(VERIF, 'checks'))
IDS = ['C%02d' % i for i in range(1, 21)]
ENABLED = set(open(os.path.join(VERIF, 'checks', 'enabled.txt')).read().split())
checks, na = [], []
for pid in IDS:
    if pid not in ENABLED or not os.path.exists(os.path.join(VERIF, 'checks', pid + '.py')):
        na.append(dict(property_id=pid, reason='check not built yet in this round (planned in DESIGN.md sec. 8); nothing is claimed for it'))
        continue
    m = importlib.import_module(pid)
    meta = m.META
    checks.append(dict(
        property_id=pid,
        quick_cmd='bin/vcheck run %s --tier quick' % pid,
        thorough_cmd='bin/vcheck run %s --tier thorough' % pid,
        evidence_file='/verif/evidence/%s.json' % pid,
        replay_cmd_template='bin/vcheck replay {path}',
        engine='vf',
        level_claimed=dict(category='model_checking', text=meta['text'], design_ref=meta.get('design_ref', 'DESIGN.md sec. 8 ' + pid)),
        level_note=meta['note'],
        technique=meta.get('technique', 'explicit-state exhaustive enumeration of real template instantiations against an exact reference model'),
    ))
man = dict(
    version=1,
    setup_cmd='bin/vcheck setup',
    hooks=dict(
        guard='JOHNMCFARLANE_CNL_VERIF',
        enable='every harness TU is compiled with -DJOHNMCFARLANE_CNL_VERIF -I/repo/include (header-only library); -DJOHNMCFARLANE_CNL_VERIF_OVERFLOW_PATH=0|1 additionally selects the overflow-detection path',
        baseline_off_cmd='bin/baseline.sh /repo /repo/_build',
        source_commits=json.load(open(os.path.join(VERIF, 'hooks.json')))['source_commits'],
        add_only=True,
    ),
    engines=[dict(name='vf', path='engine/vf.h + lib/vdriver.py',
                  serves_properties=[c['property_id'] for c in checks],
                  kind_free_text='explicit-state explorer: enumerates complete finite operand spaces of real CNL template instantiations in sharded worker processes; UBSan-trap/abort-hook/SIGSEGV/hang outcomes recovered in-process; exact BigInt/Rational reference (engine/ref)')],
    checks=checks,
    not_applicable=na,
    notes='See DESIGN.md. Exit 0 = held on everything explored (KNOWN-FINDING lines possible), 1 = VIOLATION, 2 = infrastructure error. known_findings.json lists recorded and fixed defects.',
)
json.dump(man, open(os.path.join(VERIF, 'MANIFEST.json'), 'w'), indent=1)
print('MANIFEST: %d checks, %d not_applicable' % (len(checks), len(na)))
