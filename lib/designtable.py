#!/usr/bin/env python3
"""Regenerates the seeded-change table of DESIGN.md (between the SEEDTABLE markers) from seeded/*/meta.json."""
import os, re, subprocess, sys
VERIF = os.path.abspath(os.path.join(os.path.dirname(os.path.abspath(__file__)), '..'))
table = subprocess.run([sys.executable, os.path.join(VERIF, 'lib', 'seedtable.py')], stdout=subprocess.PIPE, text=True, check=True).stdout.strip()
p = os.path.join(VERIF, 'DESIGN.md')
s = open(p).read()
block = '<!-- SEEDTABLE BEGIN (lib/designtable.py) -->\n' + table + '\n<!-- SEEDTABLE END -->'
if '@@TABLE@@' in s:
    s = s.replace('@@TABLE@@', block)
else:
    s = re.sub(r'<!-- SEEDTABLE BEGIN.*?<!-- SEEDTABLE END -->', lambda m: block, s, flags=re.S)
open(p, 'w').write(s)
print('table rows:', table.count('\n') - 1)
