// selftest.cpp — checks engine/ref/big.h against vectors computed by Python (lib/refvectors.py),
// and floatx.h against the FPU on exactly representable values.
#include "ref/big.h"
#include "ref/floatx.h"
#include <cstdio>
#include <cstring>
#include <string>
#include <vector>
using ref::Big;
using ref::Rat;

static int fails = 0;
static void expect(bool ok, const char* what, std::string const& line)
{
    if (!ok) {
        if (fails < 20) fprintf(stderr, "selftest mismatch (%s): %s\n", what, line.c_str());
        ++fails;
    }
}

int main(int argc, char** argv)
{
    if (argc < 2) return 2;
    FILE* f = fopen(argv[1], "r");
    if (!f) return 2;
    char buf[4096];
    long n = 0;
    while (fgets(buf, sizeof buf, f)) {
        std::string line(buf);
        while (!line.empty() && (line.back() == '\n' || line.back() == ' ')) line.pop_back();
        std::vector<std::string> t;
        size_t p = 0;
        while (p < line.size()) {
            size_t q = line.find(' ', p);
            if (q == std::string::npos) q = line.size();
            t.push_back(line.substr(p, q - p));
            p = q + 1;
        }
        auto B = [&](int i) { return Big::parse(t[i].c_str()); };
        ++n;
        if (t[0] == "str") expect(B(1).str() == t[1], "str", line);
        else if (t[0] == "add") expect(B(1) + B(2) == B(3), "add", line);
        else if (t[0] == "sub") expect(B(1) - B(2) == B(3), "sub", line);
        else if (t[0] == "mul") expect(B(1) * B(2) == B(3), "mul", line);
        else if (t[0] == "cmp") expect(Big::cmp(B(1), B(2)) == atoi(t[3].c_str()), "cmp", line);
        else if (t[0] == "shl") expect(B(1).shl(atoi(t[2].c_str())) == B(3), "shl", line);
        else if (t[0] == "shr") expect(B(1).shr_trunc(atoi(t[2].c_str())) == B(3), "shr", line);
        else if (t[0] == "wrap") expect(ref::wrap_twos(B(1), atoi(t[2].c_str()), t[3] == "1") == B(4), "wrap", line);
        else if (t[0] == "div") {
            Big q, r;
            Big::divmod(B(1), B(2), q, r);
            expect(q == B(3) && r == B(4), "div", line);
        } else if (t[0] == "rnd") {
            Rat x(B(1), B(2));
            expect(x.floor() == B(3), "floor", line);
            expect(x.ceil() == B(4), "ceil", line);
            expect(x.round_half_away() == B(5), "half_away", line);
            expect(x.round_half_up() == B(6), "half_up", line);
            expect(x.round_half_even() == B(7), "half_even", line);
            expect(x.trunc() == B(1) / B(2), "trunc", line);
        } else
            expect(false, "unknown op", line);
    }
    fclose(f);
    // floatx: decode/round agree with the FPU where the FPU is exact by construction
    for (int e = -140; e <= 120; ++e)
        for (int m = 1; m < 64; ++m) {
            float x = std::ldexp(float(m), e);
            if (x == 0 || !std::isfinite(x)) continue;
            Rat r = ref::to_rat(x);
            expect(r == Rat::scaled(Big(m), 2, e), "decode float", std::to_string(m) + "p" + std::to_string(e));
            double d = std::ldexp(double(m), e);
            expect(ref::to_rat(d) == Rat::scaled(Big(m), 2, e), "decode double", "");
            long double ld = std::ldexp((long double)m, e);
            expect(ref::to_rat(ld) == Rat::scaled(Big(m), 2, e), "decode long double", "");
            bool ov;
            expect(ref::round_to_format<float>(r, ov) == r && !ov, "round exact", "");
        }
    // rounding: 2^24+1 is a float tie -> even (2^24); 2^24+3 -> 2^24+4
    {
        bool ov;
        expect(ref::round_to_format<float>(Rat(Big(16777217)), ov) == Rat(Big(16777216)), "tie even down", "");
        expect(ref::round_to_format<float>(Rat(Big(16777219)), ov) == Rat(Big(16777220)), "tie even up", "");
        expect(ref::round_to_format<double>(Rat(Big((1ll << 53) + 1)), ov) == Rat(Big(1ll << 53)), "tie even double", "");
        // agreement with the FPU's own int64 -> float/double conversion on a lattice
        for (int k = 24; k < 63; ++k)
            for (long long d = -3; d <= 3; ++d)
                for (int j = 0; j < k; j += 5) {
                    long long v = (1ll << k) + (1ll << j) + d;
                    expect(ref::round_to_format<float>(Rat(Big(v)), ov) == ref::to_rat(float(v)), "fpu float", std::to_string(v));
                    expect(ref::round_to_format<double>(Rat(Big(v)), ov) == ref::to_rat(double(v)), "fpu double", std::to_string(v));
                    expect(ref::round_to_format<long double>(Rat(Big(v)), ov) == ref::to_rat((long double)(v)), "fpu ld", std::to_string(v));
                }
    }
    if (fails) {
        fprintf(stderr, "selftest: %d mismatches in %ld vectors\n", fails, n);
        return 1;
    }
    return 0;
}
