// floatx.h — exact decode of IEEE float/double and x87 long double to rationals, and correctly
// rounded (nearest-even) encode from rationals, independent of the FPU conversions under test.
#pragma once
#include "big.h"
#include <cmath>
#include <cstring>
#include <limits>

namespace ref {

template<class F>
struct fmt;
template<>
struct fmt<float> {
    static constexpr int p = 24, emin = -126, emax = 127;
};
template<>
struct fmt<double> {
    static constexpr int p = 53, emin = -1022, emax = 1023;
};
template<>
struct fmt<long double> {
    static constexpr int p = 64, emin = -16382, emax = 16383;
};

// finite x == m * 2^e exactly (m integer, possibly negative)
template<class F>
inline void decode(F x, __int128& m, int& e)
{
    if (!std::isfinite(x)) die("decode: non-finite");
    if constexpr (std::is_same_v<F, float>) {
        uint32_t b;
        memcpy(&b, &x, 4);
        int ex = int((b >> 23) & 0xff);
        uint32_t fr = b & 0x7fffffu;
        if (ex == 0) {
            m = fr;
            e = -126 - 23;
        } else {
            m = fr | 0x800000u;
            e = ex - 127 - 23;
        }
        if (b >> 31) m = -m;
    } else if constexpr (std::is_same_v<F, double>) {
        uint64_t b;
        memcpy(&b, &x, 8);
        int ex = int((b >> 52) & 0x7ff);
        uint64_t fr = b & ((uint64_t(1) << 52) - 1);
        if (ex == 0) {
            m = fr;
            e = -1022 - 52;
        } else {
            m = fr | (uint64_t(1) << 52);
            e = ex - 1023 - 52;
        }
        if (b >> 63) m = -m;
    } else {
        static_assert(std::numeric_limits<long double>::digits == 64, "x87 long double expected");
        uint64_t mant;
        uint16_t se;
        memcpy(&mant, &x, 8);
        memcpy(&se, reinterpret_cast<const char*>(&x) + 8, 2);
        int ex = se & 0x7fff;
        m = mant;
        e = (ex == 0 ? 1 : ex) - 16383 - 63;
        if (se >> 15) m = -m;
    }
}

template<class F>
inline Rat to_rat(F x)
{
    __int128 m;
    int e;
    decode(x, m, e);
    if (e >= 0) return Rat(Big(m).shl(e));
    if (-e > 1400) {
        // tiny: keep capacity bounded by dropping common factors of two
        while (m != 0 && (m & 1) == 0 && e < 0) {
            m >>= 1;
            ++e;
        }
        if (m == 0) return Rat(Big(0));
        if (-e > 1400) die("to_rat: exponent too small for reference capacity");
    }
    return Rat(Big(m), Big::pow2(-e));
}

// the value of format F nearest to x (ties to even), as an exact rational; sets overflow if |x|
// rounds beyond the largest finite value
template<class F>
inline Rat round_to_format(Rat const& x, bool& overflow)
{
    overflow = false;
    if (x.n.is_zero()) return Rat(Big(0));
    constexpr int p = fmt<F>::p;
    Rat a = x.abs();
    // find e with 2^e <= a < 2^(e+1)
    int e = a.n.bit_length() - a.d.bit_length();
    if (Rat::cmp(a, Rat::scaled(Big(1), 2, e)) < 0) --e;
    if (Rat::cmp(a, Rat::scaled(Big(1), 2, e + 1)) >= 0) ++e;
    if (e < fmt<F>::emin) e = fmt<F>::emin;  // subnormal spacing
    int ulp_e = e - (p - 1);
    // q = a / 2^ulp_e rounded half-even
    Rat scaled = a * Rat::scaled(Big(1), 2, -ulp_e);
    Big q = scaled.round_half_even();
    Rat r = Rat::scaled(q, 2, ulp_e);
    // overflow check
    if (e + 1 >= fmt<F>::emax) {  // only then can rounding have passed the largest finite value
        Rat maxv = Rat::scaled(Big::pow2(p) - Big(1), 2, fmt<F>::emax - (p - 1));
        if (Rat::cmp(r, maxv) > 0) overflow = true;
    }
    return x.n.neg ? -r : r;
}

}  // namespace ref
