// big.h — boring exact arithmetic for the reference model: fixed-capacity sign-magnitude integers
// (no heap, so usable in 10^8-case loops) and rationals on top of them.
// Validated at setup time against Python integers (engine/ref/selftest.cpp + bin/vcheck setup).
#pragma once
#include <cstdint>
#include <cstdio>
#include <cstdlib>
#include <cstring>
#include <string>
#include <type_traits>

namespace ref {

[[noreturn]] inline void die(const char* m)
{
    fprintf(stderr, "VF-HARNESS-FAULT: reference arithmetic: %s\n", m);
    _Exit(71);
}

template<int N>
struct BigT {
    uint32_t l[N];  // little endian magnitude
    int n = 0;  // used limbs (no leading zero limbs)
    bool neg = false;  // never true for zero

    BigT() {}
    template<class T, std::enable_if_t<std::is_integral_v<T> || std::is_same_v<T, __int128> || std::is_same_v<T, unsigned __int128>, int> = 0>
    BigT(T v)
    {
        unsigned __int128 u;
        if constexpr (std::is_signed_v<T> || std::is_same_v<T, __int128>) {
            if (v < 0) {
                neg = true;
                u = (unsigned __int128)0 - (unsigned __int128)v;
            } else
                u = (unsigned __int128)v;
        } else
            u = (unsigned __int128)v;
        while (u) {
            l[n++] = uint32_t(u);
            u >>= 32;
        }
    }

    bool is_zero() const { return n == 0; }
    int sign() const { return n == 0 ? 0 : (neg ? -1 : 1); }
    void trim()
    {
        while (n > 0 && l[n - 1] == 0) --n;
        if (n == 0) neg = false;
    }

    static int cmp_mag(BigT const& a, BigT const& b)
    {
        if (a.n != b.n) return a.n < b.n ? -1 : 1;
        for (int i = a.n - 1; i >= 0; --i)
            if (a.l[i] != b.l[i]) return a.l[i] < b.l[i] ? -1 : 1;
        return 0;
    }
    static int cmp(BigT const& a, BigT const& b)
    {
        if (a.neg != b.neg) return a.neg ? -1 : 1;
        int c = cmp_mag(a, b);
        return a.neg ? -c : c;
    }
    static BigT add_mag(BigT const& a, BigT const& b)
    {
        BigT r;
        uint64_t c = 0;
        int m = a.n > b.n ? a.n : b.n;
        if (m + 1 > N) die("capacity (add)");
        for (int i = 0; i < m; ++i) {
            uint64_t s = c + (i < a.n ? a.l[i] : 0u) + (i < b.n ? b.l[i] : 0u);
            r.l[i] = uint32_t(s);
            c = s >> 32;
        }
        r.n = m;
        if (c) r.l[r.n++] = uint32_t(c);
        return r;
    }
    // |a| >= |b|
    static BigT sub_mag(BigT const& a, BigT const& b)
    {
        BigT r;
        int64_t br = 0;
        for (int i = 0; i < a.n; ++i) {
            int64_t d = int64_t(a.l[i]) - (i < b.n ? int64_t(b.l[i]) : 0) - br;
            br = d < 0;
            if (d < 0) d += (int64_t(1) << 32);
            r.l[i] = uint32_t(d);
        }
        r.n = a.n;
        r.trim();
        return r;
    }
    friend BigT operator+(BigT const& a, BigT const& b)
    {
        BigT r;
        if (a.neg == b.neg) {
            r = add_mag(a, b);
            r.neg = a.neg;
        } else {
            int c = cmp_mag(a, b);
            if (c == 0) return BigT();
            if (c > 0) {
                r = sub_mag(a, b);
                r.neg = a.neg;
            } else {
                r = sub_mag(b, a);
                r.neg = b.neg;
            }
        }
        r.trim();
        return r;
    }
    friend BigT operator-(BigT const& a)
    {
        BigT r = a;
        if (r.n) r.neg = !r.neg;
        return r;
    }
    friend BigT operator-(BigT const& a, BigT const& b) { return a + (-b); }
    friend BigT operator*(BigT const& a, BigT const& b)
    {
        BigT r;
        if (a.n == 0 || b.n == 0) return r;
        if (a.n + b.n > N) die("capacity (mul)");
        for (int i = 0; i < a.n + b.n; ++i) r.l[i] = 0;
        for (int i = 0; i < a.n; ++i) {
            uint64_t c = 0;
            for (int j = 0; j < b.n; ++j) {
                uint64_t t = uint64_t(a.l[i]) * b.l[j] + r.l[i + j] + c;
                r.l[i + j] = uint32_t(t);
                c = t >> 32;
            }
            r.l[i + b.n] = uint32_t(c);
        }
        r.n = a.n + b.n;
        r.neg = a.neg != b.neg;
        r.trim();
        return r;
    }
    int bit_length() const
    {
        if (n == 0) return 0;
        return 32 * (n - 1) + (32 - __builtin_clz(l[n - 1]));
    }
    bool bit(int i) const
    {
        int w = i / 32;
        return w < n && ((l[w] >> (i % 32)) & 1u);
    }
    // magnitude shift (sign preserved): value * 2^s
    BigT shl(int s) const
    {
        if (s < 0) die("shl negative");
        BigT r;
        if (n == 0) return r;
        int w = s / 32, b = s % 32;
        if (n + w + 1 > N) die("capacity (shl)");
        for (int i = 0; i < w; ++i) r.l[i] = 0;
        uint32_t c = 0;
        for (int i = 0; i < n; ++i) {
            r.l[i + w] = (l[i] << b) | c;
            c = b ? (l[i] >> (32 - b)) : 0;
        }
        r.n = n + w;
        if (c) r.l[r.n++] = c;
        r.neg = neg;
        return r;
    }
    // magnitude shift right: trunc toward zero of value / 2^s
    BigT shr_trunc(int s) const
    {
        if (s < 0) die("shr negative");
        BigT r;
        int w = s / 32, b = s % 32;
        if (w >= n) return r;
        for (int i = w; i < n; ++i) {
            uint32_t lo = l[i] >> b;
            uint32_t hi = (b && i + 1 < n) ? (l[i + 1] << (32 - b)) : 0;
            r.l[i - w] = lo | hi;
        }
        r.n = n - w;
        r.neg = neg;
        r.trim();
        return r;
    }
    // truncating division (C semantics): a = q*b + r, sign(r) in {0, sign(a)}
    static void divmod(BigT const& a, BigT const& b, BigT& q, BigT& r)
    {
        if (b.n == 0) die("division by zero");
        q = BigT();
        r = BigT();
        if (cmp_mag(a, b) < 0) {
            r = a;
            return;
        }
        if (b.n == 1) {
            uint64_t rem = 0;
            q.n = a.n;
            for (int i = a.n - 1; i >= 0; --i) {
                uint64_t cur = (rem << 32) | a.l[i];
                q.l[i] = uint32_t(cur / b.l[0]);
                rem = cur % b.l[0];
            }
            q.trim();
            if (rem) {
                r.l[0] = uint32_t(rem);
                r.n = 1;
            }
        } else {
            // bitwise shift-subtract: slow and obviously right
            BigT bm = b;
            bm.neg = false;
            int bits = a.bit_length();
            q.n = a.n;
            for (int i = 0; i < q.n; ++i) q.l[i] = 0;
            for (int i = bits - 1; i >= 0; --i) {
                r = r.shl(1);
                if (a.bit(i)) {
                    if (r.n == 0) {
                        r.l[0] = 1;
                        r.n = 1;
                    } else
                        r.l[0] |= 1u;
                }
                if (cmp_mag(r, bm) >= 0) {
                    r = sub_mag(r, bm);
                    q.l[i / 32] |= (1u << (i % 32));
                }
            }
            q.trim();
        }
        q.neg = q.n && (a.neg != b.neg);
        r.neg = r.n && a.neg;
    }
    friend BigT operator/(BigT const& a, BigT const& b)
    {
        BigT q, r;
        divmod(a, b, q, r);
        return q;
    }
    friend BigT operator%(BigT const& a, BigT const& b)
    {
        BigT q, r;
        divmod(a, b, q, r);
        return r;
    }
    friend bool operator==(BigT const& a, BigT const& b) { return cmp(a, b) == 0; }
    friend bool operator!=(BigT const& a, BigT const& b) { return cmp(a, b) != 0; }
    friend bool operator<(BigT const& a, BigT const& b) { return cmp(a, b) < 0; }
    friend bool operator<=(BigT const& a, BigT const& b) { return cmp(a, b) <= 0; }
    friend bool operator>(BigT const& a, BigT const& b) { return cmp(a, b) > 0; }
    friend bool operator>=(BigT const& a, BigT const& b) { return cmp(a, b) >= 0; }

    BigT abs() const
    {
        BigT r = *this;
        r.neg = false;
        return r;
    }
    static BigT pow(BigT const& b, int e)
    {
        if (e < 0) die("pow negative");
        BigT r(1);
        for (int i = 0; i < e; ++i) r = r * b;
        return r;
    }
    static BigT pow2(int e) { return BigT(1).shl(e); }

    // does the value fit a two's-complement integer of `bits` bits?
    bool fits(int bits, bool is_signed) const
    {
        if (is_signed) {
            if (!neg) return bit_length() <= bits - 1;
            // -2^(bits-1) fits
            BigT lim = pow2(bits - 1);
            return cmp_mag(*this, lim) <= 0;
        }
        return !neg && bit_length() <= bits;
    }
    template<class T>
    bool fits_type() const
    {
        return fits(int(sizeof(T) * 8), (std::is_signed_v<T> || std::is_same_v<T, __int128>));
    }
    // value mod 2^128 as unsigned (two's complement wrap)
    unsigned __int128 low128() const
    {
        unsigned __int128 u = 0;
        for (int i = (n < 4 ? n : 4) - 1; i >= 0; --i) u = (u << 32) | l[i];
        return neg ? (unsigned __int128)0 - u : u;
    }
    template<class T>
    T to() const
    {
        return T(low128());
    }
    std::string str() const
    {
        if (n == 0) return "0";
        BigT t = abs();
        std::string s;
        while (t.n) {
            uint64_t rem = 0;
            for (int i = t.n - 1; i >= 0; --i) {
                uint64_t cur = (rem << 32) | t.l[i];
                t.l[i] = uint32_t(cur / 1000000000u);
                rem = cur % 1000000000u;
            }
            t.trim();
            char b[16];
            snprintf(b, sizeof b, t.n ? "%09u" : "%u", unsigned(rem));
            s = std::string(b) + s;
        }
        return (neg ? "-" : "") + s;
    }
    static BigT parse(const char* s, int base = 10)
    {
        BigT r;
        bool ng = false;
        if (*s == '-') {
            ng = true;
            ++s;
        } else if (*s == '+')
            ++s;
        BigT b(base);
        for (; *s; ++s) {
            int d;
            if (*s >= '0' && *s <= '9') d = *s - '0';
            else if (*s >= 'a' && *s <= 'z') d = *s - 'a' + 10;
            else if (*s >= 'A' && *s <= 'Z') d = *s - 'A' + 10;
            else if (*s == '\'') continue;
            else die("parse: bad digit");
            if (d >= base) die("parse: digit >= base");
            r = r * b + BigT(d);
        }
        if (ng && r.n) r.neg = true;
        return r;
    }
    static BigT gcd(BigT a, BigT b)
    {
        a.neg = b.neg = false;
        while (b.n) {
            BigT t = a % b;
            a = b;
            b = t;
        }
        return a;
    }
};

using Big = BigT<48>;  // 1536 bits: enough for 128-bit reps x 128-bit reps x 10^+-70 / 2^+-140

// two's-complement reduction of v to `bits` bits, signed or unsigned result value
template<int N>
BigT<N> wrap_twos(BigT<N> const& v, int bits, bool is_signed)
{
    BigT<N> m = BigT<N>::pow2(bits);
    BigT<N> r = v % m;  // sign of v
    if (r.neg) r = r + m;  // now in [0, 2^bits)
    if (is_signed && r >= BigT<N>::pow2(bits - 1)) r = r - m;
    return r;
}

// floor division and friends on integers
template<int N>
BigT<N> floor_div(BigT<N> const& a, BigT<N> const& b)
{
    BigT<N> q, r;
    BigT<N>::divmod(a, b, q, r);
    if (r.n && (r.neg != b.neg)) q = q - BigT<N>(1);
    return q;
}

// exact rational n/d with d > 0 (not necessarily in lowest terms; comparisons cross-multiply)
template<int N>
struct RatT {
    using B = BigT<N>;
    B n, d{1};
    RatT() {}
    RatT(B const& num)
        : n(num)
    {
    }
    RatT(B const& num, B const& den)
        : n(num)
        , d(den)
    {
        if (d.is_zero()) die("rational with zero denominator");
        if (d.neg) {
            d = -d;
            n = -n;
        }
    }
    // m * radix^e
    static RatT scaled(B const& m, int radix, int e)
    {
        if (e >= 0) return RatT(m * B::pow(B(radix), e));
        return RatT(m, B::pow(B(radix), -e));
    }
    void reduce()
    {
        B g = B::gcd(n, d);
        if (!(g == B(1)) && !g.is_zero()) {
            n = n / g;
            d = d / g;
        }
    }
    friend RatT operator+(RatT const& a, RatT const& b)
    {
        if (a.d == b.d) return RatT(a.n + b.n, a.d);
        return RatT(a.n * b.d + b.n * a.d, a.d * b.d);
    }
    friend RatT operator-(RatT const& a) { return RatT(-a.n, a.d); }
    friend RatT operator-(RatT const& a, RatT const& b) { return a + (-b); }
    friend RatT operator*(RatT const& a, RatT const& b) { return RatT(a.n * b.n, a.d * b.d); }
    friend RatT operator/(RatT const& a, RatT const& b) { return RatT(a.n * b.d, a.d * b.n); }
    static int cmp(RatT const& a, RatT const& b)
    {
        if (a.d == b.d) return B::cmp(a.n, b.n);
        return B::cmp(a.n * b.d, b.n * a.d);
    }
    friend bool operator==(RatT const& a, RatT const& b) { return cmp(a, b) == 0; }
    friend bool operator!=(RatT const& a, RatT const& b) { return cmp(a, b) != 0; }
    friend bool operator<(RatT const& a, RatT const& b) { return cmp(a, b) < 0; }
    friend bool operator<=(RatT const& a, RatT const& b) { return cmp(a, b) <= 0; }
    friend bool operator>(RatT const& a, RatT const& b) { return cmp(a, b) > 0; }
    friend bool operator>=(RatT const& a, RatT const& b) { return cmp(a, b) >= 0; }
    int sign() const { return n.sign(); }
    RatT abs() const { return RatT(n.abs(), d); }
    bool is_integer() const { return (n % d).is_zero(); }
    B trunc() const { return n / d; }
    B floor() const { return floor_div(n, d); }
    B ceil() const { return -floor_div(-n, d); }
    // nearest integer, ties away from zero
    B round_half_away() const
    {
        B two(2);
        B q = (n.abs() * two + d) / (d * two);
        return n.neg ? -q : q;
    }
    // nearest integer, ties toward +infinity: floor(x + 1/2)
    B round_half_up() const
    {
        B two(2);
        return floor_div(n * two + d, d * two);
    }
    // nearest integer, ties to even
    B round_half_even() const
    {
        B two(2);
        B f = floor();
        RatT rem = *this - RatT(f);  // in [0,1)
        int c = cmp(rem, RatT(B(1), two));
        if (c < 0) return f;
        if (c > 0) return f + B(1);
        return f.bit(0) ? f + B(1) : f;
    }
    std::string str() const
    {
        RatT t = *this;
        t.reduce();
        if (t.d == B(1)) return t.n.str();
        return t.n.str() + "/" + t.d.str();
    }
};
using Rat = RatT<48>;

}  // namespace ref
