// vf.h — explicit-state exploration engine for the CNL checks (see /verif/DESIGN.md sec. 3, 4, 6).
//
// A harness is a set of *programs* (one real template instantiation each). A program enumerates
// its complete, stated, finite operand space in a fixed order; every case
//   1. is classified by the exact reference (precondition -> skip, otherwise expected outcome),
//   2. runs the real CNL code inside vf::run(), which turns UBSan traps, CNL aborts, exceptions,
//      SIGSEGV and hangs into *outcomes* instead of process deaths,
//   3. is compared with the reference; a mismatch is a violation with a semantic class key.
// Sharding selects rows only (who runs what), never the set of cases.
#pragma once
#include <csetjmp>
#include <csignal>
#include <cstdint>
#include <cstdio>
#include <cstdlib>
#include <cstring>
#include <functional>
#include <map>
#include <stdexcept>
#include <string>
#include <sys/time.h>
#include <time.h>
#include <type_traits>
#include <unistd.h>
#include <vector>

namespace vf {

enum Kind : int { OK = 0, UB_TRAP = 1, FPE = 2, SEGV = 3, ABORT_HOOK = 4, SIGABRT_ = 5, HANG = 6, THROW_OVERFLOW = 7, THROW_OTHER = 8 };

inline const char* kind_name(int k)
{
    switch (k) {
    case OK: return "ok";
    case UB_TRAP: return "ub_trap";
    case FPE: return "sigfpe";
    case SEGV: return "sigsegv";
    case ABORT_HOOK: return "cnl_abort";
    case SIGABRT_: return "sigabrt";
    case HANG: return "hang";
    case THROW_OVERFLOW: return "throw_overflow_error";
    case THROW_OTHER: return "throw_other";
    }
    return "?";
}

struct Outcome {
    int kind = OK;
    std::string msg;  // abort-hook message or exception what()
    bool ok() const { return kind == OK; }
    std::string str() const
    {
        std::string s = kind_name(kind);
        if (!msg.empty()) s += "(" + msg + ")";
        return s;
    }
};

struct ViolationClass {
    uint64_t count = 0;
    uint64_t digest = 0;  // order-independent sum of case-id hashes
    std::vector<std::string> cases;  // first CAP case ids (enumeration order)
    std::vector<std::string> examples;  // first 3 detailed examples
};

struct ProgramRec {
    std::string name;
    bool full_type = true;  // whole operand types enumerated (vs stated lattice)
    uint64_t evals = 0, nontrivial = 0, skipped = 0, transitions = 0, validated = 0;
    std::map<std::string, uint64_t> outcomes;
    std::map<std::string, ViolationClass> viol;
    std::vector<std::string> samples;
};

struct Global {
    sigjmp_buf jb;
    volatile sig_atomic_t in_case = 0;
    volatile uint64_t progress = 0;
    uint64_t last_progress = 0;
    int stalled_ticks = 0;
    int hang_ticks = 40;  // x 50 ms of process CPU time
    char abort_msg[256];
    int shard = 0, nshards = 1;
    std::string only;  // substring filter on program names (replay)
    std::string replay_case;  // when set: only this case id executes, verbosely
    uint64_t row_counter = 0;
    std::vector<ProgramRec> programs;
    ProgramRec* cur = nullptr;
    double deadline = 0;  // absolute monotonic seconds; 0 = none
    bool deadline_hit = false;
    std::vector<std::string> programs_skipped_deadline;
    size_t case_cap = 400;
    volatile uint64_t* slot = nullptr;  // optional shared progress slot
};
inline Global g;

inline double now_s()
{
    timespec ts;
    clock_gettime(CLOCK_MONOTONIC, &ts);
    return double(ts.tv_sec) + 1e-9 * double(ts.tv_nsec);
}

// ---------------------------------------------------------------------------------------------
// signal plumbing

inline void on_signal(int sig)
{
    if (!g.in_case) {
        // a fault outside the code under test is a harness bug, never a verdict
        static const char m[] = "VF-HARNESS-FAULT: signal outside a guarded case\n";
        (void)!write(2, m, sizeof m - 1);
        _exit(70);
    }
    int k = UB_TRAP;
    if (sig == SIGFPE) k = FPE;
    else if (sig == SIGSEGV || sig == SIGBUS) k = SEGV;
    else if (sig == SIGABRT) k = SIGABRT_;
    else if (sig == SIGILL || sig == SIGTRAP) k = UB_TRAP;
    siglongjmp(g.jb, k);
}

inline void on_tick(int)
{
    if (!g.in_case) {
        g.stalled_ticks = 0;
        return;
    }
    if (g.progress != g.last_progress) {
        g.last_progress = g.progress;
        g.stalled_ticks = 0;
        return;
    }
    if (++g.stalled_ticks >= g.hang_ticks) {
        g.stalled_ticks = 0;
        siglongjmp(g.jb, HANG);
    }
}

inline void install_handlers()
{
    static char altstack[1 << 16];
    stack_t ss{};
    ss.ss_sp = altstack;
    ss.ss_size = sizeof altstack;
    sigaltstack(&ss, nullptr);
    struct sigaction sa{};
    sa.sa_handler = on_signal;
    sa.sa_flags = SA_NODEFER | SA_ONSTACK;
    sigemptyset(&sa.sa_mask);
    for (int s : {SIGILL, SIGFPE, SIGSEGV, SIGBUS, SIGABRT, SIGTRAP}) sigaction(s, &sa, nullptr);
    struct sigaction st{};
    st.sa_handler = on_tick;
    st.sa_flags = SA_NODEFER | SA_ONSTACK | SA_RESTART;
    sigemptyset(&st.sa_mask);
    sigaction(SIGPROF, &st, nullptr);
    itimerval it{};
    it.it_interval.tv_usec = 50000;
    it.it_value.tv_usec = 50000;
    setitimer(ITIMER_PROF, &it, nullptr);
}

// run the code under test; every abnormal exit becomes an Outcome
template<class F>
[[gnu::noinline]] Outcome run(F&& f)
{
    Outcome o;
    if (g.cur) g.cur->transitions++;
    g.in_case = 1;
    int c = sigsetjmp(g.jb, 0);
    if (c != 0) {
        g.in_case = 0;
        g.progress = g.progress + 1;
        o.kind = c;
        if (c == ABORT_HOOK) o.msg = g.abort_msg;
        return o;
    }
    try {
        f();
    } catch (std::overflow_error const& e) {
        o.kind = THROW_OVERFLOW;
        o.msg = e.what();
    } catch (std::exception const& e) {
        o.kind = THROW_OTHER;
        o.msg = e.what();
    } catch (...) {
        o.kind = THROW_OTHER;
    }
    g.in_case = 0;
    g.progress = g.progress + 1;
    return o;
}

// ---------------------------------------------------------------------------------------------
// names and text

template<class T>
std::string to_s(T v)
{
    if constexpr (std::is_same_v<T, bool>) {
        return v ? "true" : "false";
    } else if constexpr (std::is_floating_point_v<T>) {
        char b[64];
        snprintf(b, sizeof b, "%La", (long double)v);
        return b;
    } else if constexpr (std::is_same_v<T, __int128> || std::is_same_v<T, unsigned __int128>) {
        bool neg = false;
        unsigned __int128 u;
        if constexpr (std::is_same_v<T, __int128>) {
            neg = v < 0;
            u = neg ? (unsigned __int128)0 - (unsigned __int128)v : (unsigned __int128)v;
        } else
            u = v;
        char b[48];
        int i = 47;
        b[i] = 0;
        do {
            b[--i] = char('0' + int(u % 10));
            u /= 10;
        } while (u);
        if (neg) b[--i] = '-';
        return b + i;
    } else if constexpr (std::is_integral_v<T>) {
        if constexpr (std::is_signed_v<T>) return std::to_string((long long)v);
        else return std::to_string((unsigned long long)v);
    } else {
        return std::string(v);
    }
}

template<class T>
struct type_name;
#define VF_TN(T, S) \
    template<> \
    struct type_name<T> { \
        static std::string get() { return S; } \
    };
VF_TN(bool, "bool")
VF_TN(char, "char")
VF_TN(signed char, "i8")
VF_TN(unsigned char, "u8")
VF_TN(short, "i16")
VF_TN(unsigned short, "u16")
VF_TN(int, "i32")
VF_TN(unsigned, "u32")
VF_TN(long, "i64")
VF_TN(unsigned long, "u64")
VF_TN(wchar_t, "wchar")
VF_TN(char8_t, "char8")
VF_TN(char16_t, "char16")
VF_TN(char32_t, "char32")
VF_TN(long long, "ll64")
VF_TN(unsigned long long, "ull64")
VF_TN(__int128, "i128")
VF_TN(unsigned __int128, "u128")
VF_TN(float, "f32")
VF_TN(double, "f64")
VF_TN(long double, "f80")
#undef VF_TN
template<class T>
std::string tn()
{
    return type_name<T>::get();
}

inline std::string json_escape(std::string const& s)
{
    std::string o;
    for (unsigned char c : s) {
        if (c == '"' || c == '\\') {
            o += '\\';
            o += char(c);
        } else if (c < 0x20 || c >= 0x7f) {
            char b[8];
            snprintf(b, sizeof b, "\\u%04x", c);
            o += b;
        } else
            o += char(c);
    }
    return o;
}

inline uint64_t fnv(std::string const& s)
{
    uint64_t h = 1469598103934665603ull;
    for (unsigned char c : s) {
        h ^= c;
        h *= 1099511628211ull;
    }
    return h;
}

// ---------------------------------------------------------------------------------------------
// program / row / case bookkeeping

// begin a program; returns false if filtered out (replay) or the deadline has passed
inline bool begin(std::string const& name, bool full_type)
{
    if (!g.only.empty() && name != g.only) return false;
    if (g.deadline > 0 && now_s() > g.deadline) {
        g.deadline_hit = true;
        if (g.shard == 0) g.programs_skipped_deadline.push_back(name);
        return false;
    }
    g.programs.emplace_back();
    g.cur = &g.programs.back();
    g.cur->name = name;
    g.cur->full_type = full_type;
    return true;
}

// sharding: one call per row (outer-loop iteration); true if this worker owns the row
inline bool my_row()
{
    return (g.row_counter++ % uint64_t(g.nshards)) == uint64_t(g.shard);
}

inline void skip_pre()
{
    g.cur->skipped++;
}

inline void outcome(std::string const& o)
{
    g.cur->outcomes[o]++;
}
inline void outcome(const char* o)
{
    g.cur->outcomes[o]++;
}

// count a checked case; nontrivial per the harness's stated rule
inline void counted(bool nontrivial)
{
    g.cur->evals++;
    if (nontrivial) g.cur->nontrivial++;
}
inline void validated(uint64_t n = 1)
{
    g.cur->validated += n;
}

// should this case's full text be kept as a sample? (first, then every 2^k-th)
inline bool want_sample()
{
    uint64_t n = g.cur->evals;
    return g.cur->samples.size() < 6 && (n & (n - 1)) == 0 && (n <= 2 || n >= 64);
}
inline void sample(std::string const& s)
{
    if (g.cur->samples.size() < 6) g.cur->samples.push_back(s);
}

// record a violation of class `key` for case `case_id` (operands only), `detail` = full story
inline void violation(std::string const& key, std::string const& case_id, std::string const& detail)
{
    ViolationClass& v = g.cur->viol[key];
    v.count++;
    v.digest += fnv(case_id);
    if (v.cases.size() < g.case_cap) v.cases.push_back(case_id);
    if (v.examples.size() < 3) v.examples.push_back(detail);
}

inline bool replaying()
{
    return !g.replay_case.empty();
}
// in replay mode only the named case runs
inline bool case_selected(std::string const& case_id)
{
    return g.replay_case.empty() || g.replay_case == case_id;
}

// ---------------------------------------------------------------------------------------------
// output

inline void dump_json(FILE* f)
{
    fprintf(f, "{\"shard\":%d,\"nshards\":%d,\"deadline_hit\":%s,\"skipped_programs\":[", g.shard, g.nshards, g.deadline_hit ? "true" : "false");
    for (size_t i = 0; i < g.programs_skipped_deadline.size(); ++i) fprintf(f, "%s\"%s\"", i ? "," : "", json_escape(g.programs_skipped_deadline[i]).c_str());
    fprintf(f, "],\"programs\":[\n");
    bool firstp = true;
    for (auto const& p : g.programs) {
        fprintf(f, "%s{\"name\":\"%s\",\"full\":%s,\"evals\":%llu,\"nontrivial\":%llu,\"skipped\":%llu,\"transitions\":%llu,\"validated\":%llu,\"outcomes\":{", firstp ? "" : ",\n",
                json_escape(p.name).c_str(), p.full_type ? "true" : "false", (unsigned long long)p.evals, (unsigned long long)p.nontrivial, (unsigned long long)p.skipped,
                (unsigned long long)p.transitions, (unsigned long long)p.validated);
        firstp = false;
        bool first = true;
        for (auto const& [k, n] : p.outcomes) {
            fprintf(f, "%s\"%s\":%llu", first ? "" : ",", json_escape(k).c_str(), (unsigned long long)n);
            first = false;
        }
        fprintf(f, "},\"samples\":[");
        for (size_t i = 0; i < p.samples.size(); ++i) fprintf(f, "%s\"%s\"", i ? "," : "", json_escape(p.samples[i]).c_str());
        fprintf(f, "],\"violations\":[");
        first = true;
        for (auto const& [k, v] : p.viol) {
            fprintf(f, "%s{\"key\":\"%s\",\"count\":%llu,\"digest\":\"%016llx\",\"cases\":[", first ? "" : ",", json_escape(k).c_str(), (unsigned long long)v.count,
                    (unsigned long long)v.digest);
            first = false;
            for (size_t i = 0; i < v.cases.size(); ++i) fprintf(f, "%s\"%s\"", i ? "," : "", json_escape(v.cases[i]).c_str());
            fprintf(f, "],\"examples\":[");
            for (size_t i = 0; i < v.examples.size(); ++i) fprintf(f, "%s\"%s\"", i ? "," : "", json_escape(v.examples[i]).c_str());
            fprintf(f, "]}");
        }
        fprintf(f, "]}");
    }
    fprintf(f, "\n]}\n");
}

using ProgramFn = void (*)();
inline std::vector<ProgramFn>& registry()
{
    static std::vector<ProgramFn> r;
    return r;
}
struct Reg {
    explicit Reg(ProgramFn f) { registry().push_back(f); }
};
#define VF_CAT2(a, b) a##b
#define VF_CAT(a, b) VF_CAT2(a, b)
// register a group of programs (a function that calls program kernels in a fixed order)
#define VF_GROUP(fn) static ::vf::Reg VF_CAT(vf_reg_, __COUNTER__)(fn)

inline int main_(int argc, char** argv)
{
    const char* out = nullptr;
    for (int i = 1; i < argc; ++i) {
        std::string a = argv[i];
        if (a == "--shard" && i + 1 < argc) {
            sscanf(argv[++i], "%d/%d", &g.shard, &g.nshards);
        } else if (a == "--out" && i + 1 < argc) {
            out = argv[++i];
        } else if (a == "--only" && i + 1 < argc) {
            g.only = argv[++i];
        } else if (a == "--case" && i + 1 < argc) {
            g.replay_case = argv[++i];
        } else if (a == "--deadline" && i + 1 < argc) {
            g.deadline = now_s() + atof(argv[++i]);
        } else if (a == "--hang-ticks" && i + 1 < argc) {
            g.hang_ticks = atoi(argv[++i]);
        } else {
            fprintf(stderr, "vf: unknown argument %s\n", a.c_str());
            return 64;
        }
    }
    install_handlers();
    for (auto f : registry()) f();
    FILE* fo = out ? fopen(out, "w") : stdout;
    if (!fo) return 65;
    dump_json(fo);
    if (out) fclose(fo);
    return 0;
}

}  // namespace vf

// the guarded hook in include/cnl/_impl/abort.h calls this before std::abort()
extern "C" void johnmcfarlane_cnl_verif_on_abort(char const* message) noexcept
{
    if (!vf::g.in_case) {
        (void)!write(2, "VF-HARNESS-FAULT: cnl abort outside a guarded case: ", 52);
        (void)!write(2, message, strlen(message));
        (void)!write(2, "\n", 1);
        _exit(70);
    }
    strncpy(vf::g.abort_msg, message, sizeof vf::g.abort_msg - 1);
    vf::g.abort_msg[sizeof vf::g.abort_msg - 1] = 0;
    siglongjmp(vf::g.jb, vf::ABORT_HOOK);
}

#define VF_MAIN() \
    int main(int argc, char** argv) { return ::vf::main_(argc, argv); }
