// C08 — integer division under a rounding mode returns the correctly rounded quotient; all other
// operators under a rounding tag behave like the built-in ones.
//
// State space: (Tag, L, R, a, b). 8-bit (quick) / 16-bit (thorough) operand types are enumerated
// completely; 32/64-bit types over B0 closed under k*b +- b/2 +- 1 (ties and near ties in all four
// sign quadrants) and limit -+ b/2 +- 1 (where a bias addition would overflow).
// Oracle: exact quotient in 128-bit/BigInt arithmetic, rounded by the mode.
// Precondition (decided exactly, before CNL runs): b != 0; both operands are representable in the
// promoted common type Res = decltype(L/R) (the property speaks about the values the built-in
// operator sees; a negative int converted to unsigned is outside it); the rounded quotient fits Res.
#include "common.h"

#include <cnl/elastic_integer.h>
#include <cnl/rounding_integer.h>
#include <cnl/wide_integer.h>

template<class Tag>
struct tag_info;
template<>
struct tag_info<cnl::native_rounding_tag> {
    static constexpr const char* name = "native";
    static constexpr int mode = 0;
};
template<>
struct tag_info<cnl::nearest_rounding_tag> {
    static constexpr const char* name = "nearest";
    static constexpr int mode = 1;
};
template<>
struct tag_info<cnl::tie_to_pos_inf_rounding_tag> {
    static constexpr const char* name = "tie_to_pos_inf";
    static constexpr int mode = 2;
};
template<>
struct tag_info<cnl::neg_inf_rounding_tag> {
    static constexpr const char* name = "neg_inf";
    static constexpr int mode = 3;
};

// exact rounded quotient of a/b (|a|,|b| < 2^64 or so), by mode, in 128-bit arithmetic
static inline i128 ref_div(i128 a, i128 b, int mode, bool& tie, bool& inexact)
{
    i128 q = a / b, r = a % b;
    inexact = r != 0;
    i128 ar = r < 0 ? -r : r, ab = b < 0 ? -b : b;
    tie = inexact && (2 * ar == ab);
    bool negq = (a < 0) != (b < 0);
    switch (mode) {
    case 0: return q;
    case 1: return (2 * ar >= ab) ? (negq ? q - 1 : q + 1) : q;
    case 2: {
        // floor(a/b + 1/2)
        if (2 * ar > ab) return negq ? q - 1 : q + 1;
        if (2 * ar == ab) return negq ? q : q + 1;
        return q;
    }
    case 3: return (r != 0 && negq) ? q - 1 : q;
    }
    return 0;
}

template<class L, class R>
std::vector<L> closure_for(R b, std::vector<L> const& base)
{
    std::vector<L> v = base;
    if (b == 0) return v;
    Big B(b), h = B / Big(2);
    using Res = decltype(L{} / R{});
    for (int k : {-3, -2, -1, 0, 1, 2, 3, 7})
        for (int sh : {-1, 0, 1})
            for (int d : {-1, 0, 1}) vals::add_if_fits(v, Big(k) * B + Big(sh) * h + Big(d));
    for (Big lim : {Big(vals::max_v<Res>()), Big(vals::min_v<Res>()), Big(vals::max_v<L>()), Big(vals::min_v<L>())})
        for (int sh : {-1, 1})
            for (int d : {-2, -1, 0, 1, 2}) vals::add_if_fits(v, lim + Big(sh) * h.abs() + Big(d));
    vals::sort_unique(v);
    return v;
}

template<class L, class R, class Tag, bool RhsBuiltin = false>
[[gnu::noinline]] void prog_div(int fullbits)
{
    using XL = cnl::rounding_integer<L, Tag>;
    using XR = std::conditional_t<RhsBuiltin, R, cnl::rounding_integer<R, Tag>>;
    using XRes = decltype(std::declval<XL>() / std::declval<XR>());
    using Rep = std::remove_cvref_t<decltype(cnl::_impl::to_rep(std::declval<XRes>()))>;
    using Res = decltype(L{} / R{});
    constexpr int mode = tag_info<Tag>::mode;
    bool full = vals::is_full<L>(fullbits) && vals::is_full<R>(fullbits);
    std::string name = std::string(RhsBuiltin ? "div_rhs_builtin<" : "div<") + vf::tn<L>() + "," + vf::tn<R>() + "," + tag_info<Tag>::name + ">";
    if (!vf::begin(name, full)) return;
    if (!std::is_same_v<Rep, Res>) vf::violation("result_rep_type", "-", "result rep is " + vf::tn<Rep>() + ", built-in gives " + vf::tn<Res>());
    auto const A0 = vals::space<L>(fullbits);
    auto const Bs = vals::space<R>(fullbits);
    for (R b : Bs) {
        if (!vf::my_row()) continue;
        std::vector<L> const Ac = full ? std::vector<L>() : closure_for<L, R>(b, A0);
        std::vector<L> const& As = full ? A0 : Ac;
        for (L a : As) {
            auto id = [&] { return vf::to_s(a) + "/" + vf::to_s(b); };
            if (vf::replaying() && !vf::case_selected(id())) continue;
            if (b == 0) {
                vf::skip_pre();
                continue;
            }
            // operands as the built-in operator sees them
            if (!Big(a).template fits_type<Res>() || !Big(b).template fits_type<Res>()) {
                vf::skip_pre();
                continue;
            }
            bool tie, inexact;
            i128 q = ref_div(i128(a), i128(b), mode, tie, inexact);
            if (!Big(q).template fits_type<Res>()) {
                vf::skip_pre();
                continue;
            }
            Rep got{};
            vf::Outcome o = vf::run([&] { got = cnl::_impl::to_rep(XL(a) / XR(b)); });
            vf::validated();
            bool nontrivial = inexact;
            vf::counted(nontrivial);
            const char* quad = (a < 0) ? ((b < 0) ? "nn" : "np") : ((b < 0) ? "pn" : "pp");
            const char* cls = tie ? "tie" : (inexact ? "inexact" : "exact");
            if (vf::want_sample()) vf::sample(id() + " -> " + vf::to_s(got) + " expected " + vf::to_s(q));
            if (!o.ok()) {
                vf::outcome(o.str());
                vf::violation(std::string(o.str()) + "/" + quad + "/" + cls, id(), id() + ": expected " + vf::to_s(q) + ", got " + o.str());
                continue;
            }
            if (i128(got) != q) {
                vf::outcome("wrong_value");
                vf::violation(std::string("value/") + quad + "/" + cls, id(), id() + ": expected " + vf::to_s(q) + ", got " + vf::to_s(got));
                continue;
            }
            vf::outcome(tie ? "ok_tie" : (inexact ? (i128(a) / i128(b) == q ? "ok_inexact_trunc" : "ok_inexact_adjusted") : "ok_exact"));
            // compound form a /= b: the rounded quotient converted back to a's type
            if (Big(q).template fits_type<L>()) {
                L got3{};
                vf::Outcome o3 = vf::run([&] {
                    XL x(a);
                    x /= XR(b);
                    got3 = cnl::_impl::to_rep(x);
                });
                vf::validated();
                if (!o3.ok() || i128(got3) != q) {
                    vf::outcome(o3.ok() ? "wrong_value_div_assign" : o3.str());
                    vf::violation(std::string("div_assign/") + (o3.ok() ? "value" : o3.str()) + "/" + quad + "/" + cls, id(), id() + ": a /= b gives " + (o3.ok() ? vf::to_s(got3) : o3.str()) + ", expected " + vf::to_s(q));
                } else
                    vf::outcome("ok_div_assign");
            }
            // the internal entry point the operator dispatches to, called directly on the bare operands
            if constexpr (requires { cnl::_impl::divide<Tag, Tag, L, R>{}(a, b); }) {
                i128 got2 = 0;
                vf::Outcome o2 = vf::run([&] { got2 = i128(cnl::_impl::divide<Tag, Tag, L, R>{}(a, b)); });
                vf::validated();
                if (!o2.ok() || got2 != q) {
                    vf::outcome(o2.ok() ? "wrong_value_impl_divide" : o2.str());
                    vf::violation(std::string("impl_divide/") + (o2.ok() ? "value" : o2.str()) + "/" + quad + "/" + cls, id(), id() + ": _impl::divide gives " + (o2.ok() ? vf::to_s(got2) : o2.str()) + ", expected " + vf::to_s(q));
                } else
                    vf::outcome("ok_impl_divide");
            }
        }
    }
}

// every other operator under a rounding tag == the built-in operator
template<class L, class R, class Tag>
[[gnu::noinline]] void prog_ops(int fullbits)
{
    using XL = cnl::rounding_integer<L, Tag>;
    using XR = cnl::rounding_integer<R, Tag>;
    using Res = decltype(L{} + R{});
    bool full = vals::is_full<L>(fullbits) && vals::is_full<R>(fullbits);
    std::string name = std::string("ops<") + vf::tn<L>() + "," + vf::tn<R>() + "," + tag_info<Tag>::name + ">";
    if (!vf::begin(name, full)) return;
    auto const As = vals::space<L>(fullbits, 3);
    auto const Bs = vals::space<R>(fullbits, 3);
    constexpr int W = vals::bits_v<Res>;
    for (L a : As) {
        if (!vf::my_row()) continue;
        for (R b : Bs) {
            auto id = [&] { return vf::to_s(a) + "," + vf::to_s(b); };
            if (vf::replaying() && !vf::case_selected(id())) continue;
            Big A(a), B(b);
            bool opfit = A.template fits_type<Res>() && B.template fits_type<Res>();
            auto check = [&](const char* op, bool defined, auto&& cnl_f, auto&& ref_f) {
                if (!defined) {
                    vf::skip_pre();
                    return;
                }
                auto expect = ref_f();
                decltype(expect) got{};
                vf::Outcome o = vf::run([&] { got = static_cast<decltype(expect)>(cnl::_impl::to_rep(cnl_f())); });
                vf::validated();
                if (!o.ok()) {
                    vf::outcome(o.str());
                    vf::violation(std::string(op) + "/" + o.str(), id(), id() + " " + op + ": got " + o.str());
                } else if (got != expect) {
                    vf::outcome("wrong_value");
                    vf::violation(std::string(op) + "/value", id(), id() + " " + op + ": expected " + vf::to_s(expect) + " got " + vf::to_s(got));
                } else
                    vf::outcome(std::string("ok_") + op);
            };
            // built-in semantics: unsigned wraps, signed must not overflow
            auto fitsres = [&](Big const& v) { return !vals::is_signed_v<Res> || v.template fits_type<Res>(); };
            check("add", fitsres(Big(Res(a)) + Big(Res(b))), [&] { return XL(a) + XR(b); }, [&] { return Res(a + b); });
            check("sub", fitsres(Big(Res(a)) - Big(Res(b))), [&] { return XL(a) - XR(b); }, [&] { return Res(a - b); });
            check("mul", fitsres(Big(Res(a)) * Big(Res(b))), [&] { return XL(a) * XR(b); }, [&] { return Res(a * b); });
            bool divok = b != 0 && !(vals::is_signed_v<Res> && Res(a) == vals::min_v<Res>() && Res(b) == Res(-1));
            check("mod", divok, [&] { return XL(a) % XR(b); }, [&] { return Res(a % b); });
            check("and", true, [&] { return XL(a) & XR(b); }, [&] { return Res(a & b); });
            check("or", true, [&] { return XL(a) | XR(b); }, [&] { return Res(a | b); });
            check("xor", true, [&] { return XL(a) ^ XR(b); }, [&] { return Res(a ^ b); });
            using PL = decltype(+L{});
            constexpr int WL = vals::bits_v<PL>;
            bool shcount = Big(b) >= Big(0) && Big(b) < Big(WL);
            bool shl_ok = shcount && (!vals::is_signed_v<PL> || (a >= 0 && (Big(a).shl(shcount ? int(b) : 0)).template fits_type<PL>()));
            check("shl", shl_ok, [&] { return XL(a) << XR(b); }, [&] { return PL(PL(a) << b); });
            check("shr", shcount, [&] { return XL(a) >> XR(b); }, [&] { return PL(PL(a) >> b); });
            check("lt", true, [&] { return cnl::rounding_integer<int, Tag>((XL(a) < XR(b)) ? 1 : 0); }, [&] { return int(a < b); });
            check("eq", true, [&] { return cnl::rounding_integer<int, Tag>((XL(a) == XR(b)) ? 1 : 0); }, [&] { return int(a == b); });
            vf::counted(opfit && a != 0 && b != 0);
        }
        // unary
        {
            using PL = decltype(+L{});
            auto id = [&] { return vf::to_s(a); };
            if (vf::replaying() && !vf::case_selected(id())) continue;
            PL got{};
            if (!(vals::is_signed_v<PL> && PL(a) == vals::min_v<PL>())) {
                vf::Outcome o = vf::run([&] { got = cnl::_impl::to_rep(-XL(a)); });
                vf::validated();
                if (!o.ok() || got != PL(-a)) vf::violation("neg/" + o.str(), id(), id() + " unary-: expected " + vf::to_s(PL(-a)) + " got " + (o.ok() ? vf::to_s(got) : o.str()));
            }
            vf::Outcome o = vf::run([&] { got = cnl::_impl::to_rep(+XL(a)); });
            vf::validated();
            if (!o.ok() || got != PL(+a)) vf::violation("plus/" + o.str(), id(), id() + " unary+: got " + (o.ok() ? vf::to_s(got) : o.str()));
            o = vf::run([&] { got = cnl::_impl::to_rep(~XL(a)); });
            vf::validated();
            if (!o.ok() || got != PL(~a)) vf::violation("not/" + o.str(), id(), id() + " ~: got " + (o.ok() ? vf::to_s(got) : o.str()));
        }
    }
}

// rounding_integer over non-built-in reps (the rounding operator is generic): every operand pair
// in [lo,hi]^2, result read back through an explicit conversion
template<class Rep, class Tag>
[[gnu::noinline]] void prog_div_wrapped(const char* repname, long lo, long hi)
{
    using X = cnl::rounding_integer<Rep, Tag>;
    constexpr int mode = tag_info<Tag>::mode;
    if (!vf::begin(std::string("div_wrapped<") + repname + "," + tag_info<Tag>::name + ">", true)) return;
    for (long a = lo; a <= hi; ++a) {
        if (!vf::my_row()) continue;
        for (long b = lo; b <= hi; ++b) {
            auto id = [&] { return vf::to_s(a) + "/" + vf::to_s(b); };
            if (vf::replaying() && !vf::case_selected(id())) continue;
            if (b == 0) {
                vf::skip_pre();
                continue;
            }
            bool tie, inexact;
            i128 q = ref_div(a, b, mode, tie, inexact);
            long long got = 0;
            vf::Outcome o = vf::run([&] { got = static_cast<long long>(X(Rep(a)) / X(Rep(b))); });
            vf::validated();
            vf::counted(inexact);
            if (!o.ok() || got != (long long)q) {
                vf::outcome(o.ok() ? "wrong_value" : o.str());
                vf::violation(std::string(o.ok() ? "value" : o.str()) + (tie ? "/tie" : "/other"), id(), id() + ": expected " + vf::to_s(q) + " got " + (o.ok() ? vf::to_s(got) : o.str()));
            } else
                vf::outcome(tie ? "ok_tie" : (inexact ? "ok_inexact" : "ok_exact"));
        }
    }
}

// ---- one operand is a cnl::constant<N> (the type that carries it is chosen from N): both orders, every tag ----
template<class Rep, class Tag, long long N>
[[gnu::noinline]] void prog_div_constant(const char* repname)
{
    using X = cnl::rounding_integer<Rep, Tag>;
    using QF = decltype(X{} / cnl::constant<N>{});
    using QR = decltype(cnl::constant<N>{} / X{});
    constexpr int mode = tag_info<Tag>::mode;
    if (!vf::begin(std::string("div_constant<") + repname + "," + std::to_string(N) + "," + tag_info<Tag>::name + ">", false)) return;
    auto base = vals::lattice<Rep>(VF_TIER ? 1 : 3);
    auto const Ls = closure_for<Rep, long long>(N, base);
    auto fits = [](i128 q, size_t bytes) {
        i128 const lim = i128(1) << (8 * bytes - 1);
        return bytes >= 16 || (q >= -lim && q < lim);
    };
    for (Rep a : Ls) {
        if (!vf::my_row()) continue;
        for (int rev = 0; rev < 2; ++rev) {
            auto id = [&] { return rev ? std::to_string(N) + "c/" + vf::to_s(a) : vf::to_s(a) + "/" + std::to_string(N) + "c"; };
            if (vf::replaying() && !vf::case_selected(id())) continue;
            i128 const num = rev ? i128(N) : i128(a), den = rev ? i128(a) : i128(N);
            bool tie = false, inexact = false;
            if (den == 0) {
                vf::skip_pre();
                continue;
            }
            i128 const q = ref_div(num, den, mode, tie, inexact);
            if (!fits(q, rev ? sizeof(QR) : sizeof(QF))) {
                vf::skip_pre();  // the rounded quotient is not representable in the result type
                continue;
            }
            long long got = 0;
            vf::Outcome o = vf::run([&] {
                if (rev) got = static_cast<long long>(cnl::constant<N>{} / X{a});
                else got = static_cast<long long>(X{a} / cnl::constant<N>{});
            });
            vf::validated();
            vf::counted(inexact);
            if (!o.ok() || got != (long long)q) {
                vf::outcome(o.ok() ? "wrong_value" : o.str());
                vf::violation(std::string(o.ok() ? "value" : o.str()) + (rev ? "/constant_dividend" : "/constant_divisor") + (tie ? "/tie" : "/other"), id(), id() + ": expected " + vf::to_s(q) + " got " + (o.ok() ? vf::to_s(got) : o.str()));
            } else
                vf::outcome(tie ? "ok_tie" : (inexact ? "ok_inexact" : "ok_exact"));
        }
    }
}

template<class Tag>
void constant_group()
{
    prog_div_constant<i64, Tag, 3>("i64");
    prog_div_constant<i64, Tag, -7>("i64");
    prog_div_constant<i64, Tag, 2147483647LL>("i64");
    prog_div_constant<i64, Tag, 2147483648LL>("i64");
    prog_div_constant<i64, Tag, 4294967295LL>("i64");
    prog_div_constant<i64, Tag, 4294967296LL>("i64");
    prog_div_constant<i64, Tag, -2147483648LL>("i64");
    prog_div_constant<i64, Tag, -2147483649LL>("i64");
    prog_div_constant<i64, Tag, -4294967296LL>("i64");
    prog_div_constant<i32, Tag, 10>("i32");
    prog_div_constant<i32, Tag, 3000000000LL>("i32");
    prog_div_constant<i32, Tag, -2147483649LL>("i32");
    prog_div_constant<i16, Tag, 32768>("i16");
    prog_div_constant<i8, Tag, -129>("i8");
}

template<class Tag>
void tag_group()
{
    constant_group<Tag>();
    constexpr int FB = VF_TIER ? 16 : 8;
    // narrow operand types: complete enumeration
    prog_div<i8, i8, Tag>(FB);
    prog_div<u8, u8, Tag>(FB);
    prog_div<i8, u8, Tag>(FB);
    prog_div<u8, i8, Tag>(FB);
    prog_div<i16, i16, Tag>(FB);
    prog_div<u16, u16, Tag>(FB);
    prog_div<i16, u16, Tag>(FB);
    prog_div<u16, i16, Tag>(FB);
    prog_div<i8, i16, Tag>(FB);
    prog_div<u16, i8, Tag>(FB);
    // wide operand types: closure lattices
    prog_div<i32, i32, Tag>(FB);
    prog_div<u32, u32, Tag>(FB);
    prog_div<i64, i64, Tag>(FB);
    prog_div<u64, u64, Tag>(FB);
    prog_div<i32, i64, Tag>(FB);
    prog_div<i64, i32, Tag>(FB);
    prog_div<i32, u32, Tag>(FB);
    prog_div<u32, i32, Tag>(FB);
    prog_div<i64, u32, Tag>(FB);
    prog_div<u32, i64, Tag>(FB);
    prog_div<i64, u64, Tag>(FB);
    prog_div<u64, i64, Tag>(FB);
    prog_div<i8, i32, Tag>(FB);
    prog_div<i32, i8, Tag>(FB);
    prog_div<u8, i64, Tag>(FB);
    prog_div<i64, u16, Tag>(FB);
    prog_div<i32, i32, Tag, true>(FB);
    prog_div<i64, i32, Tag, true>(FB);
    prog_div<u32, u32, Tag, true>(FB);
    prog_div<i8, i8, Tag, true>(8);
    prog_div_wrapped<cnl::elastic_integer<7>, Tag>("elastic_integer<7>", -127, 127);
    prog_div_wrapped<cnl::elastic_integer<6, unsigned>, Tag>("elastic_integer<6,unsigned>", 0, 63);
    prog_div_wrapped<cnl::elastic_integer<20>, Tag>("elastic_integer<20>", -300, 300);
    prog_div_wrapped<cnl::wide_integer<100>, Tag>("wide_integer<100>", -200, 200);
    prog_div_wrapped<cnl::wide_integer<200, unsigned>, Tag>("wide_integer<200,unsigned>", 0, 300);
    // other operators
    prog_ops<i8, i8, Tag>(8);
    prog_ops<u8, u8, Tag>(8);
    prog_ops<i8, u8, Tag>(8);
    prog_ops<i16, i16, Tag>(8);
    prog_ops<i32, i32, Tag>(8);
    prog_ops<u32, u32, Tag>(8);
    prog_ops<i32, u32, Tag>(8);
    prog_ops<i64, i64, Tag>(8);
    prog_ops<u64, u64, Tag>(8);
    prog_ops<i64, i32, Tag>(8);
    prog_ops<u64, i64, Tag>(8);
}

#if VF_PART == 0
static void g0() { tag_group<cnl::native_rounding_tag>(); }
VF_GROUP(g0);
#elif VF_PART == 1
static void g1() { tag_group<cnl::nearest_rounding_tag>(); }
VF_GROUP(g1);
#elif VF_PART == 2
static void g2() { tag_group<cnl::tie_to_pos_inf_rounding_tag>(); }
VF_GROUP(g2);
#else
static void g3() { tag_group<cnl::neg_inf_rounding_tag>(); }
VF_GROUP(g3);
#endif

VF_MAIN()
