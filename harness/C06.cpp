// C06 / C07 — overflow-tagged arithmetic.
//   VF_PROP == 6: overflow handling is triggered iff the exact result is outside the result type,
//                 and is handled as the tag says (saturated / throwing / trapping).
//   VF_PROP == 7: totality — no UB trap, no internal-contract abort, crash or hang for any operand
//                 (zero divisors and negative shift counts excluded), additionally %, >>, ~, unary +.
// State space: (operator, L, R, a, b) with all three checked tags applied to every state.
// 8-bit operand pairs are enumerated completely; wider types over B0 closed under the pre-images of
// the result-type limits (limit -+ b, limit / b, limit >> s, each +-1).
// Oracle: exact integer arithmetic (Big) on the operand *values*; range of the result type.
#include "common.h"

#include <cnl/overflow_integer.h>
#include "cnlval.h"

#ifndef VF_PROP
#define VF_PROP 6
#endif

namespace ci = cnl::_impl;
using cnl::saturated_overflow_tag;
using cnl::_impl::throwing_overflow_tag;
using cnl::trapping_overflow_tag;

enum { E_VALUE = 0, E_POS = 1, E_NEG = 2 };
static const char* ename(int e) { return e == E_VALUE ? "value" : e == E_POS ? "pos" : "neg"; }

template<class Res>
int classify(Big const& exact)
{
    if (exact > Big(vals::max_v<Res>())) return E_POS;
    if (exact < Big(vals::min_v<Res>())) return E_NEG;
    return E_VALUE;
}

// what one tagged evaluation did
struct Got {
    int kind;  // E_VALUE / E_POS / E_NEG, or -1 = something else
    std::string other;
};

template<class Res>
Got interpret(vf::Outcome const& o)
{
    if (o.ok()) return {E_VALUE, ""};
    if (o.kind == vf::THROW_OVERFLOW || o.kind == vf::ABORT_HOOK) {
        if (o.msg == "positive overflow") return {E_POS, ""};
        if (o.msg == "negative overflow") return {E_NEG, ""};
    }
    return {-1, o.str()};
}

// check one state under the three tags. fs/ft/fr evaluate the CNL expression and store into `got`.
template<class Res, class FS, class FT, class FR>
void verify3(const char* op, int expect, Big const& exact, const char* region, std::string const& id, FS&& fs, FT&& ft, FR&& fr)
{
    Res got{};
    auto one = [&](const char* tag, int tagkind, auto&& f) {
        got = Res{};
        vf::Outcome o = vf::run([&] { got = f(); });
        vf::validated();
        Got g = interpret<Res>(o);
#if VF_PROP == 7
        bool intended = o.ok() || ((o.kind == vf::THROW_OVERFLOW && tagkind == 1) || (o.kind == vf::ABORT_HOOK && tagkind == 2)) && g.kind >= 0;
        if (!intended) {
            vf::outcome(o.str());
            vf::violation(std::string(op) + "/" + tag + "/" + o.str() + "/" + region, id, id + " " + op + "<" + tag + ">: " + o.str() + " (exact result " + exact.str() + ")");
        } else
            vf::outcome(o.ok() ? "defined_value" : "defined_signal");
        (void)expect;
#else
        // saturated never signals; throwing must throw; trapping must abort through the hook
        int seen = g.kind;
        std::string seen_s = g.kind < 0 ? g.other : ename(g.kind);
        bool okay;
        if (tagkind == 0) {
            Big want = expect == E_VALUE ? exact : (expect == E_POS ? Big(vals::max_v<Res>()) : Big(vals::min_v<Res>()));
            okay = o.ok() && Big(got) == want;
            if (o.ok() && !okay) seen_s = expect == E_VALUE ? "wrong_value" : (Big(got) == Big(vals::max_v<Res>()) ? "clamped_max" : (Big(got) == Big(vals::min_v<Res>()) ? "clamped_min" : "unclamped"));
        } else {
            bool right_channel = o.ok() || (tagkind == 1 ? o.kind == vf::THROW_OVERFLOW : o.kind == vf::ABORT_HOOK);
            okay = right_channel && seen == expect && (expect != E_VALUE || Big(got) == exact);
            if (o.ok() && expect == E_VALUE && !okay) seen_s = "wrong_value";
            if (o.ok() && expect != E_VALUE) seen_s = "no_signal";
        }
        if (!okay) {
            vf::outcome(std::string("bad_") + seen_s);
            vf::violation(std::string(op) + "/" + tag + "/expected=" + ename(expect) + "/got=" + seen_s + "/" + region, id,
                          id + " " + op + "<" + tag + ">: exact " + exact.str() + " expected " + ename(expect) + ", got " + (o.ok() ? vf::to_s(got) : o.str()));
        } else
            vf::outcome(std::string("ok_") + tag + "_" + ename(expect));
#endif
    };
    one("saturated", 0, fs);
    one("throwing", 1, ft);
    one("trapping", 2, fr);
}

template<class Op>
struct opi;
template<>
struct opi<ci::add_op> {
    static constexpr const char* name = "add";
    static constexpr int code = 0;
};
template<>
struct opi<ci::subtract_op> {
    static constexpr const char* name = "sub";
    static constexpr int code = 1;
};
template<>
struct opi<ci::multiply_op> {
    static constexpr const char* name = "mul";
    static constexpr int code = 2;
};
template<>
struct opi<ci::divide_op> {
    static constexpr const char* name = "div";
    static constexpr int code = 3;
};
template<>
struct opi<ci::modulo_op> {
    static constexpr const char* name = "mod";
    static constexpr int code = 4;
};
template<>
struct opi<ci::shift_left_op> {
    static constexpr const char* name = "shl";
    static constexpr int code = 5;
};
template<>
struct opi<ci::shift_right_op> {
    static constexpr const char* name = "shr";
    static constexpr int code = 6;
};

// the value spaces of one (op, L, R) program
template<class Op, class L, class R, class Res>
std::vector<L> rows_for(R b, std::vector<L> const& base)
{
    std::vector<L> v = base;
    Big B(b);
    constexpr int code = opi<Op>::code;
    for (Big lim : {Big(vals::max_v<Res>()), Big(vals::min_v<Res>())}) {
        for (int d = -1; d <= 1; ++d) {
            if (code == 0) vals::add_if_fits(v, lim - B + Big(d));
            if (code == 1) vals::add_if_fits(v, lim + B + Big(d));
            if ((code == 2 || code == 3 || code == 4) && !B.is_zero()) {
                vals::add_if_fits(v, lim / B + Big(d));
                vals::add_if_fits(v, -(lim / B) + Big(d));
            }
            if ((code == 5 || code == 6) && B >= Big(0) && B < Big(130)) {
                vals::add_if_fits(v, lim.shr_trunc(B.template to<int>()) + Big(d));
                vals::add_if_fits(v, -lim.shr_trunc(B.template to<int>()) + Big(d));
            }
        }
    }
    vals::sort_unique(v);
    return v;
}

template<class R>
std::vector<R> shift_counts()
{
    std::vector<R> v;
    for (int s = 0; s <= 130; ++s)
        if (s <= 66 || s >= 126) vals::add_if_fits(v, Big(s));
    for (R x : vals::lattice<R>(8))
        if (Big(x) > Big(130)) v.push_back(x);
    vals::sort_unique(v);
    return v;
}

template<class Op, class L, class R>
[[gnu::noinline]] void prog_bin()
{
    using Res = ci::op_result<Op, L, R>;
    constexpr int code = opi<Op>::code;
    constexpr bool is_shift = code == 5 || code == 6;
    constexpr int FB = 8;
    constexpr int step = VF_TIER ? 1 : 3;
    bool full = vals::is_full<L>(FB) && vals::is_full<R>(FB) && !is_shift;
    std::string name = std::string(opi<Op>::name) + "<" + vf::tn<L>() + "," + vf::tn<R>() + ">";
    if (!vf::begin(name, full)) return;
    // result type must be what the built-in operator gives
    {
        using BI = std::conditional_t<is_shift, decltype(std::declval<L>() << std::declval<R>()), decltype(std::declval<L>() + std::declval<R>())>;
        if (!std::is_same_v<Res, BI>) vf::violation("result_type", "-", name + ": result type " + vf::tn<Res>() + " differs from built-in " + vf::tn<BI>());
    }
    auto const A0 = vals::space<L>(FB, step);
    auto const Bs = is_shift ? shift_counts<R>() : vals::space<R>(FB, step);
    for (R b : Bs) {
        if (!vf::my_row()) continue;
        std::vector<L> const Ac = full ? std::vector<L>() : rows_for<Op, L, R, Res>(b, A0);
        std::vector<L> const& As = full ? A0 : Ac;
        Big B(b);
        for (L a : As) {
            auto id = [&] { return vf::to_s(a) + "," + vf::to_s(b); };
            if (vf::replaying() && !vf::case_selected(id())) continue;
            Big A(a);
            Big exact;
            int expect;
            if (code == 3 || code == 4) {
                if (b == 0) {
                    vf::skip_pre();
                    continue;
                }
                exact = code == 3 ? A / B : A % B;
                expect = classify<Res>(exact);
            } else if (is_shift) {
                if (B < Big(0)) {
                    vf::skip_pre();
                    continue;
                }
                if (code == 6) {
                    // arithmetic right shift == floor(a / 2^s)
                    exact = B >= Big(200) ? (A.neg ? Big(-1) : Big(0)) : ref::floor_div(A, Big::pow2(B.template to<int>()));
                    expect = classify<Res>(exact);
                } else if (B >= Big(200)) {
                    exact = A;  // only its sign matters
                    expect = A.is_zero() ? E_VALUE : (A.neg ? E_NEG : E_POS);
                } else {
                    exact = A.shl(B.template to<int>());
                    expect = classify<Res>(exact);
                }
            } else {
                exact = code == 0 ? A + B : (code == 1 ? A - B : A * B);
                expect = classify<Res>(exact);
            }
            bool mixed_neg = !vals::is_signed_v<Res> && (A.neg || B.neg);
            const char* region = mixed_neg ? "negative_operand_unsigned_result" : (expect == E_VALUE ? "in_range" : "out_of_range");
            if (is_shift && B >= Big(vals::bits_v<Res>)) region = (code == 5 ? (A.is_zero() ? "shift_count_ge_width/lhs_zero" : "shift_count_ge_width/lhs_nonzero") : "shift_count_ge_width");
            if (code == 4 && vals::is_signed_v<Res> && B == Big(-1) && A == Big(vals::min_v<Res>())) region = "most_negative_mod_minus_one";
            // non-trivial: out of range, or within 2 of a limit of the result type
            bool near = expect != E_VALUE || (Big(vals::max_v<Res>()) - exact) <= Big(2) || (exact - Big(vals::min_v<Res>())) <= Big(2);
            vf::counted(near || mixed_neg);
            if (vf::want_sample()) vf::sample(name + " " + id() + " exact " + exact.str() + " -> " + ename(expect));
            verify3<Res>(
                    opi<Op>::name, expect, exact, region, id(), [&] { return ci::operate<Op, saturated_overflow_tag>{}(a, b); },
                    [&] { return ci::operate<Op, throwing_overflow_tag>{}(a, b); }, [&] { return ci::operate<Op, trapping_overflow_tag>{}(a, b); });
        }
    }
}

template<class UOp, class T>
[[gnu::noinline]] void prog_unary(const char* opname)
{
    using Res = ci::op_result<UOp, T>;
    std::string name = std::string(opname) + "<" + vf::tn<T>() + ">";
    bool full = sizeof(T) <= 2;
    if (!vf::begin(name, full)) return;
    auto const As = vals::space<T>(16, 1);
    for (T a : As) {
        if (!vf::my_row()) continue;
        auto id = [&] { return vf::to_s(a); };
        if (vf::replaying() && !vf::case_selected(id())) continue;
        Big A(a);
        Big exact = std::is_same_v<UOp, ci::minus_op> ? -A : (std::is_same_v<UOp, ci::plus_op> ? A : -A - Big(1));
        if (std::is_same_v<UOp, ci::bitwise_not_op> && !vals::is_signed_v<Res>) exact = ref::wrap_twos(exact, vals::bits_v<Res>, false);
        int expect = classify<Res>(exact);
        vf::counted(expect != E_VALUE || a == vals::min_v<T>() || a == vals::max_v<T>());
        if (vf::want_sample()) vf::sample(name + " " + id() + " -> " + ename(expect));
        verify3<Res>(
                opname, expect, exact, expect == E_VALUE ? "in_range" : "out_of_range", id(), [&] { return ci::operate<UOp, saturated_overflow_tag>{}(a); },
                [&] { return ci::operate<UOp, throwing_overflow_tag>{}(a); }, [&] { return ci::operate<UOp, trapping_overflow_tag>{}(a); });
    }
}

// ---- conversions ---------------------------------------------------------------------------
template<class Src>
std::vector<Src> float_sources_for(Big const& lim)
{
    std::vector<Src> v;
    Src x = Src(0);
    // nearest Src to lim, then neighbours by nextafter, then +-0.5 / +-1 steps
    {
        bool ov;
        ref::Rat r = ref::round_to_format<Src>(Rat(lim), ov);
        // rebuild the Src value from the rational: r = n / 2^k
        long double acc = 0;
        Big n = r.n.abs();
        for (int i = n.bit_length() - 1; i >= 0; --i) acc = acc * 2 + (n.bit(i) ? 1 : 0);
        int k = r.d.bit_length() - 1;
        acc = std::ldexp(acc, -k);
        x = Src(r.n.neg ? -acc : acc);
    }
    Src lo = x, hi = x;
    v.push_back(x);
    for (int i = 0; i < 3; ++i) {
        lo = std::nextafter(lo, -std::numeric_limits<Src>::infinity());
        hi = std::nextafter(hi, std::numeric_limits<Src>::infinity());
        v.push_back(lo);
        v.push_back(hi);
    }
    for (Src d : {Src(0.25), Src(0.5), Src(0.75), Src(1), Src(1.5), Src(2)}) {
        v.push_back(x + d);
        v.push_back(x - d);
    }
    return v;
}

template<class Src, class Dest>
[[gnu::noinline]] void prog_convert()
{
    std::string name = "convert<" + vf::tn<Dest>() + "<-" + vf::tn<Src>() + ">";
    constexpr bool fsrc = std::is_floating_point_v<Src>;
    bool full = !fsrc && sizeof(Src) <= 2;
    if (!vf::begin(name, full)) return;
    std::vector<Src> S;
    if constexpr (fsrc) {
        for (Big lim : {Big(vals::max_v<Dest>()), Big(vals::min_v<Dest>()), Big(0), Big(1), Big(-1), Big(vals::max_v<Dest>()).shr_trunc(1)})
            for (Src s : float_sources_for<Src>(lim)) S.push_back(s);
        for (Src s : {Src(0), Src(-0.0), Src(1e30), Src(-1e30), std::numeric_limits<Src>::max(), std::numeric_limits<Src>::lowest(), std::numeric_limits<Src>::min(),
                      std::numeric_limits<Src>::denorm_min(), Src(1e-30), Src(-1e-30), Src(123.456), Src(-123.456)})
            S.push_back(s);
        std::sort(S.begin(), S.end());
        S.erase(std::unique(S.begin(), S.end()), S.end());
    } else {
        S = vals::space<Src>(16, 1);
        for (Big lim : {Big(vals::max_v<Dest>()), Big(vals::min_v<Dest>())})
            for (int d = -2; d <= 2; ++d) vals::add_if_fits(S, lim + Big(d));
        vals::sort_unique(S);
    }
    for (Src s : S) {
        if (!vf::my_row()) continue;
        auto id = [&] { return vf::to_s(s); };
        if (vf::replaying() && !vf::case_selected(id())) continue;
        Big exact;
        if constexpr (fsrc) {
            if (!std::isfinite(s)) {
                vf::skip_pre();
                continue;
            }
            // magnitudes beyond the reference's capacity are replaced by stand-ins with the same
            // truncation class: |s| >= 2^200 by +-2^200, 0 < |s| < 2^-200 by +-2^-200
            Rat r = std::fabs(s) >= Src(0x1p200) ? Rat(s < 0 ? -Big::pow2(200) : Big::pow2(200)) : (s == 0 ? Rat(Big(0)) : (std::fabs(s) < Src(0x1p-200) ? Rat(Big(s < 0 ? -1 : 1), Big::pow2(200)) : ref::to_rat(s)));
            exact = r.trunc();
            // band where the source is outside [lowest,max] but its truncation is inside: the
            // property's "exact result" is ambiguous there (is it s or trunc(s)?) — not judged
            bool src_out = r > Rat(Big(vals::max_v<Dest>())) || r < Rat(Big(vals::min_v<Dest>()));
            if (src_out && classify<Dest>(exact) == E_VALUE) {
                vf::skip_pre();
                continue;
            }
        } else
            exact = Big(s);
        int expect = classify<Dest>(exact);
        bool near = expect != E_VALUE || (Big(vals::max_v<Dest>()) - exact) <= Big(2) || (exact - Big(vals::min_v<Dest>())) <= Big(2);
        vf::counted(near);
        if (vf::want_sample()) vf::sample(name + " " + id() + " -> " + ename(expect));
        verify3<Dest>(
                "convert", expect, exact, fsrc ? (expect == E_VALUE ? "float_in_range" : "float_out_of_range") : (expect == E_VALUE ? "in_range" : "out_of_range"), id(),
                [&] { return cnl::convert<saturated_overflow_tag, Dest>{}(s); }, [&] { return cnl::convert<throwing_overflow_tag, Dest>{}(s); },
                [&] { return cnl::convert<trapping_overflow_tag, Dest>{}(s); });
    }
}

// ---- overflow_integer: operators, compound assignment (two-step semantics), ++/-- -----------
template<class L, class R>
[[gnu::noinline]] void prog_wrapper()
{
    using Res = decltype(L{} + R{});
    std::string name = "overflow_integer<" + vf::tn<L>() + "," + vf::tn<R>() + ">";
    constexpr int FB = 8;
    bool full = vals::is_full<L>(FB) && vals::is_full<R>(FB);
    if (!vf::begin(name, full)) return;
    auto const A0 = vals::space<L>(FB, VF_TIER ? 1 : 3);
    auto const Bs = vals::space<R>(FB, VF_TIER ? 1 : 3);
    for (R b : Bs) {
        if (!vf::my_row()) continue;
        std::vector<L> As = A0;
        if (!full) {
            for (auto v : rows_for<ci::add_op, L, R, L>(b, {})) As.push_back(v);
            for (auto v : rows_for<ci::subtract_op, L, R, L>(b, {})) As.push_back(v);
            for (auto v : rows_for<ci::multiply_op, L, R, L>(b, {})) As.push_back(v);
            for (auto v : rows_for<ci::add_op, L, R, Res>(b, {})) As.push_back(v);
            for (auto v : rows_for<ci::multiply_op, L, R, Res>(b, {})) As.push_back(v);
            vals::sort_unique(As);
        }
        Big B(b);
        for (L a : As) {
            auto id = [&] { return vf::to_s(a) + "," + vf::to_s(b); };
            if (vf::replaying() && !vf::case_selected(id())) continue;
            Big A(a);
            bool mixed_neg = !vals::is_signed_v<Res> && (A.neg || B.neg);
            auto two_step = [&](const char* op, Big const& exact, auto&& fs, auto&& ft, auto&& fr) {
                // a op= b  ==  L(a op b): the operator result is range-checked in Res, then in L
                int e1 = classify<Res>(exact);
                Big t = e1 == E_VALUE ? exact : (e1 == E_POS ? Big(vals::max_v<Res>()) : Big(vals::min_v<Res>()));
                int e2 = classify<L>(t);
                int expect = e1 != E_VALUE ? e1 : e2;
                Big want = e2 == E_VALUE ? t : (e2 == E_POS ? Big(vals::max_v<L>()) : Big(vals::min_v<L>()));
                // saturated: value is `want`; throwing/trapping: first failing step signals
                const char* region = mixed_neg ? "negative_operand_unsigned_result" : (expect == E_VALUE ? "in_range" : "out_of_range");
                // verify3 computes the saturated expectation from `expect` and the limits of its Res
                // parameter; passing L as that parameter and `want` as exact value covers both steps
                // except when step 1 saturates in Res to a value that is in range of L:
                if (e1 != E_VALUE && e2 == E_VALUE) {
                    L got{};
                    vf::Outcome o = vf::run([&] { got = fs(); });
                    vf::validated();
#if VF_PROP == 7
                    if (!o.ok()) vf::violation(std::string(op) + "/saturated/" + o.str() + "/" + region, id(), id() + " " + op + ": " + o.str());
#else
                    if (!o.ok() || Big(got) != want)
                        vf::violation(std::string(op) + "/saturated/expected=two_step_clamp/got=" + (o.ok() ? "wrong_value" : o.str()) + "/" + region, id(),
                                      id() + " " + op + ": expected " + want.str() + " got " + (o.ok() ? vf::to_s(got) : o.str()));
                    else
                        vf::outcome("ok_two_step_clamp");
#endif
                    return;
                }
                verify3<L>(op, expect, want, region, id(), fs, ft, fr);
            };
            using XS = cnl::overflow_integer<L, saturated_overflow_tag>;
            using XT = cnl::overflow_integer<L, throwing_overflow_tag>;
            using XR = cnl::overflow_integer<L, trapping_overflow_tag>;
            using YS = cnl::overflow_integer<R, saturated_overflow_tag>;
            using YT = cnl::overflow_integer<R, throwing_overflow_tag>;
            using YR = cnl::overflow_integer<R, trapping_overflow_tag>;
#define VF_COMPOUND(OPNAME, OP, EXACT) \
    two_step( \
            OPNAME, EXACT, \
            [&] { XS x(a); x OP YS(b); return ci::to_rep(x); }, [&] { XT x(a); x OP YT(b); return ci::to_rep(x); }, [&] { XR x(a); x OP YR(b); return ci::to_rep(x); })
            VF_COMPOUND("add_assign", +=, A + B);
            VF_COMPOUND("sub_assign", -=, A - B);
            VF_COMPOUND("mul_assign", *=, A * B);
            if (b != 0) VF_COMPOUND("div_assign", /=, A / B);
#undef VF_COMPOUND
            // binary operator on wrappers == tagged operator on reps
            {
                Big exact = A + B;
                int expect = classify<Res>(exact);
                verify3<Res>(
                        "wrapper_add", expect, exact, mixed_neg ? "negative_operand_unsigned_result" : (expect == E_VALUE ? "in_range" : "out_of_range"), id(),
                        [&] { return ci::to_rep(XS(a) + YS(b)); }, [&] { return ci::to_rep(XT(a) + YT(b)); }, [&] { return ci::to_rep(XR(a) + YR(b)); });
                exact = A * B;
                expect = classify<Res>(exact);
                verify3<Res>(
                        "wrapper_mul", expect, exact, mixed_neg ? "negative_operand_unsigned_result" : (expect == E_VALUE ? "in_range" : "out_of_range"), id(),
                        [&] { return ci::to_rep(XS(a) * YS(b)); }, [&] { return ci::to_rep(XT(a) * YT(b)); }, [&] { return ci::to_rep(XR(a) * YR(b)); });
            }
            // left shift with a WRAPPED count (overflow_integer << overflow_integer, << rounding_integer): the left
            // operand's tag must still decide
            if (!(B < Big(0))) {
                using ResSh = decltype(L{} << R{});
                Big exact;
                int expect;
                if (B >= Big(200)) {
                    exact = A;  // only its sign matters
                    expect = A.is_zero() ? E_VALUE : (A.neg ? E_NEG : E_POS);
                } else {
                    exact = A.shl(B.template to<int>());
                    expect = classify<ResSh>(exact);
                }
                const char* region = expect == E_VALUE ? "in_range" : "out_of_range";
                if (B >= Big(vals::bits_v<ResSh>)) region = A.is_zero() ? "shift_count_ge_width/lhs_zero" : "shift_count_ge_width/lhs_nonzero";
                verify3<ResSh>(
                        "wrapper_shl", expect, exact, region, id(), [&] { return ci::to_rep(XS(a) << YS(b)); }, [&] { return ci::to_rep(XT(a) << YT(b)); },
                        [&] { return ci::to_rep(XR(a) << YR(b)); });
                // ... and with a BARE built-in count of type R (its full value, not a narrowed one, must be judged)
                verify3<ResSh>(
                        "wrapper_shl_builtin_count", expect, exact, region, id(), [&] { return ci::to_rep(XS(a) << b); }, [&] { return ci::to_rep(XT(a) << b); },
                        [&] { return ci::to_rep(XR(a) << b); });
                using RC = cnl::rounding_integer<R, cnl::native_rounding_tag>;
                verify3<ResSh>(
                        "wrapper_shl_rounding_count", expect, exact, region, id(), [&] { return ci::to_rep(XS(a) << RC(b)); }, [&] { return ci::to_rep(XT(a) << RC(b)); },
                        [&] { return ci::to_rep(XR(a) << RC(b)); });
            } else
                vf::skip_pre();
            vf::counted(true);
        }
    }
    // ++ / -- on every value of L (lattice for wide L)
    for (L a : vals::space<L>(16, 1)) {
        if (!vf::my_row()) continue;
        auto id = [&] { return vf::to_s(a); };
        if (vf::replaying() && !vf::case_selected(id())) continue;
        using XS = cnl::overflow_integer<L, saturated_overflow_tag>;
        using XT = cnl::overflow_integer<L, throwing_overflow_tag>;
        using XR = cnl::overflow_integer<L, trapping_overflow_tag>;
        Big A(a);
        using P = decltype(L{} + 1);
        auto inc = [&](const char* op, Big const& exact, auto&& fs, auto&& ft, auto&& fr) {
            int e1 = classify<P>(exact);
            int expect = e1 != E_VALUE ? e1 : classify<L>(exact);
            verify3<L>(op, expect, exact, expect == E_VALUE ? "in_range" : "out_of_range", id(), fs, ft, fr);
        };
        inc(
                "pre_inc", A + Big(1), [&] { XS x(a); ++x; return ci::to_rep(x); }, [&] { XT x(a); ++x; return ci::to_rep(x); }, [&] { XR x(a); ++x; return ci::to_rep(x); });
        inc(
                "pre_dec", A - Big(1), [&] { XS x(a); --x; return ci::to_rep(x); }, [&] { XT x(a); --x; return ci::to_rep(x); }, [&] { XR x(a); --x; return ci::to_rep(x); });
        inc(
                "post_inc", A + Big(1), [&] { XS x(a); x++; return ci::to_rep(x); }, [&] { XT x(a); x++; return ci::to_rep(x); }, [&] { XR x(a); x++; return ci::to_rep(x); });
        inc(
                "post_dec", A - Big(1), [&] { XS x(a); x--; return ci::to_rep(x); }, [&] { XT x(a); x--; return ci::to_rep(x); }, [&] { XR x(a); x--; return ci::to_rep(x); });
        // conversion of the wrapper to a built-in type (wrapper::operator S): checked like convert<Tag, S> of the rep
        auto to_builtin = [&](auto proto, const char* dn) {
            using Dn = decltype(proto);
            int expect = classify<Dn>(A);
            verify3<Dn>(
                    (std::string("wrapper_to_builtin<") + dn + ">").c_str(), expect, A, expect == E_VALUE ? "in_range" : "out_of_range", id(), [&] { return static_cast<Dn>(XS(a)); },
                    [&] { return static_cast<Dn>(XT(a)); }, [&] { return static_cast<Dn>(XR(a)); });
        };
        to_builtin(i8{}, "i8");
        to_builtin(u8{}, "u8");
        to_builtin(u32{}, "u32");
        to_builtin(i64{}, "i64");
        vf::counted(a == vals::max_v<L>() || a == vals::min_v<L>());
    }
}

// ---- instantiation matrix ------------------------------------------------------------------
template<class L, class R>
void ops_for()
{
    prog_bin<ci::add_op, L, R>();
    prog_bin<ci::subtract_op, L, R>();
    prog_bin<ci::multiply_op, L, R>();
    prog_bin<ci::divide_op, L, R>();
    prog_bin<ci::shift_left_op, L, R>();
#if VF_PROP == 7
    prog_bin<ci::modulo_op, L, R>();
    prog_bin<ci::shift_right_op, L, R>();
#endif
}
template<class L>
void all_rhs()
{
    ops_for<L, i8>();
    ops_for<L, u8>();
    ops_for<L, i16>();
    ops_for<L, u16>();
    ops_for<L, i32>();
    ops_for<L, u32>();
    ops_for<L, i64>();
    ops_for<L, u64>();
    prog_unary<ci::minus_op, L>("minus");
#if VF_PROP == 7
    prog_unary<ci::plus_op, L>("plus");
    prog_unary<ci::bitwise_not_op, L>("bitwise_not");
#endif
}
template<class D>
void conv_to()
{
    prog_convert<i8, D>();
    prog_convert<u8, D>();
    prog_convert<i16, D>();
    prog_convert<u16, D>();
    prog_convert<i32, D>();
    prog_convert<u32, D>();
    prog_convert<i64, D>();
    prog_convert<u64, D>();
    prog_convert<i128, D>();
    prog_convert<u128, D>();
    prog_convert<float, D>();
    prog_convert<double, D>();
    prog_convert<long double, D>();
}

// ---- overflow_integer over CLASS-type representations that have a most negative number ------------------
// (rounding_integer<int>, wide_integer<31,int>: the predicates must treat them like the built-in they hold)
template<class Rep>
[[gnu::noinline]] void prog_class_rep(const char* repname, bool with_div)
{
    std::string name = std::string("overflow_integer_over<") + repname + ">";
    if (!vf::begin(name, false)) return;
    auto const As = cv::space<Rep>(8, VF_TIER ? 1 : 3);
    Big const lo = cv::lowest_of<Rep>();
    using XS = cnl::overflow_integer<Rep, saturated_overflow_tag>;
    using XT = cnl::overflow_integer<Rep, throwing_overflow_tag>;
    using XR = cnl::overflow_integer<Rep, trapping_overflow_tag>;
    auto mk = [](auto tagged, Big const& v) { return decltype(tagged)(cv::make_int<Rep>(v)); };
    auto check = [&](const char* op, Big const& exact, std::string const& id, const char* region, auto&& f) {
        // f(tagged zero of the wanted tag) evaluates the expression; the range judged is that of its result type
        // (elastic representations grow, rounding_integer<int8_t> promotes)
        auto one = [&](const char* tag, int tagkind, auto proto) {
            using TR = decltype(f(proto));
            using RR = cnl::_impl::rep_of_t<TR>;
            Big const lo = cv::lowest_of<RR>(), hi = cv::max_of<RR>();
            int expect = exact > hi ? E_POS : (exact < lo ? E_NEG : E_VALUE);
            Big got;
            vf::Outcome o = vf::run([&] { got = cv::int_value(f(proto)); });
            vf::validated();
            Got g = interpret<int>(o);
#if VF_PROP == 7
            bool intended = o.ok() || (((o.kind == vf::THROW_OVERFLOW && tagkind == 1) || (o.kind == vf::ABORT_HOOK && tagkind == 2)) && g.kind >= 0);
            if (!intended) {
                vf::outcome(o.str());
                vf::violation(std::string(op) + "/" + tag + "/" + o.str() + "/" + region, id, id + " " + op + "<" + tag + ">: " + o.str() + " (exact result " + exact.str() + ")");
            } else
                vf::outcome(o.ok() ? "defined_value" : "defined_signal");
            (void)expect;
#else
            std::string seen_s = g.kind < 0 ? g.other : ename(g.kind);
            bool okay;
            if (tagkind == 0) {
                Big want = expect == E_VALUE ? exact : (expect == E_POS ? hi : lo);
                okay = o.ok() && got == want;
                if (o.ok() && !okay) seen_s = expect == E_VALUE ? "wrong_value" : (got == hi ? "clamped_max" : (got == lo ? "clamped_min" : "unclamped"));
            } else {
                bool right_channel = o.ok() || (tagkind == 1 ? o.kind == vf::THROW_OVERFLOW : o.kind == vf::ABORT_HOOK);
                okay = right_channel && g.kind == expect && (expect != E_VALUE || got == exact);
                if (o.ok() && expect == E_VALUE && !okay) seen_s = "wrong_value";
                if (o.ok() && expect != E_VALUE) seen_s = "no_signal";
            }
            if (!okay) {
                vf::outcome(std::string("bad_") + seen_s);
                vf::violation(std::string(op) + "/" + tag + "/expected=" + ename(expect) + "/got=" + seen_s + "/" + region, id,
                              id + " " + op + "<" + tag + ">: exact " + exact.str() + " expected " + ename(expect) + ", got " + (o.ok() ? got.str() : o.str()));
            } else
                vf::outcome(std::string("ok_") + tag + "_" + ename(expect));
#endif
        };
        one("saturated", 0, XS{});
        one("throwing", 1, XT{});
        one("trapping", 2, XR{});
    };
    for (auto const& a : As) {
        if (!vf::my_row()) continue;
        {
            std::string id = a.str();
            if (!(vf::replaying() && !vf::case_selected(id))) {
                vf::counted(true);
                check("minus", -a, id, a == lo ? "most_negative_operand" : "other", [&](auto proto) { return -mk(proto, a); });
            }
        }
        for (auto const& b : As) {
            std::string id = a.str() + "," + b.str();
            if (vf::replaying() && !vf::case_selected(id)) continue;
            vf::counted(true);
            const char* region = (a == lo || b == lo) ? "most_negative_operand" : "other";
            check("add", a + b, id, region, [&](auto proto) { return mk(proto, a) + mk(proto, b); });
            check("sub", a - b, id, region, [&](auto proto) { return mk(proto, a) - mk(proto, b); });
            check("mul", a * b, id, region, [&](auto proto) { return mk(proto, a) * mk(proto, b); });
            if (with_div && !b.is_zero()) check("div", a / b, id, region, [&](auto proto) { return mk(proto, a) / mk(proto, b); });
        }
    }
}

static void group()
{
#if VF_PART == 0
    all_rhs<i8>();
#elif VF_PART == 1
    all_rhs<u8>();
#elif VF_PART == 2
    all_rhs<i16>();
#elif VF_PART == 3
    all_rhs<u16>();
#elif VF_PART == 4
    all_rhs<i32>();
#elif VF_PART == 5
    all_rhs<u32>();
#elif VF_PART == 6
    all_rhs<i64>();
#elif VF_PART == 7
    all_rhs<u64>();
#elif VF_PART == 8
    ops_for<i128, i128>();
    ops_for<u128, u128>();
    ops_for<i128, u64>();
    ops_for<u64, i128>();
    ops_for<i128, u128>();
    ops_for<u128, i32>();
    prog_unary<ci::minus_op, i128>("minus");
    prog_unary<ci::minus_op, u128>("minus");
#elif VF_PART == 13
    // integer types that are distinct from the fixed-width aliases although they have the same width
    // (long vs long long), and the character types
    using ll = long long;
    using ull = unsigned long long;
    ops_for<i64, ll>();
    ops_for<ll, i64>();
    ops_for<ll, ll>();
    ops_for<i32, ll>();
    ops_for<ull, i64>();
    ops_for<u64, ull>();
    ops_for<ll, u32>();
    ops_for<wchar_t, i32>();
    ops_for<char16_t, char16_t>();
    ops_for<char32_t, i32>();
    ops_for<char16_t, u16>();
    prog_unary<ci::minus_op, ll>("minus");
    prog_unary<ci::minus_op, wchar_t>("minus");
    prog_unary<ci::minus_op, char16_t>("minus");
#elif VF_PART == 14
    prog_class_rep<cnl::rounding_integer<int, cnl::native_rounding_tag>>("rounding_integer<int,native>", true);
    prog_class_rep<cnl::rounding_integer<long long, cnl::native_rounding_tag>>("rounding_integer<long long,native>", true);
    prog_class_rep<cnl::rounding_integer<int>>("rounding_integer<int,nearest>", false);
    prog_class_rep<cnl::rounding_integer<i8, cnl::native_rounding_tag>>("rounding_integer<int8,native>", true);
    prog_class_rep<cnl::wide_integer<31, int>>("wide_integer<31,int>", true);
    prog_class_rep<cnl::elastic_integer<31>>("elastic_integer<31>", true);
#elif VF_PART == 9
    conv_to<i8>();
    conv_to<u8>();
    conv_to<i16>();
    conv_to<u16>();
    conv_to<i32>();
    conv_to<u32>();
#elif VF_PART == 10
    conv_to<i64>();
    conv_to<u64>();
    conv_to<i128>();
    conv_to<u128>();
#elif VF_PART == 11
    prog_wrapper<i8, i8>();
    prog_wrapper<u8, u8>();
    prog_wrapper<i8, u8>();
    prog_wrapper<u8, i8>();
    prog_wrapper<i16, i16>();
    prog_wrapper<u16, i16>();
    prog_wrapper<i16, i32>();
    prog_wrapper<i8, i64>();
#elif VF_PART == 12
    prog_wrapper<i32, i32>();
    prog_wrapper<u32, u32>();
    prog_wrapper<i32, u32>();
    prog_wrapper<u32, i32>();
    prog_wrapper<i64, i64>();
    prog_wrapper<u64, u64>();
    prog_wrapper<i64, i32>();
    prog_wrapper<i32, i64>();
    prog_wrapper<u64, i64>();
#endif
}
VF_GROUP(group);
VF_MAIN()
