// C03 — comparisons agree with the mathematical order of the represented values.
// Programs (generated): pairs of scaled_integer types (different reps/exponents), elastic_integer /
// elastic_scaled_integer pairs (digits x signedness), wide_integer pairs, each also against built-in
// integers on either side. All six operators on every state; mutual consistency.
// Oracle: sign of Rational(l) - Rational(r). Where both representations are built-in integers the
// oracle is the built-in comparison of the exponent-aligned representations (usual arithmetic
// conversions), as the property states. Precondition: the alignment fits the type it is made in.
#include "cnlval.h"

using cnl::power;
using cnl::scaled_integer;

template<class T>
T build(Big const& repv)
{
    using S = cv::scale_of<T>;
    if constexpr (S::scaled) return cnl::_impl::from_rep<T>(cv::make_int<typename S::rep>(repv));
    else return cv::make_int<T>(repv);
}

template<class Rep, int Shift>
struct shifted {
    static auto probe()
    {
        if constexpr (Shift == 0) return Rep{};
        else return decltype(std::declval<Rep>() << cnl::constant<Shift>()){};
    }
    using type = decltype(probe());
};

template<class L, class R>
[[gnu::noinline]] void prog(int fullbits, int step)
{
    using SL = cv::scale_of<L>;
    using SR = cv::scale_of<R>;
    constexpr int radix = SL::scaled ? SL::radix : SR::radix;
    constexpr int le = SL::exponent, re = SR::exponent, emin = le < re ? le : re;
    using RepL = typename SL::rep;
    using RepR = typename SR::rep;
    using TA = typename shifted<RepL, le - emin>::type;
    using TB = typename shifted<RepR, re - emin>::type;
    constexpr bool both_builtin = cv::is_builtin_int<RepL> && cv::is_builtin_int<RepR>;
    bool full = cv::space_is_full<RepL>(fullbits) && cv::space_is_full<RepR>(fullbits);
    std::string name = "cmp<" + cv::rep_name<L>() + "," + cv::rep_name<R>() + ">";
    if (!vf::begin(name, full)) return;
    auto As = cv::space<RepL>(fullbits, step);
    auto const Bs0 = cv::space<RepR>(fullbits, step);
    Big const pl = Big::pow(Big(radix), le - emin), pr = Big::pow(Big(radix), re - emin);
    for (auto const& a : As) {
        if (!vf::my_row()) continue;
        // "equal after alignment" neighbours of a
        std::vector<Big> Bs = Bs0;
        if (!full) {
            Big A = a * pl;
            for (int d = -1; d <= 1; ++d) {
                Big cand = (A + Big(d)) / pr;
                for (int e = -1; e <= 1; ++e)
                    if (cv::fits<RepR>(cand + Big(e))) Bs.push_back(cand + Big(e));
            }
        }
        for (auto const& b : Bs) {
            auto id = [&] { return a.str() + "," + b.str(); };
            if (vf::replaying() && !vf::case_selected(id())) continue;
            Big A = a * pl, B = b * pr;
            if (!cv::fits<TA>(A) || !cv::fits<TB>(B)) {
                vf::skip_pre();
                continue;
            }
            int c;
            bool by_bits = false;
            if constexpr (both_builtin) {
                using C = decltype(std::declval<TA>() + std::declval<TB>());
                Big Aw = ref::wrap_twos(A, vals::bits_v<C>, vals::is_signed_v<C>), Bw = ref::wrap_twos(B, vals::bits_v<C>, vals::is_signed_v<C>);
                by_bits = Aw != A || Bw != B;
                c = Big::cmp(Aw, Bw);
            } else
                c = Big::cmp(A, B);
            L l = build<L>(a);
            R r = build<R>(b);
            bool lt = false, le_ = false, gt = false, ge = false, eq = false, ne = false;
            vf::Outcome o = vf::run([&] {
                lt = l < r;
                le_ = l <= r;
                gt = l > r;
                ge = l >= r;
                eq = l == r;
                ne = l != r;
            });
            vf::validated(6);
            vf::counted(le != re || c == 0 || by_bits || (A - B).abs() <= Big(1));
            if (vf::want_sample()) vf::sample(name + " " + id() + " -> " + (c < 0 ? "<" : c > 0 ? ">" : "=="));
            const char* region = by_bits ? "builtin_mixed_sign_conversion" : (le != re ? "exponents_differ" : "same_exponent");
            // one operand's value is not representable in the other operand's type
            if (!both_builtin && le == re && (!cv::fits<RepL>(b) || !cv::fits<RepR>(a))) region = "same_exponent/operand_exceeds_other_type";
            if (!o.ok()) {
                vf::outcome(o.str());
                vf::violation("compare/" + o.str() + "/" + region, id(), id() + ": " + o.str());
                continue;
            }
            bool consistent = (int(lt) + int(eq) + int(gt) == 1) && ne == !eq && le_ == (lt || eq) && ge == (gt || eq);
            bool right = lt == (c < 0) && eq == (c == 0) && gt == (c > 0) && ne == (c != 0) && le_ == (c <= 0) && ge == (c >= 0);
            if (!consistent) {
                vf::outcome("inconsistent");
                vf::violation(std::string("compare/inconsistent/") + region, id(), id() + ": the six operators are not mutually consistent");
            } else if (!right) {
                vf::outcome("wrong_order");
                vf::violation(std::string("compare/order/") + region + (c == 0 ? "/equal" : "/unequal"), id(),
                              id() + ": expected " + (c < 0 ? "<" : c > 0 ? ">" : "==") + ", got lt=" + vf::to_s(lt) + " eq=" + vf::to_s(eq) + " gt=" + vf::to_s(gt));
            } else
                vf::outcome(c < 0 ? "ok_less" : c > 0 ? "ok_greater" : "ok_equal");
        }
    }
}

template<class Rep, int E, int Radix = 2>
using SI = scaled_integer<Rep, power<E, Radix>>;
template<int D>
using ES = cnl::elastic_integer<D, int>;
template<int D>
using EU = cnl::elastic_integer<D, unsigned>;
template<int D>
using WS = cnl::wide_integer<D, int>;
template<int D>
using WU = cnl::wide_integer<D, unsigned>;
template<int D, int E>
using ESS = cnl::elastic_scaled_integer<D, power<E>, int>;
template<int D, int E>
using ESU = cnl::elastic_scaled_integer<D, power<E>, unsigned>;

static void group()
{
    constexpr int FB = 8;
    constexpr int ST = VF_TIER ? 2 : 4;
#define P(LR, LE, RR, RE, RADIX) prog<SI<LR, LE, RADIX>, SI<RR, RE, RADIX>>(FB, ST);
#define T2(LT, RT) prog<LT, RT>(FB, ST);
#include "programs.inc"
}
VF_GROUP(group);
VF_MAIN()
