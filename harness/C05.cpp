// C05 — elastic_integer arithmetic never overflows and stays within its declared digits.
//
// Two enumerations (DESIGN.md sec. 8):
//  values:  digits 1..7 on both sides, every signedness pairing, narrowest storage int8_t/uint8_t
//           and int/unsigned: EVERY operand pair, operators + - * / % unary-, << and >> by
//           constant<0..3>, six comparisons. Oracle: exact 64-bit arithmetic.
//  corners: digits from {1,2,3,7,8,15,16,31,32,33,63,64,100,127} (thorough: +{130,200}, multi-word
//           storage) on both sides: the complete product of the corner/boundary values
//           {0, +-1, +-2, +-(2^D-1), +-(2^D-2), +-2^(D-1), +-(2^(D-1)+-1), patterns}; the operators are
//           monotone between corners, which is what makes corners the places where the digit rules
//           change their answer. Oracle: BigInt.
// Checked per state: result value == exact result; result within [-(2^D-1), 2^D-1] (or [0, 2^D-1])
// where D and signedness are read from the *result type*; numeric_limits of the result type
// report exactly that range.
#include "cnlval.h"

template<int D, bool S, class Fam>
using EI = cnl::elastic_integer<D, std::conditional_t<S, typename Fam::s, typename Fam::u>>;
struct Fam8 {
    using s = i8;
    using u = u8;
    static constexpr const char* name = "8";
};
struct Fam16 {
    using s = i16;
    using u = u16;
    static constexpr const char* name = "16";
};
struct Fam32 {
    using s = int;
    using u = unsigned;
    static constexpr const char* name = "32";
};
// multi-word capable storage, as static_integer uses it
struct FamW {
    using s = cnl::wide_integer<31, int>;
    using u = cnl::wide_integer<32, unsigned>;
    static constexpr const char* name = "wide";
};

// read / build any elastic_integer value exactly (handles built-in, wrapped and multi-limb storage)
template<class E>
Big value_of(E const& e)
{
    return cv::int_value(e);
}
template<class E>
E make(Big const& v)
{
    return cv::make_int<E>(v);
}

template<class Res>
struct range_of {
    static constexpr int D = cnl::digits_v<Res>;
    static constexpr bool S = cnl::numbers::signedness_v<Res>;
    static Big hi() { return Big::pow2(D) - Big(1); }
    static Big lo() { return S ? -hi() : Big(0); }
};

template<class Res>
void check_limits(std::string const& what)
{
    using R = range_of<Res>;
    Big mx, lw;
    vf::Outcome o = vf::run([&] {
        mx = value_of(std::numeric_limits<Res>::max());
        lw = value_of(std::numeric_limits<Res>::lowest());
    });
    vf::validated(2);
    if (!o.ok()) {
        vf::violation("numeric_limits/" + o.str(), what, what + ": evaluating numeric_limits max()/lowest() for " + std::to_string(R::D) + " digits: " + o.str());
        return;
    }
    if (mx != R::hi() || lw != R::lo())
        vf::violation("numeric_limits", what, what + ": numeric_limits reports [" + lw.str() + "," + mx.str() + "] for " + std::to_string(R::D) + " digits, expected [" + R::lo().str() + "," + R::hi().str() + "]");
}

template<class Res, class F>
void check_result(const char* op, Big const& exact, std::string const& id, const char* region, F&& f)
{
    using R = range_of<Res>;
    Res got{};
    vf::Outcome o = vf::run([&] { got = f(); });
    vf::validated();
    if (!o.ok()) {
        vf::outcome(o.str());
        vf::violation(std::string(op) + "/" + o.str() + "/" + region, id, id + " " + op + ": expected " + exact.str() + ", got " + o.str());
        return;
    }
    Big g = value_of(got);
    bool in_decl = g >= R::lo() && g <= R::hi();
    bool exact_in_decl = exact >= R::lo() && exact <= R::hi();
    if (g != exact) {
        vf::outcome("wrong_value");
        vf::violation(std::string(op) + "/value/" + (exact_in_decl ? "exact_fits_declared_digits" : "exact_exceeds_declared_digits") + "/" + region, id,
                      id + " " + op + ": expected " + exact.str() + ", got " + g.str() + " (result digits " + std::to_string(R::D) + (R::S ? " signed" : " unsigned") + ")");
    } else if (!in_decl) {
        vf::outcome("out_of_declared_range");
        vf::violation(std::string(op) + "/range/" + (g == R::lo() - Big(1) ? "one_below_lowest/" : "") + region, id, id + " " + op + ": exact result " + g.str() + " is outside the " + std::to_string(R::D) + "-digit range of the result type");
    } else
        vf::outcome(std::string("ok_") + op);
}

template<class L, class R>
void check_pair(Big const& a, Big const& b, std::string const& id, const char* region)
{
    L x = make<L>(a);
    R y = make<R>(b);
    check_result<decltype(x + y)>("add", a + b, id, region, [&] { return x + y; });
    check_result<decltype(x - y)>("sub", a - b, id, region, [&] { return x - y; });
    check_result<decltype(x * y)>("mul", a * b, id, region, [&] { return x * y; });
    if (!b.is_zero()) {
        check_result<decltype(x / y)>("div", a / b, id, region, [&] { return x / y; });
        check_result<decltype(x % y)>("mod", a % b, id, region, [&] { return x % y; });
    } else
        vf::skip_pre();
    // comparisons by value
    int c = Big::cmp(a, b);
    bool lt = false, le = false, gt = false, ge = false, eq = false, ne = false;
    vf::Outcome o = vf::run([&] {
        lt = x < y;
        le = x <= y;
        gt = x > y;
        ge = x >= y;
        eq = x == y;
        ne = x != y;
    });
    vf::validated(6);
    if (!o.ok() || lt != (c < 0) || le != (c <= 0) || gt != (c > 0) || ge != (c >= 0) || eq != (c == 0) || ne != (c != 0)) {
        vf::outcome("bad_compare");
        vf::violation(std::string("compare/") + (o.ok() ? "value" : o.str()) + "/" + region, id, id + " comparisons disagree with the order of the values" + (o.ok() ? "" : (": " + o.str())));
    } else
        vf::outcome("ok_compare");
}

template<class L>
void check_unary(Big const& a, std::string const& id)
{
    L x = make<L>(a);
    check_result<decltype(-x)>("neg", -a, id, "unary", [&] { return -x; });
    check_result<decltype(+x)>("pos", a, id, "unary", [&] { return +x; });
    check_result<decltype(x << cnl::constant<1>{})>("shl1", a.shl(1), id, "unary", [&] { return x << cnl::constant<1>{}; });
    check_result<decltype(x << cnl::constant<3>{})>("shl3", a.shl(3), id, "unary", [&] { return x << cnl::constant<3>{}; });
    check_result<decltype(x << cnl::constant<0>{})>("shl0", a, id, "unary", [&] { return x << cnl::constant<0>{}; });
    if constexpr (cnl::digits_v<L> > 3) {
        check_result<decltype(x >> cnl::constant<1>{})>("shr1", ref::floor_div(a, Big(2)), id, "unary", [&] { return x >> cnl::constant<1>{}; });
        check_result<decltype(x >> cnl::constant<3>{})>("shr3", ref::floor_div(a, Big(8)), id, "unary", [&] { return x >> cnl::constant<3>{}; });
    }
}

template<int LD, bool LS, int RD, bool RS, class Fam>
[[gnu::noinline]] void prog_values()
{
    using L = EI<LD, LS, Fam>;
    using R = EI<RD, RS, Fam>;
    std::string name = std::string("values<") + std::to_string(LD) + (LS ? "s" : "u") + "," + std::to_string(RD) + (RS ? "s" : "u") + ",narrowest" + Fam::name + ">";
    if (!vf::begin(name, true)) return;
    check_limits<L>(name + " L");
    check_limits<decltype(L{} + R{})>(name + " add");
    check_limits<decltype(L{} * R{})>(name + " mul");
    check_limits<decltype(L{} / R{})>(name + " div");
    check_limits<decltype(L{} % R{})>(name + " mod");
    check_limits<decltype(L{} - R{})>(name + " sub");
    long lhi = (1l << LD) - 1, llo = LS ? -lhi : 0, rhi = (1l << RD) - 1, rlo = RS ? -rhi : 0;
    for (long a = llo; a <= lhi; ++a) {
        if (!vf::my_row()) continue;
        for (long b = rlo; b <= rhi; ++b) {
            auto id = [&] { return std::to_string(a) + "," + std::to_string(b); };
            if (vf::replaying() && !vf::case_selected(id())) continue;
            bool edge = a == lhi || a == llo || b == rhi || b == rlo;
            vf::counted(edge || LD != RD || LS != RS);
            if (vf::want_sample()) vf::sample(name + " " + id());
            check_pair<L, R>(Big(a), Big(b), id(), (LS != RS) ? "mixed_signedness" : "same_signedness");
        }
        if (RD == 1 && RS && std::is_same_v<Fam, Fam8>) {
            auto id = [&] { return std::to_string(a); };
            if (vf::replaying() && !vf::case_selected(id())) continue;
            check_unary<L>(Big(a), id());
        }
    }
}

// elastic_integer with a built-in integer operand on either side (the built-in is lifted with from_value)
template<int LD, bool LS, class Fam, class BI>
[[gnu::noinline]] void prog_builtin()
{
    using L = EI<LD, LS, Fam>;
    std::string name = std::string("builtin<") + std::to_string(LD) + (LS ? "s" : "u") + ",narrowest" + Fam::name + "," + vf::tn<BI>() + ">";
    bool full = vals::is_full<BI>(8);
    if (!vf::begin(name, full)) return;
    long lhi = (1l << LD) - 1, llo = LS ? -lhi : 0;
    auto const Bs = vals::space<BI>(8, 4);
    for (long a = llo; a <= lhi; ++a) {
        if (!vf::my_row()) continue;
        for (BI b : Bs) {
            auto id = [&] { return std::to_string(a) + "," + vf::to_s(b); };
            if (vf::replaying() && !vf::case_selected(id())) continue;
            // the most negative value of a signed built-in type is outside the symmetric range of the elastic type it is
            // lifted to (from_value gives elastic_integer<digits of BI>): not an in-range operand in the property's sense
            if (vals::is_signed_v<BI> && b == vals::min_v<BI>()) {
                vf::skip_pre();
                continue;
            }
            vf::counted(Big(b).neg != (a < 0) || a == lhi || a == llo);
            if (vf::want_sample()) vf::sample(name + " " + id());
            bool const mixed = LS != vals::is_signed_v<BI>;
            check_pair<L, BI>(Big(a), Big(b), id(), mixed ? (Big(b).neg ? "builtin_negative_elastic_unsigned" : "mixed_signedness") : "same_signedness");
            check_pair<BI, L>(Big(b), Big(a), id(), mixed ? (Big(b).neg ? "builtin_on_left/builtin_negative_elastic_unsigned" : "builtin_on_left/mixed_signedness") : "builtin_on_left/same_signedness");
        }
    }
}

template<int D>
std::vector<Big> corners(bool is_signed)
{
    std::vector<Big> v;
    auto add = [&](Big const& b) {
        Big hi = Big::pow2(D) - Big(1);
        if (b > hi) return;
        if (is_signed ? (b < -hi) : (b < Big(0))) return;
        for (auto const& x : v)
            if (x == b) return;
        v.push_back(b);
    };
    for (int s : {1, -1}) {
        for (int d : {0, 1, 2, 3, 7}) add(Big(s) * Big(d));
        add(Big(s) * (Big::pow2(D) - Big(1)));
        add(Big(s) * (Big::pow2(D) - Big(2)));
        if (D > 1)
            for (int d : {-1, 0, 1}) add(Big(s) * (Big::pow2(D - 1) + Big(d)));
        if (D > 8)
            for (int d : {-1, 0, 1}) add(Big(s) * (Big::pow2(D / 2) + Big(d)));
        Big pat(0);
        for (int i = 0; i < D; i += 2) pat = pat + Big::pow2(i);
        add(Big(s) * pat);
    }
    return v;
}

template<int LD, bool LS, int RD, bool RS, class Fam = Fam32>
[[gnu::noinline]] void prog_corners()
{
    using L = EI<LD, LS, Fam>;
    using R = EI<RD, RS, Fam>;
    std::string name = std::string("corners<") + std::to_string(LD) + (LS ? "s" : "u") + "," + std::to_string(RD) + (RS ? "s" : "u") + ",narrowest" + Fam::name + ">";
    if (!vf::begin(name, false)) return;
    check_limits<L>(name + " L");
    check_limits<decltype(L{} + R{})>(name + " add");
    check_limits<decltype(L{} * R{})>(name + " mul");
    check_limits<decltype(L{} / R{})>(name + " div");
    check_limits<decltype(L{} % R{})>(name + " mod");
    check_limits<decltype(L{} - R{})>(name + " sub");
    auto const As = corners<LD>(LS);
    auto const Bs = corners<RD>(RS);
    for (auto const& a : As) {
        if (!vf::my_row()) continue;
        for (auto const& b : Bs) {
            auto id = [&] { return a.str() + "," + b.str(); };
            if (vf::replaying() && !vf::case_selected(id())) continue;
            vf::counted(true);
            if (vf::want_sample()) vf::sample(name + " " + id());
            const char* region = (LD > RD ? (LS != RS ? "lhs_wider/mixed_signedness" : "lhs_wider") : (LD < RD ? (LS != RS ? "rhs_wider/mixed_signedness" : "rhs_wider") : (LS != RS ? "same_digits/mixed_signedness" : "same_digits")));
            check_pair<L, R>(a, b, id(), region);
        }
        if (RD == 1 && RS) {
            auto id = [&] { return a.str(); };
            if (vf::replaying() && !vf::case_selected(id())) continue;
            check_unary<L>(a, id());
        }
    }
}

// comparisons only (no arithmetic result type exists beyond 128 digits of built-in storage): operands up to the widest
// built-in storage, 128 unsigned digits in unsigned __int128
template<int LD, bool LS, int RD, bool RS, class Fam = Fam32>
[[gnu::noinline]] void prog_compare_only()
{
    using L = EI<LD, LS, Fam>;
    using R = EI<RD, RS, Fam>;
    std::string name = std::string("compare_only<") + std::to_string(LD) + (LS ? "s" : "u") + "," + std::to_string(RD) + (RS ? "s" : "u") + ",narrowest" + Fam::name + ">";
    if (!vf::begin(name, false)) return;
    auto const As = corners<LD>(LS);
    auto const Bs = corners<RD>(RS);
    for (auto const& a : As) {
        if (!vf::my_row()) continue;
        for (auto const& b : Bs) {
            std::string const id = a.str() + "," + b.str();
            if (vf::replaying() && !vf::case_selected(id)) continue;
            vf::counted(true);
            L x = make<L>(a);
            R y = make<R>(b);
            int c = Big::cmp(a, b);
            bool r[12] = {};
            vf::Outcome o = vf::run([&] {
                r[0] = x < y; r[1] = x <= y; r[2] = x > y; r[3] = x >= y; r[4] = x == y; r[5] = x != y;
                r[6] = y < x; r[7] = y <= x; r[8] = y > x; r[9] = y >= x; r[10] = y == x; r[11] = y != x;
            });
            vf::validated(12);
            bool const want[12] = {c < 0, c <= 0, c > 0, c >= 0, c == 0, c != 0, c > 0, c >= 0, c < 0, c <= 0, c == 0, c != 0};
            bool ok = o.ok();
            for (int i = 0; i < 12 && ok; ++i) ok = r[i] == want[i];
            if (!ok) {
                vf::outcome("bad_compare");
                vf::violation(std::string("compare/") + (o.ok() ? "value" : o.str()) + (LD == 128 || RD == 128 ? "/widest_storage" : "/other"), id, id + " comparisons disagree with the order of the values" + (o.ok() ? "" : (": " + o.str())));
            } else
                vf::outcome("ok_compare");
        }
    }
}

// compile-time loops
template<int LD, class Fam, int... RDs>
void values_row(std::integer_sequence<int, RDs...>)
{
    (prog_values<LD, true, RDs + 1, true, Fam>(), ...);
    (prog_values<LD, true, RDs + 1, false, Fam>(), ...);
    (prog_values<LD, false, RDs + 1, true, Fam>(), ...);
    (prog_values<LD, false, RDs + 1, false, Fam>(), ...);
}

template<int LD, class Fam, int... RDs>
void corners_row()
{
    (prog_corners<LD, true, RDs, true, Fam>(), ...);
    (prog_corners<LD, true, RDs, false, Fam>(), ...);
    (prog_corners<LD, false, RDs, true, Fam>(), ...);
    (prog_corners<LD, false, RDs, false, Fam>(), ...);
}

// built-in storage: result digits must stay <= 127 (L+R for *), so corner digits stop at 63
#if VF_TIER
#define VF_CORNER_DIGITS 1, 2, 3, 7, 8, 15, 16, 31, 32, 33, 48, 62, 63
#define VF_WIDE_DIGITS 31, 64, 100, 130, 200
#else
#define VF_CORNER_DIGITS 1, 3, 8, 16, 31, 32, 63
#define VF_WIDE_DIGITS 64, 130
#endif

static void group()
{
#if VF_PART >= 1 && VF_PART <= 7
    values_row<VF_PART, Fam8>(std::make_integer_sequence<int, 7>{});
    values_row<VF_PART, Fam32>(std::make_integer_sequence<int, 7>{});
#elif VF_PART >= 3000
    // narrow Narrowest types: results land on 8, 15, 16, 17, 31, 32 digits from below the storage ladder's rungs
    // (operand digits stay below 16: the results, not the operands, are to land on the 16-digit rung)
    corners_row<VF_PART - 3000, Fam8, 1, 7, 8, 9, 15>();
    corners_row<VF_PART - 3000, Fam16, 1, 7, 8, 9, 15>();
#if VF_PART == 3008
    // UNSIGNED operands that fill their narrow storage word (8 digits in uint8_t, 16 in uint16_t): the operation must
    // not be carried out in the integrally promoted int
    prog_corners<16, false, 16, false, Fam16>();
    prog_corners<16, false, 15, true, Fam16>();
    prog_corners<15, true, 16, false, Fam16>();
    prog_corners<16, false, 8, false, Fam16>();
    prog_corners<8, false, 8, false, Fam8>();
    prog_corners<8, false, 7, true, Fam8>();
    prog_corners<8, false, 16, false, Fam16>();
    // the widest built-in storage: 128 unsigned digits (results of u64 * u64, u127 + u1) compared with other unsigned types
    // (a signed partner of a 128-digit unsigned elastic_integer has no common type and does not compile)
    prog_compare_only<128, false, 127, false>();
    prog_compare_only<127, false, 128, false>();
    prog_compare_only<128, false, 64, false>();
    prog_compare_only<128, false, 128, false>();
    prog_compare_only<128, false, 1, false>();
    prog_compare_only<127, true, 126, true>();
    prog_compare_only<127, true, 64, false>();
#endif
#elif VF_PART >= 2000
    constexpr int D = VF_PART - 2000;
    prog_builtin<D, false, Fam32, i8>();
    prog_builtin<D, true, Fam32, i8>();
    prog_builtin<D, false, Fam32, u8>();
    prog_builtin<D, true, Fam32, u8>();
    prog_builtin<D, false, Fam32, i32>();
    prog_builtin<D, true, Fam32, u32>();
    prog_builtin<D, false, Fam8, i8>();
    prog_builtin<D, false, Fam32, i64>();
    prog_builtin<D, true, Fam8, u64>();
#elif VF_PART >= 1000
    corners_row<VF_PART - 1000, FamW, VF_WIDE_DIGITS>();
#elif VF_PART >= 100
    corners_row<VF_PART - 100, Fam32, VF_CORNER_DIGITS>();
#endif
}
VF_GROUP(group);
VF_MAIN()
