// C10_util.h — reference-side helpers for C10: N-bit two's-complement reduction written out on
// 32-bit words (independent of the library under test), exact integer -> IEEE rounding, reading and
// writing the limbs of the vendored multi-limb class directly (no arithmetic of the class is used to
// build operands or to read results), limb-lattice value sets.
#pragma once
#include "common.h"

#include <cmath>
#include <string>
#include <vector>

namespace c10 {

using BigW = ref::BigT<160>;  // 5120 bits: products and shifts of 2111-bit operands

struct BigWLess {
    bool operator()(BigW const& a, BigW const& b) const { return BigW::cmp(a, b) < 0; }
};

// ---------------------------------------------------------------------------------------------
// two's complement on words

constexpr int MAXW = 160;
struct Words {
    uint32_t w[MAXW];
    int nbits = 0;
    int nwords() const { return (nbits + 31) / 32; }
    bool bit(int i) const { return (w[i / 32] >> (i % 32)) & 1u; }
    void mask_top()
    {
        int r = nbits % 32;
        if (r) w[nwords() - 1] &= (uint32_t(1) << r) - 1u;
    }
    void negate()
    {
        int n = nwords();
        uint64_t c = 1;
        for (int i = 0; i < n; ++i) {
            uint64_t t = uint64_t(uint32_t(~w[i])) + c;
            w[i] = uint32_t(t);
            c = t >> 32;
        }
        mask_top();
    }
};

// v mod 2^nbits as an nbits-wide bit pattern
inline Words to_twos(BigW const& v, int nbits)
{
    if (nbits <= 0 || nbits > MAXW * 32) ref::die("to_twos: width");
    Words r;
    r.nbits = nbits;
    int n = r.nwords();
    for (int i = 0; i < n; ++i) r.w[i] = i < v.n ? v.l[i] : 0u;
    r.mask_top();
    if (v.neg) r.negate();
    return r;
}

// the integer an nbits-wide pattern denotes (two's complement if is_signed)
inline BigW from_twos(Words p, bool is_signed)
{
    BigW r;
    bool neg = is_signed && p.bit(p.nbits - 1);
    if (neg) p.negate();
    int n = p.nwords();
    if (n > 160) ref::die("from_twos: capacity");
    for (int i = 0; i < n; ++i) r.l[i] = p.w[i];
    r.n = n;
    r.trim();
    if (neg) {
        if (r.n == 0) {
            // the most negative value: negation of 100..0 is itself
            r = BigW::pow2(p.nbits - 1);
        }
        r.neg = true;
    }
    return r;
}

// the property's reduction: mathematical integer -> N-bit two's-complement range
inline BigW wrapN(BigW const& v, int nbits, bool is_signed) { return from_twos(to_twos(v, nbits), is_signed); }

inline bool fitsN(BigW const& v, int nbits, bool is_signed) { return v.fits(nbits, is_signed); }

// floor(a / 2^c) (arithmetic right shift of the mathematical integer)
inline BigW floor_shr(BigW const& a, int c)
{
    if (!a.neg) return a.shr_trunc(c);
    // floor(a/2^c) = -(((-a) - 1) >> c) - 1
    BigW t = (-a) - BigW(1);
    return -(t.shr_trunc(c)) - BigW(1);
}

enum BitOp { B_AND, B_OR, B_XOR };
inline BigW bitop(BigW const& a, BigW const& b, int nbits, bool is_signed, BitOp op)
{
    Words x = to_twos(a, nbits), y = to_twos(b, nbits);
    for (int i = 0; i < x.nwords(); ++i) x.w[i] = op == B_AND ? (x.w[i] & y.w[i]) : op == B_OR ? (x.w[i] | y.w[i]) : (x.w[i] ^ y.w[i]);
    return from_twos(x, is_signed);
}
inline BigW bitnot(BigW const& a, int nbits, bool is_signed)
{
    Words x = to_twos(a, nbits);
    for (int i = 0; i < x.nwords(); ++i) x.w[i] = ~x.w[i];
    x.mask_top();
    return from_twos(x, is_signed);
}

inline std::string hex(BigW const& v)
{
    if (v.n == 0) return "0x0";
    std::string s;
    char b[16];
    for (int i = v.n - 1; i >= 0; --i) {
        snprintf(b, sizeof b, i == v.n - 1 ? "%x" : "%08x", v.l[i]);
        s += b;
    }
    return std::string(v.neg ? "-0x" : "0x") + s;
}

// ---------------------------------------------------------------------------------------------
// exact integer -> binary floating point, round to nearest even (the oracle for "to float")

template<class F>
struct FloatRef {
    F nearest;  // correctly rounded (may be +-inf on overflow)
    F toward_zero;  // truncated
    bool exact;
    bool overflow;
};

template<class F>
FloatRef<F> big_to_float(BigW const& a)
{
    constexpr int p = std::numeric_limits<F>::digits;
    constexpr int emax = std::numeric_limits<F>::max_exponent - 1;  // largest e with 2^e finite
    static_assert(p <= 64);
    FloatRef<F> r{};
    int L = a.bit_length();
    auto low64 = [](BigW const& v) { return (unsigned long long)((v.n > 0 ? uint64_t(v.l[0]) : 0) | (v.n > 1 ? uint64_t(v.l[1]) << 32 : 0)); };
    if (L <= p) {
        F f = F(low64(a));  // < 2^p: exact
        r.nearest = r.toward_zero = a.neg ? -f : f;
        r.exact = true;
        r.overflow = false;
        return r;
    }
    int shift = L - p;
    BigW top = a.abs().shr_trunc(shift);
    unsigned long long m = low64(top);
    bool round_bit = a.bit(shift - 1);
    bool sticky = false;
    for (int i = 0; i < shift - 1 && !sticky; ++i) {
        if ((i % 32) == 0 && i + 32 <= shift - 1) {
            if (a.l[i / 32]) sticky = true;
            i += 31;
            continue;
        }
        if (a.bit(i)) sticky = true;
    }
    r.exact = !round_bit && !sticky;
    unsigned long long mt = m;
    int st = shift;
    // truncated
    {
        if (st + p - 1 > emax) r.toward_zero = std::numeric_limits<F>::max();
        else r.toward_zero = std::ldexp(F(mt), st);
    }
    if (round_bit && (sticky || (m & 1ull))) {
        if (p == 64 && m == ~0ull) {
            m = 1ull << 63;
            shift += 1;
        } else {
            m += 1;
            if (p < 64 && m == (1ull << p)) {
                m >>= 1;
                shift += 1;
            }
        }
    }
    if (shift + p - 1 > emax) {
        r.nearest = std::numeric_limits<F>::infinity();
        r.overflow = true;
    } else {
        r.nearest = std::ldexp(F(m), shift);
        r.overflow = false;
    }
    if (a.neg) {
        r.nearest = -r.nearest;
        r.toward_zero = -r.toward_zero;
    }
    return r;
}

// exact value of a finite float, truncated toward zero to an integer
template<class F>
BigW float_trunc(F x, bool& is_integer)
{
    __int128 m;
    int e;
    ref::decode(x, m, e);
    BigW M(m);
    if (e >= 0) {
        is_integer = true;
        return M.shl(e);
    }
    BigW t = M.shr_trunc(-e);  // magnitude shift: toward zero
    is_integer = (t.shl(-e) == M);
    return t;
}

template<class F>
std::vector<F> float_probe_values(int maxbits)
{
    constexpr int p = std::numeric_limits<F>::digits;
    std::vector<F> v;
    auto add = [&](F x) {
        v.push_back(x);
        v.push_back(-x);
    };
    for (int i = 0; i <= 20; ++i) add(F(i));
    for (F x : {F(0.5), F(1.5), F(2.5), F(255.5), F(65535.5), F(0.99), F(1e-30)}) add(x);
    for (int k = 1; k <= maxbits + 1 && k < std::numeric_limits<F>::max_exponent; ++k) {
        F t = std::ldexp(F(1), k);
        add(t);
        add(t - std::ldexp(F(1), k > p ? k - p : 0));  // all-ones mantissa below 2^k (or 2^k - 1)
        add(t + std::ldexp(F(1), k >= p ? k - p + 1 : 0));  // one ulp above (or 2^k + 1)
        add(F(3) * std::ldexp(F(1), k - 1));
        if ((k % 8) == 7) add(std::ldexp(F(0xAAAAAA), k > 24 ? k - 24 : 0));
    }
    return v;
}

// ---------------------------------------------------------------------------------------------
// limb lattice

// the eight limb patterns {00,01,02,7f,80,81,fe,ff} scaled to limb width L (L <= 64)
inline std::vector<unsigned long long> limb_patterns(int L, bool extended = false)
{
    unsigned long long ones = L == 64 ? ~0ull : ((1ull << L) - 1ull);
    unsigned long long top = 1ull << (L - 1);
    std::vector<unsigned long long> p{0ull, 1ull, 2ull, top - 1ull, top, top + 1ull, ones - 1ull, ones};
    if (extended) {
        // 55.., aa.., and the half-limb boundary
        unsigned long long x55 = 0, xaa = 0;
        for (int i = 0; i < L; i += 8) {
            x55 |= 0x55ull << i;
            xaa |= 0xaaull << i;
        }
        p.push_back(x55 & ones);
        p.push_back(xaa & ones);
        p.push_back((1ull << (L / 2)) - 1ull);
        p.push_back(1ull << (L / 2));
    }
    return p;
}

// values of a `bits`-wide integer (two's complement if is_signed): background 00.. or ff.., at most
// k foreground limbs of width L at the given limb positions, foreground patterns from limb_patterns
inline void lattice_into(std::vector<BigW>& out, int bits, bool is_signed, int L, int k, std::vector<int> const& positions)
{
    auto pats = limb_patterns(L);
    int nl = (bits + L - 1) / L;
    auto emit = [&](Words const& w) { out.push_back(from_twos(w, is_signed)); };
    auto set_limb = [&](Words& w, int pos, unsigned long long pat) {
        for (int b = 0; b < L; ++b) {
            int i = pos * L + b;
            if (i >= bits) break;
            uint32_t m = uint32_t(1) << (i % 32);
            if ((pat >> b) & 1ull) w.w[i / 32] |= m;
            else w.w[i / 32] &= ~m;
        }
    };
    for (int bg = 0; bg < 2; ++bg) {
        Words base;
        base.nbits = bits;
        for (int i = 0; i < base.nwords(); ++i) base.w[i] = bg ? 0xffffffffu : 0u;
        base.mask_top();
        emit(base);
        if (k >= 1)
            for (int p1 : positions) {
                if (p1 < 0 || p1 >= nl) continue;
                for (auto q1 : pats) {
                    Words w1 = base;
                    set_limb(w1, p1, q1);
                    emit(w1);
                    if (k >= 2)
                        for (int p2 : positions) {
                            if (p2 <= p1 || p2 >= nl) continue;
                            for (auto q2 : pats) {
                                Words w2 = w1;
                                set_limb(w2, p2, q2);
                                emit(w2);
                            }
                        }
                }
            }
    }
}

inline std::vector<int> std_positions(int nl, bool few)
{
    std::vector<int> p;
    auto add = [&](int x) {
        if (x < 0 || x >= nl) return;
        for (int y : p)
            if (y == x) return;
        p.push_back(x);
    };
    add(0);
    add(nl - 1);
    add(nl / 2);
    if (!few) {
        add(1);
        add(nl - 2);
    }
    std::sort(p.begin(), p.end());
    return p;
}

inline void sort_unique(std::vector<BigW>& v)
{
    std::sort(v.begin(), v.end(), BigWLess());
    v.erase(std::unique(v.begin(), v.end(), [](BigW const& a, BigW const& b) { return a == b; }), v.end());
}

// the common operand set of a declared width (`bits` = Digits + signed): union over the four limb
// granularities, so that every Narrowest sees the same mathematical operands
inline std::vector<BigW> common_values(int bits, bool is_signed, int k, bool few_positions)
{
    std::vector<BigW> v;
    for (int L : {8, 16, 32, 64}) {
        int nl = (bits + L - 1) / L;
        lattice_into(v, bits, is_signed, L, k, std_positions(nl, few_positions));
    }
    sort_unique(v);
    return v;
}

// integers on which a limb-by-limb accumulation into a p-bit significand can round twice: a tie (or near
// tie) at the final rounding position, a low bit that an intermediate partial sum can lose
inline std::vector<BigW> float_hazards(int bits, bool is_signed)
{
    std::vector<BigW> v;
    int maxbit = bits - int(is_signed) - 1;
    for (int p : {24, 53, 64})
        for (int t : {p + 1, p + 8, p + 9, p + 16, p + 17, p + 33, p + 41, 2 * p + 3, maxbit}) {
            if (t > maxbit || t <= p) continue;
            int tie = t - p;
            BigW T = BigW::pow2(t), H = BigW::pow2(tie);
            BigW bases[4] = {T + H + BigW(1), T + H, T + H + H + H, T + H - BigW(1)};
            for (BigW const& b : bases) {
                v.push_back(b);
                for (int s : {t - 1, t - 8, t - 9, t - 17, p, p + 1})
                    if (s > tie + 1 && s < t) v.push_back(b + BigW::pow2(s));
            }
        }
    if (is_signed) {
        size_t n = v.size();
        for (size_t i = 0; i < n; ++i) v.push_back(-v[i]);
    }
    sort_unique(v);
    return v;
}

}  // namespace c10
