// C12 — wrapping is transparent: native-tag wrappers compute what bare integers compute.
// Kernels: every operator x wrapper nesting x representation (pairs), each compared on every state
// with the same built-in expression on the underlying integers: identical value AND identical
// promoted result representation (std::is_same evaluated to a bool, so a mismatch is a reported
// violation, not a build break). a op= b == T(a op b); ++/-- == +-1. Plus the documentation kernels
// (multiply-widen, mixed-exponent add, average, square) against their hand-written integer forms.
// Precondition (exact, first): the reference expression is defined (no signed overflow, shift count in
// range, divisor non-zero, not lowest / -1).
#include "cnlval.h"

using cnl::power;
using cnl::scaled_integer;

struct NSI {
    static constexpr bool has_incdec = true;  // ++/-- instantiable for this nesting
    template<class T>
    using type = scaled_integer<T, power<0>>;
    static constexpr const char* name = "scaled0";
};
struct NOV {
    static constexpr bool has_incdec = true;  // ++/-- instantiable for this nesting
    template<class T>
    using type = cnl::overflow_integer<T, cnl::native_overflow_tag>;
    static constexpr const char* name = "overflow_native";
};
struct NRN {
    static constexpr bool has_incdec = false;  // ++/-- instantiable for this nesting
    template<class T>
    using type = cnl::rounding_integer<T, cnl::native_rounding_tag>;
    static constexpr const char* name = "rounding_native";
};
struct NSIOV {
    static constexpr bool has_incdec = true;  // ++/-- instantiable for this nesting
    template<class T>
    using type = scaled_integer<cnl::overflow_integer<T, cnl::native_overflow_tag>, power<0>>;
    static constexpr const char* name = "scaled0<overflow_native>";
};
struct NSIRN {
    static constexpr bool has_incdec = true;  // ++/-- instantiable for this nesting
    template<class T>
    using type = scaled_integer<cnl::rounding_integer<T, cnl::native_rounding_tag>, power<0>>;
    static constexpr const char* name = "scaled0<rounding_native>";
};
struct NOVRN {
    static constexpr bool has_incdec = false;  // ++/-- instantiable for this nesting
    template<class T>
    using type = cnl::overflow_integer<cnl::rounding_integer<T, cnl::native_rounding_tag>, cnl::native_overflow_tag>;
    static constexpr const char* name = "overflow_native<rounding_native>";
};

template<class W>
auto unwrap_all(W const& w)
{
    if constexpr (cv::is_builtin_int<W> || std::is_same_v<W, bool>) return w;
    else return unwrap_all(cnl::_impl::to_rep(w));
}

template<class N, class T, class U>
[[gnu::noinline]] void prog()
{
    using WT = typename N::template type<T>;
    using WU = typename N::template type<U>;
    constexpr int FB = 8;
    constexpr int step = VF_TIER ? 1 : 3;
    bool full = vals::is_full<T>(FB) && vals::is_full<U>(FB);
    std::string name = std::string("ops<") + N::name + "," + vf::tn<T>() + "," + vf::tn<U>() + ">";
    if (!vf::begin(name, full)) return;
    using P = decltype(T{} + U{});  // common promoted type of the arithmetic operators
    using PT = decltype(+T{});
    auto const As = vals::space<T>(FB, step);
    auto Bs = vals::space<U>(FB, step);
    for (int s = 0; s <= 66; ++s) vals::add_if_fits(Bs, Big(s));  // shift counts
    vals::sort_unique(Bs);
    for (T a : As) {
        if (!vf::my_row()) continue;
        for (U b : Bs) {
            auto id = [&] { return vf::to_s(a) + "," + vf::to_s(b); };
            if (vf::replaying() && !vf::case_selected(id())) continue;
            Big A(a), B(b);
            Big Ap = ref::wrap_twos(A, vals::bits_v<P>, vals::is_signed_v<P>), Bp = ref::wrap_twos(B, vals::bits_v<P>, vals::is_signed_v<P>);  // operands after the usual arithmetic conversions
            auto fitsP = [&](Big const& v) { return !vals::is_signed_v<P> || v.template fits_type<P>(); };
            bool div_ok = b != 0 && !(vals::is_signed_v<P> && Ap == Big(vals::min_v<P>()) && Bp == Big(-1));
            bool shcount = B >= Big(0) && B < Big(vals::bits_v<PT>);
            bool shl_ok = shcount && (!vals::is_signed_v<PT> || (a >= 0 && A.shl(shcount ? int(b) : 0).template fits_type<PT>()));
            vf::counted(Ap != A || Bp != B || !std::is_same_v<T, U> || !fitsP(Ap + Bp + Big(2)) || !fitsP(Ap - Bp - Big(2)));
            if (vf::want_sample()) vf::sample(name + " " + id());
            auto check = [&](const char* op, bool defined, auto&& f) {
                if (!defined) {
                    vf::skip_pre();
                    return;
                }
                auto expect = f(a, b);
                using E = decltype(expect);
                if constexpr (requires { f(WT(a), WU(b)); }) {
                    using G = decltype(unwrap_all(f(WT(a), WU(b))));
                    G got{};
                    vf::Outcome o = vf::run([&] { got = unwrap_all(f(WT(a), WU(b))); });
                    vf::validated();
                    if (!o.ok()) {
                        vf::outcome(o.str());
                        vf::violation(std::string(op) + "/" + o.str(), id(), id() + " " + op + ": " + o.str() + ", built-in gives " + vf::to_s(expect));
                    } else if (!std::is_same_v<G, E>) {
                        vf::outcome("wrong_type");
                        vf::violation(std::string(op) + "/result_rep_type", id(), id() + " " + op + ": result rep " + vf::tn<G>() + ", built-in gives " + vf::tn<E>());
                    } else if (Big(got) != Big(expect)) {
                        vf::outcome("wrong_value");
                        vf::violation(std::string(op) + "/value", id(), id() + " " + op + ": got " + vf::to_s(got) + ", built-in gives " + vf::to_s(expect));
                    } else
                        vf::outcome(std::string("ok_") + op);
                } else
                    vf::outcome(std::string("unsupported_") + op);
            };
            check("add", fitsP(Ap + Bp), [](auto x, auto y) { return x + y; });
            check("sub", fitsP(Ap - Bp), [](auto x, auto y) { return x - y; });
            check("mul", fitsP(Ap * Bp), [](auto x, auto y) { return x * y; });
            check("div", div_ok, [](auto x, auto y) { return x / y; });
            check("mod", div_ok, [](auto x, auto y) { return x % y; });
            check("and", true, [](auto x, auto y) { return x & y; });
            check("or", true, [](auto x, auto y) { return x | y; });
            check("xor", true, [](auto x, auto y) { return x ^ y; });
            check("lt", true, [](auto x, auto y) { return x < y; });
            check("le", true, [](auto x, auto y) { return x <= y; });
            check("gt", true, [](auto x, auto y) { return x > y; });
            check("ge", true, [](auto x, auto y) { return x >= y; });
            check("eq", true, [](auto x, auto y) { return x == y; });
            check("ne", true, [](auto x, auto y) { return x != y; });
            // one operand left as a bare built-in (either side): still the built-in result
            auto check_mixed = [&](const char* op, bool defined, auto&& f) {
                if (!defined) {
                    vf::skip_pre();
                    return;
                }
                auto expect = f(a, b);
                auto one = [&](const char* side, auto&& g) {
                    if constexpr (requires { unwrap_all(g()); }) {
                        using G = decltype(unwrap_all(g()));
                        G got{};
                        vf::Outcome o = vf::run([&] { got = unwrap_all(g()); });
                        vf::validated();
                        if (!o.ok() || Big(got) != Big(expect)) {
                            vf::outcome(o.ok() ? "wrong_value" : o.str());
                            vf::violation(std::string(op) + "/" + side + "/" + (o.ok() ? "value" : o.str()), id(), id() + " " + op + " (" + side + "): got " + (o.ok() ? vf::to_s(got) : o.str()) + ", built-in gives " + vf::to_s(expect));
                        } else
                            vf::outcome(std::string("ok_") + op + "_" + side);
                    } else
                        vf::outcome(std::string("unsupported_") + op + "_" + side);
                };
                one("builtin_right", [&] { return f(WT(a), b); });
                one("builtin_left", [&] { return f(a, WU(b)); });
            };
            check_mixed("add", fitsP(Ap + Bp), [](auto x, auto y) { return x + y; });
            check_mixed("sub", fitsP(Ap - Bp), [](auto x, auto y) { return x - y; });
            check_mixed("mul", fitsP(Ap * Bp), [](auto x, auto y) { return x * y; });
            check_mixed("div", div_ok, [](auto x, auto y) { return x / y; });
            check_mixed("lt", true, [](auto x, auto y) { return x < y; });
            check_mixed("le", true, [](auto x, auto y) { return x <= y; });
            check_mixed("gt", true, [](auto x, auto y) { return x > y; });
            check_mixed("ge", true, [](auto x, auto y) { return x >= y; });
            check_mixed("eq", true, [](auto x, auto y) { return x == y; });
            check_mixed("ne", true, [](auto x, auto y) { return x != y; });
            // shifts: wrapped lhs, built-in count
            auto check_shift = [&](const char* op, bool defined, auto&& f) {
                if (!defined) {
                    vf::skip_pre();
                    return;
                }
                auto expect = f(a, b);
                using E = decltype(expect);
                if constexpr (requires { f(WT(a), b); }) {
                    using G = decltype(unwrap_all(f(WT(a), b)));
                    G got{};
                    vf::Outcome o = vf::run([&] { got = unwrap_all(f(WT(a), b)); });
                    vf::validated();
                    if (!o.ok() || !std::is_same_v<G, E> || Big(got) != Big(expect)) {
                        vf::outcome(o.ok() ? "wrong_shift" : o.str());
                        vf::violation(std::string(op) + "/" + (!o.ok() ? o.str() : (!std::is_same_v<G, E> ? "result_rep_type" : "value")), id(),
                                      id() + " " + op + ": got " + (o.ok() ? vf::to_s(got) + " (" + vf::tn<G>() + ")" : o.str()) + ", built-in gives " + vf::to_s(expect) + " (" + vf::tn<E>() + ")");
                    } else
                        vf::outcome(std::string("ok_") + op);
                } else
                    vf::outcome(std::string("unsupported_") + op);
            };
            check_shift("shl", shl_ok, [](auto x, auto y) { return x << y; });
            check_shift("shr", shcount, [](auto x, auto y) { return x >> y; });
            // the count wrapped as well, and a bare built-in shifted by a wrapped count: value and type of the built-in shift
            auto check_shift_wrapped_count = [&](const char* op, bool defined, auto&& f) {
                if (!defined) {
                    vf::skip_pre();
                    return;
                }
                auto expect = f(a, b);
                using E = decltype(expect);
                auto one = [&](const char* side, auto&& g) {
                    if constexpr (requires { unwrap_all(g()); }) {
                        using G = decltype(unwrap_all(g()));
                        G got{};
                        vf::Outcome o = vf::run([&] { got = unwrap_all(g()); });
                        vf::validated();
                        if (!o.ok() || !std::is_same_v<G, E> || Big(got) != Big(expect)) {
                            vf::outcome(o.ok() ? "wrong_shift" : o.str());
                            vf::violation(std::string(op) + "/" + side + "/" + (!o.ok() ? o.str() : (!std::is_same_v<G, E> ? "result_rep_type" : "value")), id(),
                                          id() + " " + op + " (" + side + "): got " + (o.ok() ? vf::to_s(got) + " (" + vf::tn<G>() + ")" : o.str()) + ", built-in gives " + vf::to_s(expect) + " (" + vf::tn<E>() + ")");
                        } else
                            vf::outcome(std::string("ok_") + op + "_" + side);
                    } else
                        vf::outcome(std::string("unsupported_") + op + "_" + side);
                };
                one("both_wrapped", [&] { return f(WT(a), WU(b)); });
                one("builtin_left_wrapped_count", [&] { return f(a, WU(b)); });
            };
            check_shift_wrapped_count("shl", shl_ok, [](auto x, auto y) { return x << y; });
            check_shift_wrapped_count("shr", shcount, [](auto x, auto y) { return x >> y; });
            // compound assignment: a op= b  ==  T(a op b)
            auto check_assign = [&](const char* op, bool defined, auto&& f) {
                if (!defined) {
                    vf::skip_pre();
                    return;
                }
                T expect = a;
                f(expect, b);
                if constexpr (requires(WT w) { f(w, WU(b)); }) {
                    T got{};
                    vf::Outcome o = vf::run([&] {
                        WT w(a);
                        f(w, WU(b));
                        got = unwrap_all(w);
                    });
                    vf::validated();
                    if (!o.ok() || got != expect) {
                        vf::outcome(o.ok() ? "wrong_assign" : o.str());
                        vf::violation(std::string(op) + "/" + (o.ok() ? "value" : o.str()), id(), id() + " " + op + ": got " + (o.ok() ? vf::to_s(got) : o.str()) + ", built-in gives " + vf::to_s(expect));
                    } else
                        vf::outcome(std::string("ok_") + op);
                } else
                    vf::outcome(std::string("unsupported_") + op);
                // a bare built-in on the LEFT of the compound form: k op= wrapper(b)  ==  k op= b
                if constexpr (requires(T k) { f(k, WU(b)); }) {
                    T got{};
                    vf::Outcome o = vf::run([&] {
                        T k = a;
                        f(k, WU(b));
                        got = k;
                    });
                    vf::validated();
                    if (!o.ok() || got != expect) {
                        vf::outcome(o.ok() ? "wrong_assign" : o.str());
                        vf::violation(std::string(op) + "/builtin_left/" + (o.ok() ? "value" : o.str()), id(), id() + " " + op + " (built-in left): got " + (o.ok() ? vf::to_s(got) : o.str()) + ", built-in gives " + vf::to_s(expect));
                    } else
                        vf::outcome(std::string("ok_") + op + "_builtin_left");
                }
            };
            check_assign("add_assign", fitsP(Ap + Bp), [](auto& x, auto y) { x += y; });
            check_assign("sub_assign", fitsP(Ap - Bp), [](auto& x, auto y) { x -= y; });
            check_assign("mul_assign", fitsP(Ap * Bp), [](auto& x, auto y) { x *= y; });
            check_assign("div_assign", div_ok, [](auto& x, auto y) { x /= y; });
            check_assign("mod_assign", div_ok, [](auto& x, auto y) { x %= y; });
            check_assign("and_assign", true, [](auto& x, auto y) { x &= y; });
            check_assign("or_assign", true, [](auto& x, auto y) { x |= y; });
            check_assign("xor_assign", true, [](auto& x, auto y) { x ^= y; });
        }
        // unary operators and ++/--
        {
            auto id = [&] { return vf::to_s(a); };
            if (vf::replaying() && !vf::case_selected(id())) continue;
            Big A(a);
            auto check1 = [&](const char* op, bool defined, auto&& f) {
                if (!defined) {
                    vf::skip_pre();
                    return;
                }
                auto expect = f(a);
                using E = decltype(expect);
                if constexpr (requires { f(WT(a)); }) {
                    using G = decltype(unwrap_all(f(WT(a))));
                    G got{};
                    vf::Outcome o = vf::run([&] { got = unwrap_all(f(WT(a))); });
                    vf::validated();
                    if (!o.ok() || !std::is_same_v<G, E> || Big(got) != Big(expect)) {
                        vf::outcome(o.ok() ? "wrong_unary" : o.str());
                        vf::violation(std::string(op) + "/" + (!o.ok() ? o.str() : (!std::is_same_v<G, E> ? "result_rep_type" : "value")), id(),
                                      id() + " " + op + ": got " + (o.ok() ? vf::to_s(got) + " (" + vf::tn<G>() + ")" : o.str()) + ", built-in gives " + vf::to_s(expect) + " (" + vf::tn<E>() + ")");
                    } else
                        vf::outcome(std::string("ok_") + op);
                } else
                    vf::outcome(std::string("unsupported_") + op);
            };
            bool neg_ok = !(vals::is_signed_v<PT> && Big(PT(a)) == Big(vals::min_v<PT>()));
            check1("neg", neg_ok, [](auto x) { return -x; });
            check1("plus", true, [](auto x) { return +x; });
            check1("not", true, [](auto x) { return ~x; });
            auto check_inc = [&](const char* op, bool defined, auto&& f) {
                if (!defined) {
                    vf::skip_pre();
                    return;
                }
                T e = a;
                T eret = f(e);
                T got{}, gret{};
                vf::Outcome o = vf::run([&] {
                    WT w(a);
                    gret = unwrap_all(f(w));
                    got = unwrap_all(w);
                });
                vf::validated();
                if (!o.ok() || got != e || gret != eret) {
                    vf::outcome(o.ok() ? "wrong_incdec" : o.str());
                    vf::violation(std::string(op) + "/" + (o.ok() ? "value" : o.str()), id(), id() + " " + op + ": got " + (o.ok() ? vf::to_s(got) + " returning " + vf::to_s(gret) : o.str()) + ", built-in gives " + vf::to_s(e) + " returning " + vf::to_s(eret));
                } else
                    vf::outcome(std::string("ok_") + op);
            };
            bool inc_ok = !(vals::is_signed_v<PT> && sizeof(T) >= sizeof(int) && a == vals::max_v<T>());
            bool dec_ok = !(vals::is_signed_v<PT> && sizeof(T) >= sizeof(int) && a == vals::min_v<T>());
            if constexpr (N::has_incdec) {
                check_inc("pre_inc", inc_ok, [](auto& x) { return ++x; });
                check_inc("pre_dec", dec_ok, [](auto& x) { return --x; });
                check_inc("post_inc", inc_ok, [](auto& x) { return x++; });
                check_inc("post_dec", dec_ok, [](auto& x) { return x--; });
            }
        }
    }
}

// ---- documentation kernels: scaled_integer expression == hand-written shift-and-operate code ------
template<class Rep, class Wide, int E>
[[gnu::noinline]] void prog_doc()
{
    using S = scaled_integer<Rep, power<E>>;
    using SW = scaled_integer<Wide, power<E>>;
    std::string name = std::string("doc_kernels<") + vf::tn<Rep>() + "," + vf::tn<Wide>() + "," + std::to_string(E) + ">";
    bool full = vals::is_full<Rep>(8);
    if (!vf::begin(name, full)) return;
    auto const As = vals::space<Rep>(8, VF_TIER ? 1 : 3);
    for (Rep a : As) {
        if (!vf::my_row()) continue;
        for (Rep b : As) {
            auto id = [&] { return vf::to_s(a) + "," + vf::to_s(b); };
            if (vf::replaying() && !vf::case_selected(id())) continue;
            S x = cnl::_impl::from_rep<S>(a), y = cnl::_impl::from_rep<S>(b);
            vf::counted(true);
            // multiply-widen: SW{x} * y   vs   Wide{a} * b  at exponent 2E
            {
                Big exact = Big(a) * Big(b);
                using R = decltype(SW{x} * y);
                if (exact.template fits_type<decltype(Wide{} * Rep{})>()) {
                    Big got;
                    vf::Outcome o = vf::run([&] { got = cv::int_value(cnl::_impl::to_rep(SW{x} * y)); });
                    vf::validated();
                    auto ref = Wide{a} * b;
                    bool type_ok = std::is_same_v<typename cv::scale_of<R>::rep, decltype(ref)> && cv::scale_of<R>::exponent == 2 * E;
                    if (!o.ok() || got != Big(ref) || !type_ok) vf::violation(std::string("multiply_widen/") + (!o.ok() ? o.str() : (type_ok ? "value" : "type")), id(), id() + ": multiply-widen kernel differs from int64{a}*b");
                    else
                        vf::outcome("ok_multiply_widen");
                } else
                    vf::skip_pre();
            }
            // average: (SW{x} + y) >> 1_c   vs   (Wide{a} + b), exponent E-1 (value /2 by re-labelling)
            {
                Big exact = Big(a) + Big(b);
                if (exact.template fits_type<decltype(Wide{} + Rep{})>()) {
                    auto sum = SW{x} + y;
                    auto avg = sum >> cnl::constant<1>{};
                    using R = decltype(avg);
                    Big got;
                    vf::Outcome o = vf::run([&] { got = cv::int_value(cnl::_impl::to_rep((SW{x} + y) >> cnl::constant<1>{})); });
                    vf::validated();
                    bool type_ok = cv::scale_of<R>::exponent == E - 1;
                    if (!o.ok() || got != exact || !type_ok) vf::violation(std::string("average/") + (!o.ok() ? o.str() : (type_ok ? "value" : "type")), id(), id() + ": average kernel differs from (int64{a}+b) at exponent E-1");
                    else
                        vf::outcome("ok_average");
                } else
                    vf::skip_pre();
            }
            // mixed-exponent add: S + scaled_integer<Rep, power<E+3>>  vs  a + (b << 3)
            {
                using S3 = scaled_integer<Rep, power<E + 3>>;
                S3 y3 = cnl::_impl::from_rep<S3>(b);
                using PR = decltype(+Rep{});
                Big bs = Big(b).shl(3);
                Big exact = Big(a) + bs;
                if (bs.template fits_type<PR>() && exact.template fits_type<PR>()) {
                    Big got;
                    vf::Outcome o = vf::run([&] { got = cv::int_value(cnl::_impl::to_rep(x + y3)); });
                    vf::validated();
                    using R = decltype(x + y3);
                    bool type_ok = cv::scale_of<R>::exponent == E && std::is_same_v<typename cv::scale_of<R>::rep, decltype(a + (b * 8))>;
                    if (!o.ok() || got != exact || !type_ok) vf::violation(std::string("mixed_exponent_add/") + (!o.ok() ? o.str() : (type_ok ? "value" : "type")), id(), id() + ": x + y(E+3) differs from a + (b << 3)");
                    else
                        vf::outcome("ok_mixed_exponent_add");
                } else
                    vf::skip_pre();
            }
        }
        // square
        {
            auto id = [&] { return vf::to_s(a); };
            if (vf::replaying() && !vf::case_selected(id())) continue;
            S x = cnl::_impl::from_rep<S>(a);
            Big exact = Big(a) * Big(a);
            if (exact.template fits_type<decltype(Wide{} * Rep{})>()) {
                Big got;
                vf::Outcome o = vf::run([&] { got = cv::int_value(cnl::_impl::to_rep(SW{x} * x)); });
                vf::validated();
                if (!o.ok() || got != exact) vf::violation(std::string("square/") + (o.ok() ? "value" : o.str()), id(), id() + ": square kernel differs from int64{a}*a");
                else
                    vf::outcome("ok_square");
            }
        }
    }
}

// ---- general scaled_integer<Rep, power<E, Radix>>: ++/-- == +-1, a op= b == S(a op b) ---------------
// ++x must add exactly one, i.e. Radix^-E units of the rep (E <= 0, one representable); the oracle is
// integer arithmetic on the rep. a op= b is compared with the library's own a op b converted back to S
// (the equivalence the property states); states on which that reference expression traps are skipped.
template<class Rep, int E, int Radix>
[[gnu::noinline]] void prog_scaled()
{
    using S = scaled_integer<Rep, power<E, Radix>>;
    std::string name = std::string("scaled_incdec_assign<") + vf::tn<Rep>() + "," + std::to_string(E) + "," + std::to_string(Radix) + ">";
    bool full = vals::is_full<Rep>(8);
    if (!vf::begin(name, full)) return;
    static_assert(E <= 0);
    Big one(1);
    for (int i = 0; i < -E; ++i) one = one * Big(Radix);
    bool const one_fits = one.template fits_type<Rep>();
    auto const As = vals::space<Rep>(8, VF_TIER ? 1 : 3);
    for (Rep a : As) {
        if (!vf::my_row()) continue;
        {
            auto id = [&] { return vf::to_s(a); };
            if (!(vf::replaying() && !vf::case_selected(id()))) {
                vf::counted(true);
                auto check_inc = [&](const char* op, int dir, bool post, auto&& f) {
                    Big exact = Big(a) + (dir > 0 ? one : -one);
                    // the promoted intermediate of Rep + Rep must hold the sum as well (built-in rule)
                    if (!one_fits || !exact.template fits_type<Rep>()) {
                        vf::skip_pre();
                        return;
                    }
                    Big got, gret;
                    vf::Outcome o = vf::run([&] {
                        S w = cnl::_impl::from_rep<S>(a);
                        S r = f(w);
                        gret = cv::int_value(cnl::_impl::to_rep(r));
                        got = cv::int_value(cnl::_impl::to_rep(w));
                    });
                    vf::validated();
                    Big eret = post ? Big(a) : exact;
                    if (!o.ok() || got != exact || gret != eret) {
                        vf::outcome(o.ok() ? "wrong_incdec" : o.str());
                        vf::violation(std::string(op) + "/" + (o.ok() ? (got != exact ? "value" : "returned") : o.str()), id(),
                                      id() + " " + op + ": rep becomes " + (o.ok() ? got.str() + " returning " + gret.str() : o.str()) + ", adding one gives rep " + exact.str() + " returning " + eret.str());
                    } else
                        vf::outcome(std::string("ok_") + op);
                };
                check_inc("pre_inc", +1, false, [](S& x) { return ++x; });
                check_inc("pre_dec", -1, false, [](S& x) { return --x; });
                check_inc("post_inc", +1, true, [](S& x) { return x++; });
                check_inc("post_dec", -1, true, [](S& x) { return x--; });
            }
        }
        // comparisons with a bare built-in integer k (either side): x OP k  ==  rep OP (k scaled to x's resolution), judged by value
        {
            std::vector<long long> ks = {0, 1, -1, 2, -2, 7, -8, 100, -100};
            {
                Big lo = Big(vals::min_v<Rep>()), hi = Big(vals::max_v<Rep>());
                for (Big const& lim : {lo, hi})
                    for (int d = -1; d <= 1; ++d) {
                        Big w = ref::floor_div(lim, one) + Big(d);  // whole numbers around the limits of the type
                        if (w.template fits_type<long long>()) ks.push_back(w.template to<long long>());
                    }
            }
            S x = cnl::_impl::from_rep<S>(a);
            Rat const xv = cv::value(x);
            for (long long kll : ks) {
                if (!Big(kll).template fits_type<int>()) continue;
                int k = int(kll);
                {
                    // the hand-written form is rep OP (k scaled to x's resolution) in the promoted rep type: k scaled must fit
                    // it (and int, the type the built-in operand is scaled in), and an unsigned promoted type converts a negative k first (out of scope here, by-value order is C03's)
                    using PRc = decltype(+Rep{});
                    if (!(Big(k) * one).template fits_type<PRc>() || !(Big(k) * one).template fits_type<int>() || (!vals::is_signed_v<PRc> && k < 0)) {
                        vf::skip_pre();
                        continue;
                    }
                }
                std::string const id = vf::to_s(a) + " cmp " + std::to_string(k);
                if (vf::replaying() && !vf::case_selected(id)) continue;
                int c = xv < Rat(Big(k)) ? -1 : (xv == Rat(Big(k)) ? 0 : 1);
                bool r[12] = {};
                vf::Outcome o = vf::run([&] {
                    r[0] = x < k; r[1] = x <= k; r[2] = x > k; r[3] = x >= k; r[4] = x == k; r[5] = x != k;
                    r[6] = k < x; r[7] = k <= x; r[8] = k > x; r[9] = k >= x; r[10] = k == x; r[11] = k != x;
                });
                vf::validated(12);
                bool const want[12] = {c < 0, c <= 0, c > 0, c >= 0, c == 0, c != 0, c > 0, c >= 0, c < 0, c <= 0, c == 0, c != 0};
                bool ok = o.ok();
                for (int i = 0; i < 12 && ok; ++i) ok = r[i] == want[i];
                if (!ok) {
                    vf::outcome(o.ok() ? "wrong_compare_builtin" : o.str());
                    vf::violation(std::string("compare_builtin/") + (o.ok() ? "value" : o.str()) + (c == 0 ? "/equal" : "/unequal"), id, id + ": comparisons of the scaled value " + xv.str() + " with the built-in disagree with the values");
                } else
                    vf::outcome("ok_compare_builtin");
            }
        }
        for (Rep b : As) {
            auto id = [&] { return vf::to_s(a) + "," + vf::to_s(b); };
            if (vf::replaying() && !vf::case_selected(id())) continue;
            vf::counted(true);
            auto check_assign = [&](const char* op, auto&& bin, auto&& asg) {
                S x = cnl::_impl::from_rep<S>(a), y = cnl::_impl::from_rep<S>(b);
                Big expect;
                vf::Outcome r = vf::run([&] { expect = cv::int_value(cnl::_impl::to_rep(S(bin(x, y)))); });
                if (!r.ok()) {
                    vf::skip_pre();
                    return;
                }
                Big got, gret;
                vf::Outcome o = vf::run([&] {
                    S w = x;
                    S ref = asg(w, y);
                    gret = cv::int_value(cnl::_impl::to_rep(ref));
                    got = cv::int_value(cnl::_impl::to_rep(w));
                });
                vf::validated();
                if (!o.ok() || got != expect || gret != expect) {
                    vf::outcome(o.ok() ? "wrong_assign" : o.str());
                    vf::violation(std::string(op) + "/" + (o.ok() ? "value" : o.str()), id(), id() + " " + op + ": rep becomes " + (o.ok() ? got.str() : o.str()) + ", S(a op b) has rep " + expect.str());
                } else
                    vf::outcome(std::string("ok_") + op);
            };
            check_assign("add_assign", [](S p, S q) { return p + q; }, [](S& p, S q) -> S { return p += q; });
            check_assign("sub_assign", [](S p, S q) { return p - q; }, [](S& p, S q) -> S { return p -= q; });
            check_assign("mul_assign", [](S p, S q) { return p * q; }, [](S& p, S q) -> S { return p *= q; });
            if (b != 0) check_assign("div_assign", [](S p, S q) { return p / q; }, [](S& p, S q) -> S { return p /= q; });
            else
                vf::skip_pre();
        }
    }
}

// ---- bitwise operators between scaled_integers of different exponents (and with a built-in operand) ----------
// hand-written form: align both reps to the smaller exponent m, apply the integer operator; the result is that
// integer at exponent m. Compared by VALUE (rep x 2^exponent), so a right rep under a wrong scale is seen.
template<class Rep, int E1, int E2>
[[gnu::noinline]] void prog_scaled_bitwise()
{
    using S1 = scaled_integer<Rep, power<E1>>;
    using S2 = scaled_integer<Rep, power<E2>>;
    constexpr int M = E1 < E2 ? E1 : E2;
    std::string name = std::string("scaled_bitwise<") + vf::tn<Rep>() + "," + std::to_string(E1) + "," + std::to_string(E2) + ">";
    bool full = vals::is_full<Rep>(8);
    if (!vf::begin(name, full)) return;
    using PR = decltype(+Rep{});
    auto const As = vals::space<Rep>(8, VF_TIER ? 1 : 3);
    for (Rep a : As) {
        if (!vf::my_row()) continue;
        for (Rep b : As) {
            auto id = [&] { return vf::to_s(a) + "," + vf::to_s(b); };
            if (vf::replaying() && !vf::case_selected(id())) continue;
            Big A = Big(a).shl(E1 - M), B = Big(b).shl(E2 - M);
            // the aligned operands must fit the promoted rep (the hand-written code shifts in that type), non-negative
            // operands only for signed reps (bitwise operators on negative values are implementation-defined territory)
            if (!A.template fits_type<PR>() || !B.template fits_type<PR>() || a < 0 || b < 0) {
                vf::skip_pre();
                continue;
            }
            vf::counted(E1 != E2);
            S1 x = cnl::_impl::from_rep<S1>(a);
            S2 y = cnl::_impl::from_rep<S2>(b);
            auto check = [&](const char* op, Big const& exact_rep, auto&& f) {
                Rat got;
                vf::Outcome o = vf::run([&] { got = cv::value(f()); });
                vf::validated();
                Rat want = Rat::scaled(exact_rep, 2, M);
                if (!o.ok() || got != want) {
                    vf::outcome(o.ok() ? "wrong_bitwise" : o.str());
                    vf::violation(std::string(op) + "/" + (o.ok() ? "value" : o.str()) + (E1 < E2 ? "/finer_left" : (E1 > E2 ? "/finer_right" : "/same_exponent")), id(),
                                  id() + " " + op + ": got " + (o.ok() ? got.str() : o.str()) + ", shift-and-operate gives " + want.str());
                } else
                    vf::outcome(std::string("ok_") + op);
            };
            auto bits = [](Big const& p, Big const& q, int op) {
                unsigned __int128 u = static_cast<unsigned __int128>(p.low128()), v = static_cast<unsigned __int128>(q.low128());
                unsigned __int128 r = op == 0 ? (u & v) : (op == 1 ? (u | v) : (u ^ v));
                return Big(r);
            };
            check("and", bits(A, B, 0), [&] { return x & y; });
            check("or", bits(A, B, 1), [&] { return x | y; });
            check("xor", bits(A, B, 2), [&] { return x ^ y; });
            if constexpr (E2 == 0) {
                // built-in right / left operand (exponent 0)
                check("and_builtin_right", bits(A, B, 0), [&] { return x & b; });
                check("or_builtin_left", bits(A, B, 1), [&] { return b | x; });
            }
        }
    }
}

template<class N>
void nest_group_a()
{
    prog<N, i8, i8>();
    prog<N, u8, u8>();
    prog<N, i16, i16>();
    prog<N, u16, u16>();
    prog<N, i32, i32>();
    prog<N, u32, u32>();
    prog<N, i64, i64>();
    prog<N, u64, u64>();
}
template<class N>
void nest_group_b()
{
    prog<N, i8, i32>();
    prog<N, i32, i8>();
    prog<N, u8, i16>();
    prog<N, i32, u32>();
    prog<N, u32, i32>();
    prog<N, i32, i64>();
    prog<N, i64, u32>();
    prog<N, u64, i64>();
    prog<N, i16, u64>();
    prog<N, i8, u8>();
}

static void group()
{
#if VF_PART == 0
    nest_group_a<NSI>();
#elif VF_PART == 1
    nest_group_b<NSI>();
#elif VF_PART == 2
    nest_group_a<NOV>();
#elif VF_PART == 3
    nest_group_b<NOV>();
#elif VF_PART == 4
    nest_group_a<NRN>();
#elif VF_PART == 5
    nest_group_b<NRN>();
#elif VF_PART == 6
    nest_group_a<NSIOV>();
#elif VF_PART == 7
    nest_group_b<NSIOV>();
#elif VF_PART == 8
    nest_group_a<NSIRN>();
#elif VF_PART == 9
    nest_group_b<NSIRN>();
#elif VF_PART == 10
    nest_group_a<NOVRN>();
#elif VF_PART == 11
    nest_group_b<NOVRN>();
#elif VF_PART == 12
    prog_doc<i8, i16, -4>();
    prog_doc<i8, i32, 0>();
    prog_doc<i16, i32, -8>();
    prog_doc<i32, i64, -16>();
    prog_doc<u8, u16, -3>();
    prog_doc<u32, u64, -16>();
    prog_doc<i32, i64, 5>();
#elif VF_PART == 13
    prog_scaled<i8, 0, 2>();
    prog_scaled<i8, -3, 2>();
    prog_scaled<u8, -7, 2>();
    prog_scaled<i8, -1, 10>();
    prog_scaled<u8, -2, 10>();
    prog_scaled<i8, -2, 3>();
    prog_scaled<u8, -1, 16>();
    prog_scaled<i16, -8, 2>();
    prog_scaled<i16, -2, 10>();
    prog_scaled<i16, -4, 8>();
    prog_scaled<i32, -16, 2>();
    prog_scaled<i32, -3, 10>();
    prog_scaled<u32, -5, 3>();
    prog_scaled<i64, -20, 2>();
    prog_scaled<i64, -6, 10>();
#elif VF_PART == 14
    prog_scaled_bitwise<u8, -3, 0>();
    prog_scaled_bitwise<u8, 0, -3>();
    prog_scaled_bitwise<i8, -2, 0>();
    prog_scaled_bitwise<u8, -1, -4>();
    prog_scaled_bitwise<u8, 2, 2>();
    prog_scaled_bitwise<u16, -8, 0>();
    prog_scaled_bitwise<u16, 0, -8>();
    prog_scaled_bitwise<i32, -8, 0>();
    prog_scaled_bitwise<u32, -4, -12>();
    prog_scaled_bitwise<u64, -16, 0>();
#endif
}
VF_GROUP(group);
VF_MAIN()
