// C10 — wide_integer is N-bit two's-complement arithmetic, independent of the limb type.
//
// Two enumerations (DESIGN.md sec. 8, C10):
//  (A) small-scope instantiation of the SAME limb code: the vendored class
//      cnl::_impl::math::wide_integer::uintwide_t<Width2, LimbType, void, IsSigned>
//      * <16, uint8_t>, signed and unsigned: thorough = ALL 2^32 operand pairs (quick: the 2^12 x 2^12
//        sub-grid whose bytes are drawn from {00..0f, 70..8f, f0..ff}) for + - * / % & | ^ and the
//        six comparisons; all 2^16 values x all shift counts, unary - ~ ++ --, conversions to/from
//        every built-in integer type and float/double/long double, decimal text, numeric_limits;
//      * <24|32, uint8_t>, <32|48|64, uint16_t>, <64|96|128, uint32_t>, <128, uint64_t> over the
//        full limb lattice (every limb from {00,01,02,7f,80,81,fe,ff} scaled to the limb width).
//      Oracle: 64/128-bit unsigned arithmetic reduced to N bits (reduction written out here).
//  (B) real widths through the public type cnl::wide_integer<Digits, Narrowest>, every Narrowest
//      of 8/16/32/64 bits run on the SAME mathematical operands (limb independence); operands from
//      the limb lattice with <= 1 (quick) / <= 2 (thorough) foreground limbs over a 00.. or ff..
//      background, plus the extremes of the storage range of each type. Oracle: BigInt reduced to
//      the N bits of the type's storage.
// Preconditions (decided exactly, before the library runs): divisor != 0, shift count in [0, N);
// to_chars: value >= -max (documented); from floating point: value representable.
#include "C10_util.h"

#include <cnl/wide_integer.h>

#include <sstream>
#include <tuple>

// compile-time facts about the tree under test, established by try-compiling snippets (checks/C10.py);
// the defaults below are what the pinned tree gives
#if __has_include("c10_probe.inc")
#include "c10_probe.inc"
#else
#define C10_HAVE_PUBLIC_NOT 0
#define C10_HAVE_TO_CHARS_SIGNED 1
#define C10_HAVE_TO_CHARS_UNSIGNED 0
#define C10_HAVE_MIXED_WIDTH_ARITH 0
#define C10_HAVE_MIXED_WIDTH_CMP_REL 1
#define C10_HAVE_MIXED_WIDTH_CMP_EQ 1
#define C10_HAVE_MIXED_SIGN_ARITH 0
#define C10_HAVE_OR_XOR_BUILTIN 0
#define C10_BAD_TYPES {2048, 1, 32},
#endif

using namespace c10;
namespace wi = cnl::_impl::math::wide_integer;

struct BadType {
    int digits, is_signed, limb_bits;
};
constexpr BadType c10_bad_types[] = {C10_BAD_TYPES{0, 0, 0}};
constexpr bool c10_is_bad(int d, bool s, int l)
{
    for (auto const& b : c10_bad_types)
        if (b.digits == d && bool(b.is_signed) == s && b.limb_bits == l) return true;
    return false;
}

static inline void add_outcome(const char* name, uint64_t n)
{
    if (n) vf::g.cur->outcomes[name] += n;
}

// replay: case ids of the hot programs are "a,b" (bit patterns in hex); parse instead of scanning
static inline bool parse_hex_pair(std::string const& s, u128& a, u128& b)
{
    auto rd = [](const char* p, const char** end) {
        u128 v = 0;
        if (p[0] == '0' && p[1] == 'x') p += 2;
        for (; *p; ++p) {
            int d;
            if (*p >= '0' && *p <= '9') d = *p - '0';
            else if (*p >= 'a' && *p <= 'f') d = *p - 'a' + 10;
            else break;
            v = (v << 4) | unsigned(d);
        }
        *end = p;
        return v;
    };
    const char* e;
    a = rd(s.c_str(), &e);
    if (*e != ',') return false;
    b = rd(e + 1, &e);
    return true;
}
static inline std::string hex128(u128 v)
{
    char b[40];
    if (v >> 64) snprintf(b, sizeof b, "0x%llx%016llx", (unsigned long long)(v >> 64), (unsigned long long)v);
    else snprintf(b, sizeof b, "0x%llx", (unsigned long long)v);
    return b;
}

// =============================================================================================
// (A) the vendored class, directly

template<class T>
struct uw;
template<wi::size_t Wd, class L, class A, bool S>
struct uw<wi::uintwide_t<Wd, L, A, S>> {
    static constexpr int width = int(Wd);
    static constexpr int lbits = int(sizeof(L) * 8);
    static constexpr int nlimbs = width / lbits;
    static constexpr bool is_signed = S;
    using limb = L;
};

template<class T>
inline T uw_make(u128 bits)
{
    T t;
    auto& r = t.representation();
    for (int i = 0; i < uw<T>::nlimbs; ++i) r[unsigned(i)] = typename uw<T>::limb(bits >> (i * uw<T>::lbits));
    return t;
}
template<class T>
inline u128 uw_bits(T const& t)
{
    u128 v = 0;
    auto const& r = t.crepresentation();
    for (int i = 0; i < uw<T>::nlimbs; ++i) v |= u128(r[unsigned(i)]) << (i * uw<T>::lbits);
    return v;
}

// oracle word: unsigned arithmetic mod 2^64 or 2^128, then reduced to Width bits
template<int Width, bool S>
struct Orc {
    using U = std::conditional_t<(Width <= 32), uint64_t, u128>;
    static constexpr int B = int(sizeof(U) * 8);
    static constexpr U mask = Width == B ? ~U(0) : ((U(1) << (Width % B)) - U(1));
    static constexpr U signbit = U(1) << (Width - 1);
    static U red(U x) { return x & mask; }
    static bool neg(U x) { return S && (x & signbit); }
    // sign- or zero-extension of a Width-bit pattern to the oracle word
    static U ext(U x) { return neg(x) ? (x | ~mask) : x; }
    static U mag(U x) { return neg(x) ? red(U(0) - x) : x; }
    static U add(U a, U b) { return red(ext(a) + ext(b)); }
    static U sub(U a, U b) { return red(ext(a) - ext(b)); }
    static U mul(U a, U b) { return red(ext(a) * ext(b)); }
    // truncating division of the denoted integers, reduced (lowest / -1 -> lowest)
    static U div(U a, U b)
    {
        U q = mag(a) / mag(b);
        return (neg(a) != neg(b)) ? red(U(0) - q) : red(q);
    }
    static U mod(U a, U b)
    {
        U r = mag(a) % mag(b);
        return neg(a) ? red(U(0) - r) : r;
    }
    static bool lt(U a, U b) { return S ? ((a ^ signbit) < (b ^ signbit)) : (a < b); }
    static U shl(U a, int c) { return red(a << c); }
    static U shr(U a, int c) { return red(neg(a) ? ~(~ext(a) >> c) : (a >> c)); }
    static U neg_(U a) { return red(U(0) - a); }
    static U not_(U a) { return red(~a); }
    // denoted integer as text
    static std::string str(U a) { return neg(a) ? ("-" + vf::to_s(u128(mag(a)))) : vf::to_s(u128(a)); }
    static Big big(U a) { return neg(a) ? -Big(u128(mag(a))) : Big(u128(a)); }
};

template<class T>
static const char* quad_of(u128 a, u128 b)
{
    using O = Orc<uw<T>::width, uw<T>::is_signed>;
    if (!uw<T>::is_signed) return "u";
    bool an = O::neg(typename O::U(a)), bn = O::neg(typename O::U(b));
    return an ? (bn ? "nn" : "np") : (bn ? "pn" : "pp");
}
// how many limbs the magnitude of the divisor occupies: "d1" takes the single-limb path
template<class T>
static const char* divisor_class(u128 b)
{
    using O = Orc<uw<T>::width, uw<T>::is_signed>;
    u128 m = O::mag(typename O::U(b));
    return (m >> uw<T>::lbits) ? "dN" : "d1";
}

// slow path: one operator at a time, to attribute a mismatch or a trap
template<class T>
[[gnu::noinline]] static void vend_diagnose_pair(u128 ab, u128 bb)
{
    using O = Orc<uw<T>::width, uw<T>::is_signed>;
    using U = typename O::U;
    U a = U(ab), b = U(bb);
    T A = uw_make<T>(ab), B = uw_make<T>(bb);
    std::string id = hex128(ab) + "," + hex128(bb);
    std::string what = "uintwide_t<" + std::to_string(uw<T>::width) + ",uint" + std::to_string(uw<T>::lbits) + "_t,void," + (uw<T>::is_signed ? "true" : "false") + "> a=" + O::str(a) + " b=" + O::str(b);
    auto one = [&](const char* op, std::string const& cls, auto&& f, U expect) {
        U got = 0;
        vf::Outcome o = vf::run([&] { got = U(uw_bits(f())); });
        if (!o.ok()) vf::violation(std::string(op) + "/" + vf::kind_name(o.kind) + "/" + cls, id, what + ": a " + op + " b -> " + o.str() + ", expected " + O::str(expect));
        else if (got != expect) vf::violation(std::string(op) + "/value/" + cls, id, what + ": a " + op + " b = " + O::str(got) + ", expected " + O::str(expect));
    };
    auto oneb = [&](const char* op, auto&& f, bool expect) {
        bool got = false;
        vf::Outcome o = vf::run([&] { got = f(); });
        if (!o.ok()) vf::violation(std::string("cmp_") + op + "/" + vf::kind_name(o.kind) + "/" + quad_of<T>(ab, bb), id, what + ": a " + op + " b -> " + o.str());
        else if (got != expect) vf::violation(std::string("cmp_") + op + "/value/" + quad_of<T>(ab, bb), id, what + ": a " + op + " b = " + vf::to_s(got) + ", expected " + vf::to_s(expect));
    };
    std::string q = quad_of<T>(ab, bb);
    one("add", q, [&] { return A + B; }, O::add(a, b));
    one("sub", q, [&] { return A - B; }, O::sub(a, b));
    one("mul", q, [&] { return A * B; }, O::mul(a, b));
    if (b != 0) {
        one("div", q + "/" + divisor_class<T>(bb), [&] { return A / B; }, O::div(a, b));
        one("mod", q + "/" + divisor_class<T>(bb), [&] { return A % B; }, O::mod(a, b));
    }
    one("and", q, [&] { return A & B; }, U(a & b));
    one("or", q, [&] { return A | B; }, U(a | b));
    one("xor", q, [&] { return A ^ B; }, U(a ^ b));
    oneb("lt", [&] { return A < B; }, O::lt(a, b));
    oneb("le", [&] { return A <= B; }, !O::lt(b, a));
    oneb("gt", [&] { return A > B; }, O::lt(b, a));
    oneb("ge", [&] { return A >= B; }, !O::lt(a, b));
    oneb("eq", [&] { return A == B; }, a == b);
    oneb("ne", [&] { return A != B; }, a != b);
}

// all pairs of `vals` (bit patterns) through the 8 binary operators and 6 comparisons; lean
template<class T>
[[gnu::noinline]] static void prog_vend_binary(std::string const& name, std::vector<u128> const& vals_, std::vector<u128> const& valsb_, bool full)
{
    using O = Orc<uw<T>::width, uw<T>::is_signed>;
    using U = typename O::U;
    if (!vf::begin(name, full)) return;
    std::vector<U> V, VB;
    for (u128 v : vals_) V.push_back(U(v));
    for (u128 v : valsb_) VB.push_back(U(v));
    bool replay = vf::replaying();
    u128 ra = 0, rb = 0;
    if (replay && !parse_hex_pair(vf::g.replay_case, ra, rb)) return;
    constexpr int lb = uw<T>::lbits;
    for (U a : V) {
        if (replay) {
            if (u128(a) != ra) continue;
        } else if (!vf::my_row())
            continue;
        T const A = uw_make<T>(a);
        uint64_t n_cases = 0, n_nontrivial = 0, n_wrap = 0, n_nowrap = 0, n_div0 = 0, n_valid = 0, n_viol = 0;
        bool a_multi = (O::mag(a) >> (lb - 1)) != 0 || O::neg(a);
        for (U b : VB) {
            if (replay && u128(b) != rb) continue;
            T const B = uw_make<T>(b);
            U g_add = 0, g_sub = 0, g_mul = 0, g_div = 0, g_mod = 0, g_and = 0, g_or = 0, g_xor = 0;
            unsigned g_cmp = 0;
            bool const divok = b != 0;
            vf::Outcome o = vf::run([&] {
                g_add = U(uw_bits(A + B));
                g_sub = U(uw_bits(A - B));
                g_mul = U(uw_bits(A * B));
                if (divok) {
                    g_div = U(uw_bits(A / B));
                    g_mod = U(uw_bits(A % B));
                }
                g_and = U(uw_bits(A & B));
                g_or = U(uw_bits(A | B));
                g_xor = U(uw_bits(A ^ B));
                g_cmp = unsigned(A < B) | unsigned(A <= B) << 1 | unsigned(A > B) << 2 | unsigned(A >= B) << 3 | unsigned(A == B) << 4 | unsigned(A != B) << 5;
            });
            bool lt = O::lt(a, b), gt = O::lt(b, a);
            unsigned e_cmp = unsigned(lt) | unsigned(!gt) << 1 | unsigned(gt) << 2 | unsigned(!lt) << 3 | unsigned(a == b) << 4 | unsigned(a != b) << 5;
            U e_add = O::add(a, b), e_mul = O::mul(a, b);
            bool good = o.ok() && g_add == e_add && g_sub == O::sub(a, b) && g_mul == e_mul && g_and == U(a & b) && g_or == U(a | b) && g_xor == U(a ^ b) && g_cmp == e_cmp;
            if (divok) good = good && g_div == O::div(a, b) && g_mod == O::mod(a, b);
            else
                ++n_div0;
            ++n_cases;
            n_valid += divok ? 14 : 12;
            bool b_multi = (O::mag(b) >> (lb - 1)) != 0 || O::neg(b);
            if (a != 0 && b != 0 && (a_multi || b_multi)) ++n_nontrivial;
            // did the exact sum (or, where the oracle word holds it, the exact product) leave the N-bit range?
            bool wrapped = (O::ext(a) + O::ext(b) != O::ext(e_add)) || (O::B >= 2 * uw<T>::width && O::ext(a) * O::ext(b) != O::ext(e_mul));
            if (!good) {
                ++n_viol;
                vend_diagnose_pair<T>(a, b);
            } else if (wrapped)
                ++n_wrap;
            else
                ++n_nowrap;
            if (replay) fprintf(stderr, "replay %s: add=%s mul=%s div=%s mod=%s cmp=%02x good=%d\n", (hex128(a) + "," + hex128(b)).c_str(), O::str(g_add).c_str(), O::str(g_mul).c_str(), O::str(g_div).c_str(), O::str(g_mod).c_str(), g_cmp, int(good));
        }
        vf::g.cur->evals += n_cases;
        vf::g.cur->nontrivial += n_nontrivial;
        vf::g.cur->skipped += n_div0;
        vf::validated(n_valid);
        add_outcome("ok_binary_sum_or_product_wrapped", n_wrap);
        add_outcome("ok_binary_exact_in_range", n_nowrap);
        add_outcome("wrong_or_trapped", n_viol);
        if (vf::g.cur->samples.size() < 3 && !VB.empty()) {
            U b = VB[VB.size() / 3];
            vf::sample(hex128(a) + "," + hex128(b) + " -> a*b=" + O::str(O::mul(a, b)) + (b ? " a/b=" + O::str(O::div(a, b)) : ""));
        }
    }
}

#include "C10_vend.h"
#include "C10_wide.h"

VF_MAIN()
