// common.h — shared by all harnesses: engine, reference, value spaces (full types and the stated
// boundary lattices of DESIGN.md sec. 2).
#pragma once
#include "ref/big.h"
#include "ref/floatx.h"
#include "vf.h"

#include <algorithm>
#include <limits>
#include <set>
#include <type_traits>
#include <vector>

#ifndef VF_TIER
#define VF_TIER 0  // 0 quick, 1 thorough
#endif
#ifndef VF_PART
#define VF_PART 0
#endif

using i8 = signed char;
using u8 = unsigned char;
using i16 = short;
using u16 = unsigned short;
using i32 = int;
using u32 = unsigned;
using i64 = long;
using u64 = unsigned long;
using i128 = __int128;
using u128 = unsigned __int128;

using ref::Big;
using ref::Rat;

struct BigLess {
    template<int N>
    bool operator()(ref::BigT<N> const& a, ref::BigT<N> const& b) const { return ref::BigT<N>::cmp(a, b) < 0; }
};

namespace vals {

template<class T>
inline constexpr bool is_int_v = std::is_integral_v<T> || std::is_same_v<T, i128> || std::is_same_v<T, u128>;
template<class T>
inline constexpr bool is_signed_v = std::is_signed_v<T> || std::is_same_v<T, i128>;
template<class T>
inline constexpr int bits_v = int(sizeof(T) * 8);
template<class T>
constexpr T max_v()
{
    if constexpr (is_signed_v<T>) return T((u128(1) << (bits_v<T> - 1)) - 1);
    else return T(~T(0));
}
template<class T>
constexpr T min_v()
{
    if constexpr (is_signed_v<T>) return T(-max_v<T>() - 1);
    else return T(0);
}

// every value of T (T at most 16 bits wide)
template<class T>
std::vector<T> full()
{
    static_assert(sizeof(T) <= 2);
    std::vector<T> v;
    for (long x = long(min_v<T>()); x <= long(max_v<T>()); ++x) v.push_back(T(x));
    return v;
}

// B0(T): the boundary lattice. step = stride over k in 2^k (1 = every k)
template<class T>
std::vector<T> lattice(int step = 1)
{
    std::set<Big, BigLess> s;
    auto add = [&](Big const& b) {
        if (b.fits(bits_v<T>, is_signed_v<T>)) s.insert(b);
    };
    Big mx(max_v<T>()), mn(min_v<T>());
    for (int d = 0; d <= 3; ++d) {
        add(Big(d));
        add(-Big(d));
        add(mx - Big(d));
        add(mn + Big(d));
    }
    add(mx / Big(2));
    add(mx / Big(2) + Big(1));
    add(mn / Big(2));
    add(mn / Big(2) - Big(1));
    for (int k = 1; k < bits_v<T>; k += step)
        for (int d = -1; d <= 1; ++d) {
            Big p = Big::pow2(k) + Big(d);
            add(p);
            add(-p);
        }
    // alternating patterns
    for (unsigned pat : {0x55u, 0xAAu, 0x33u, 0x0Fu, 0xCCu}) {
        Big p(0);
        for (int i = 0; i < bits_v<T> / 8; ++i) p = p.shl(8) + Big(pat);
        add(p);
        add(-p);
        add(ref::wrap_twos(p, bits_v<T>, is_signed_v<T>));
        add(p.shr_trunc(1));
    }
    std::vector<T> v;
    for (auto const& b : s) v.push_back(b.template to<T>());
    return v;
}

// full type when narrow (<= maxfullbits), lattice otherwise
template<class T>
std::vector<T> space(int maxfullbits, int step = 1)
{
    if constexpr (sizeof(T) <= 2) {
        if (bits_v<T> <= maxfullbits) return full<T>();
    }
    return lattice<T>(step);
}
template<class T>
bool is_full(int maxfullbits)
{
    return bits_v<T> <= maxfullbits && sizeof(T) <= 2;
}

template<class T>
void add_if_fits(std::vector<T>& v, Big const& b)
{
    if (b.fits(bits_v<T>, is_signed_v<T>)) v.push_back(b.template to<T>());
}
template<class T>
void sort_unique(std::vector<T>& v)
{
    std::sort(v.begin(), v.end());
    v.erase(std::unique(v.begin(), v.end()), v.end());
}

}  // namespace vals

template<class T>
Big big(T v)
{
    return Big(v);
}

// type-list iteration helpers
template<class... Ts>
struct types {
};
template<class F, class... Ts>
void for_types(types<Ts...>, F&& f)
{
    (f(std::type_identity<Ts>{}), ...);
}
template<class F, class... As, class... Bs>
void for_type_pairs(types<As...> a, types<Bs...>, F&& f)
{
    auto inner = [&](auto ta) { (f(ta, std::type_identity<Bs>{}), ...); };
    (inner(std::type_identity<As>{}), ...);
}
