// C16 — cnl::fraction follows the rationals.
//
// State space
//   bin8      fraction<i8> x fraction<i8>, state = (n1,d1,n2,d2, operator group in {+,-,*,/,cmp}).
//             thorough: ALL 2^32 operand tuples; quick: the complete 4-fold product of the 56-value
//             sub-lattice SUB8 below. Components promote to int inside the operators, so every cross
//             product fits: the only preconditions are d1,d2 != 0 (and n2 != 0 for '/').
//   bin<..>   fraction<LN,LD> x fraction<RN,RD> for 16/32/64-bit and mixed component types over
//             B0 lattices, the innermost component (n2) additionally closed under the pre-images of
//             "cross product / sum / difference hits the limit of the arithmetic type" (+-1).
//   single<..> one fraction (n,d): unary + and -, conversion to float/double/long double, reduce,
//             canonical, std::hash.  fraction<i8>: all 2^16; wider: lattice^2 closed under common
//             multipliers (so that gcd > 1 occurs).
// Oracle: integer cross-multiplication (a/b == c/d  <=>  a*d == c*b, b,d != 0) in __int128 (bin8) or
// Big (everything else); order = sign(n1*d2 - n2*d1) * sign(d1) * sign(d2); floating conversion =
// RN_F(RN_F(n) / RN_F(d)) computed by the exact FloatX reference, i.e. "numerator/denominator in F".
// Preconditions (decided exactly before CNL runs): denominators != 0; every component product the
// operator forms fits the type it is formed in (decltype of the built-in product), and their
// sum/difference fits the type of that sum; unary minus: -n fits the promoted type; reduce/canonical/
// hash: the std::gcd contract (|n|, |d| representable in common_type_t<N,D>), and for canonical the
// negation of the reduced components fits their type.
#include "common.h"

#include <cnl/fraction.h>

#include <cmath>
#include <functional>
#include <numeric>
#include <utility>

namespace c16 {

enum { ADD, SUB, MUL, DIV, LT, GT, LE, GE, EQ, NE };
static const char* const OPN[10] = {"add", "sub", "mul", "div", "lt", "gt", "le", "ge", "eq", "ne"};
static const char* const OPS[10] = {"+", "-", "*", "/", "<", ">", "<=", ">=", "==", "!="};

// ---------------------------------------------------------------------------------------------
// cheap case ids and violation accounting for loops with up to 2^32 cases (a defect in a comparison
// operator produces ~10^9 violating cases: only the first CAP per class go through vf::violation,
// the rest are added to the class's count and digest when the program ends)

inline char* put_int(char* p, long v)
{
    unsigned long u = v < 0 ? 0ul - (unsigned long)v : (unsigned long)v;
    char t[24];
    int i = 0;
    do {
        t[i++] = char('0' + u % 10);
        u /= 10;
    } while (u);
    if (v < 0) *p++ = '-';
    while (i) *p++ = t[--i];
    return p;
}
inline int id4(char* buf, long n1, long d1, long n2, long d2)
{
    char* p = put_int(buf, n1);
    *p++ = '/';
    p = put_int(p, d1);
    *p++ = ',';
    p = put_int(p, n2);
    *p++ = '/';
    p = put_int(p, d2);
    *p = 0;
    return int(p - buf);
}
inline uint64_t fnv_buf(const char* s, size_t n)  // == vf::fnv
{
    uint64_t h = 1469598103934665603ull;
    for (size_t i = 0; i < n; ++i) {
        h ^= (unsigned char)s[i];
        h *= 1099511628211ull;
    }
    return h;
}

struct FastClass {
    std::string key;
    uint64_t seen = 0, extra = 0, digest = 0;
    static constexpr uint64_t CAP = 400;  // engine's case cap per class
    template<class Detail>
    void hit(const char* id, size_t idlen, Detail&& detail)
    {
        if (seen++ < CAP) {
            vf::violation(key, std::string(id, idlen), detail());
            return;
        }
        ++extra;
        digest += fnv_buf(id, idlen);
    }
    void flush()
    {
        if (!extra) return;
        vf::ViolationClass& v = vf::g.cur->viol[key];
        v.count += extra;
        v.digest += digest;
        extra = digest = 0;
    }
};
inline void add_outcome(std::string const& k, uint64_t n)
{
    if (n) vf::g.cur->outcomes[k] += n;
}

struct Sampler {
    uint64_t n = 0;
    bool want()
    {
        uint64_t k = n++;
        return vf::g.cur->samples.size() < 6 && (k & (k - 1)) == 0 && (k <= 1 || k >= 64);
    }
};

inline bool cmp_exp(int op, int sg)
{
    switch (op) {
    case LT: return sg < 0;
    case GT: return sg > 0;
    case LE: return sg <= 0;
    case GE: return sg >= 0;
    case EQ: return sg == 0;
    default: return sg != 0;
    }
}
static const char* const ORD[3] = {"lt", "eq", "gt"};
static const char* const SGN[3] = {"neg", "zero", "pos"};

// ---------------------------------------------------------------------------------------------
// the real CNL expressions

template<class V>
struct Res {
    V n[4]{}, d[4]{};
    bool c[6]{};
};

template<class V, class FA, class FB>
inline void cnl_one(int op, FA const& a, FB const& b, Res<V>& r)
{
    switch (op) {
    case ADD: {
        auto s = a + b;
        r.n[0] = s.numerator;
        r.d[0] = s.denominator;
        break;
    }
    case SUB: {
        auto s = a - b;
        r.n[1] = s.numerator;
        r.d[1] = s.denominator;
        break;
    }
    case MUL: {
        auto s = a * b;
        r.n[2] = s.numerator;
        r.d[2] = s.denominator;
        break;
    }
    case DIV: {
        auto s = a / b;
        r.n[3] = s.numerator;
        r.d[3] = s.denominator;
        break;
    }
    case LT: r.c[0] = a < b; break;
    case GT: r.c[1] = a > b; break;
    case LE: r.c[2] = a <= b; break;
    case GE: r.c[3] = a >= b; break;
    case EQ: r.c[4] = a == b; break;
    case NE: r.c[5] = a != b; break;
    }
}

template<class V, class FA, class FB>
inline void cnl_all(FA const& a, FB const& b, bool with_div, Res<V>& r)
{
    cnl_one(ADD, a, b, r);
    cnl_one(SUB, a, b, r);
    cnl_one(MUL, a, b, r);
    if (with_div) cnl_one(DIV, a, b, r);
    cnl_one(LT, a, b, r);
    cnl_one(GT, a, b, r);
    cnl_one(LE, a, b, r);
    cnl_one(GE, a, b, r);
    cnl_one(EQ, a, b, r);
    cnl_one(NE, a, b, r);
}

// ---------------------------------------------------------------------------------------------
// fraction<i8> x fraction<i8>: the hot loop (2^32 tuples in thorough). __int128 oracle only.

// SUB8: boundary sub-lattice of int8 used by the quick tier (56 values)
inline std::vector<i8> sub_lattice8()
{
    std::vector<i8> v;
    for (int m : {1, 2, 3, 4, 5, 6, 7, 8, 9, 10, 12, 15, 16, 17, 31, 32, 33, 51, 63, 64, 65, 85, 100, 125, 126, 127}) {
        v.push_back(i8(m));
        v.push_back(i8(-m));
    }
    for (int x : {0, -128, -86, -52}) v.push_back(i8(x));
    vals::sort_unique(v);
    return v;
}

[[gnu::noinline]] static void prog_bin8(std::string const& name, std::vector<i8> const& comp, bool full)
{
    using F = cnl::fraction<i8>;
    if (!vf::begin(name, full)) return;
    const bool rp = vf::replaying();
    long q1 = 0, q2 = 0, q3 = 0, q4 = 0;
    const bool rp_ok = rp && sscanf(vf::g.replay_case.c_str(), "%ld/%ld,%ld/%ld", &q1, &q2, &q3, &q4) == 4;

    FastClass fval[4], fcmp[6][2], fhash;
    for (int op = 0; op < 4; ++op) fval[op].key = std::string("value/") + OPN[op];
    for (int k = 0; k < 6; ++k)
        for (int j = 0; j < 2; ++j) fcmp[k][j].key = std::string("cmp/") + OPN[4 + k] + "/neg_denominator=" + (j ? "1" : "0");
    fhash.key = "hash/cnl_equal_but_hash_differs";
    uint64_t ok_ar[4][3] = {}, ok_cmp[3][2] = {}, wrong = 0, ok_hash = 0;
    Sampler smp;
    char idb[64];

    for (i8 n1 : comp)
        for (i8 d1 : comp) {
            if (!vf::my_row()) continue;
            if (rp && !(rp_ok && n1 == q1 && d1 == q2)) continue;
            for (i8 n2 : comp)
                for (i8 d2 : comp) {
                    if (rp && !(n2 == q3 && d2 == q4)) continue;
                    if (d1 == 0 || d2 == 0) {
                        for (int k = 0; k < 5; ++k) vf::skip_pre();
                        continue;
                    }
                    const bool div = n2 != 0;
                    const bool nt = n1 != 0 && n2 != 0 && !((d1 == 1 || d1 == -1) && (d2 == 1 || d2 == -1));
                    Res<long> r;
                    unsigned mask = div ? 0x3FFu : 0x3F7u;
                    vf::Outcome o = vf::run([&] { cnl_all(F{n1, d1}, F{n2, d2}, div, r); });
                    if (!o.ok()) {
                        // attribute the abnormal outcome to the operator(s) that produce it
                        for (int op = 0; op < 10; ++op) {
                            if (!(mask >> op & 1)) continue;
                            vf::Outcome o1 = vf::run([&] { cnl_one(op, F{n1, d1}, F{n2, d2}, r); });
                            if (o1.ok()) continue;
                            mask &= ~(1u << op);
                            vf::validated();
                            if (op < 4) vf::counted(nt);
                            vf::outcome(o1.str());
                            int len = id4(idb, n1, d1, n2, d2);
                            vf::violation(std::string(OPN[op]) + "/" + vf::kind_name(o1.kind), std::string(idb, len),
                                          std::string(idb, len) + " operator" + OPS[op] + ": " + o1.str());
                        }
                    }
                    const i128 N1 = n1, D1 = d1, N2 = n2, D2 = d2;
                    const i128 x = N1 * D2, y = N2 * D1, dd = D1 * D2;
                    const i128 EN[4] = {x + y, x - y, N1 * N2, x}, ED[4] = {dd, dd, dd, D1 * N2};
                    const i128 df = x - y;
                    int sg = (df > 0) - (df < 0);
                    if (dd < 0) sg = -sg;
                    const int nd = (d1 < 0) != (d2 < 0);
                    if (smp.want()) {
                        int len = id4(idb, n1, d1, n2, d2);
                        vf::sample(std::string(idb, len) + " -> sum " + vf::to_s(r.n[0]) + "/" + vf::to_s(r.d[0]) + " (exact " + vf::to_s(EN[0]) + "/" + vf::to_s(ED[0]) + "), operator< " + vf::to_s(r.c[0]) + " (rational order: " + ORD[sg + 1] + ")");
                    }
                    for (int op = 0; op < 4; ++op) {
                        if (op == DIV && !div) {
                            vf::skip_pre();
                            continue;
                        }
                        if (!(mask >> op & 1)) continue;
                        vf::validated();
                        vf::counted(nt);
                        const bool good = r.d[op] != 0 && i128(r.n[op]) * ED[op] == EN[op] * i128(r.d[op]);
                        if (good) {
                            ++ok_ar[op][EN[op] == 0 ? 1 : ((EN[op] < 0) != (ED[op] < 0) ? 0 : 2)];
                        } else {
                            ++wrong;
                            int len = id4(idb, n1, d1, n2, d2);
                            fval[op].hit(idb, len, [&] {
                                return std::string(idb, len) + " operator" + OPS[op] + ": expected a fraction equal to " + vf::to_s(EN[op]) + "/" + vf::to_s(ED[op]) + ", got " + vf::to_s(r.n[op]) + "/" + vf::to_s(r.d[op]);
                            });
                        }
                    }
                    vf::counted(nt);
                    bool allcmp = (mask & 0x3F0u) == 0x3F0u;
                    for (int k = 0; k < 6; ++k) {
                        if (!(mask >> (4 + k) & 1)) continue;
                        vf::validated();
                        const bool e = cmp_exp(4 + k, sg);
                        if (r.c[k] == e) continue;
                        allcmp = false;
                        ++wrong;
                        int len = id4(idb, n1, d1, n2, d2);
                        fcmp[k][nd].hit(idb, len, [&] {
                            return std::string(idb, len) + " operator" + OPS[4 + k] + ": the rational order is " + ORD[sg + 1] + ", expected " + vf::to_s(e) + ", got " + vf::to_s(r.c[k]);
                        });
                    }
                    if (allcmp) ++ok_cmp[sg + 1][nd];
                    // every pair CNL's operator== calls equal must hash equally (hash precondition:
                    // std::gcd contract, i.e. no component is -128)
                    if ((mask >> EQ & 1) && r.c[4] && n1 != -128 && d1 != -128 && n2 != -128 && d2 != -128) {
                        size_t h1 = 0, h2 = 1;
                        vf::Outcome oh = vf::run([&] {
                            h1 = std::hash<F>{}(F{n1, d1});
                            h2 = std::hash<F>{}(F{n2, d2});
                        });
                        vf::validated(2);
                        vf::counted(nt);
                        int len = id4(idb, n1, d1, n2, d2);
                        if (!oh.ok()) {
                            vf::outcome(oh.str());
                            vf::violation(std::string("hash/") + vf::kind_name(oh.kind), std::string(idb, len), std::string(idb, len) + " std::hash: " + oh.str());
                        } else if (h1 != h2) {
                            ++wrong;
                            fhash.hit(idb, len, [&] { return std::string(idb, len) + ": operator== is true but std::hash gives " + vf::to_s(h1) + " and " + vf::to_s(h2); });
                        } else
                            ++ok_hash;
                    }
                }
        }
    for (int op = 0; op < 4; ++op) {
        fval[op].flush();
        for (int s = 0; s < 3; ++s) add_outcome(std::string("ok_") + OPN[op] + "_" + SGN[s], ok_ar[op][s]);
    }
    for (int k = 0; k < 6; ++k)
        for (int j = 0; j < 2; ++j) fcmp[k][j].flush();
    fhash.flush();
    for (int s = 0; s < 3; ++s)
        for (int j = 0; j < 2; ++j) add_outcome(std::string("ok_cmp6_") + ORD[s] + (j ? "_one_neg_denominator" : ""), ok_cmp[s][j]);
    add_outcome("ok_hash_of_equal_pair", ok_hash);
    add_outcome("wrong_value", wrong);
}

// ---------------------------------------------------------------------------------------------
// wider / mixed component types over lattices; Big oracle

template<class T>
inline bool fitsT(Big const& v)
{
    return v.template fits_type<T>();
}

template<class LN, class LD, class RN, class RD>
[[gnu::noinline]] void prog_bin(int sLN, int sLD, int sRN, int sRD)
{
    using FA = cnl::fraction<LN, LD>;
    using FB = cnl::fraction<RN, RD>;
    // the types the operators compute in (operators.h forms exactly these built-in products)
    using P1 = decltype(std::declval<LN>() * std::declval<RD>());  // lhs.numerator * rhs.denominator
    using P2 = decltype(std::declval<RN>() * std::declval<LD>());  // rhs.numerator * lhs.denominator
    using S = decltype(std::declval<P1>() + std::declval<P2>());
    using PD = decltype(std::declval<LD>() * std::declval<RD>());
    using PN = decltype(std::declval<LN>() * std::declval<RN>());
    using PDN = decltype(std::declval<LD>() * std::declval<RN>());
    static_assert(sizeof(S) <= 8 && sizeof(PD) <= 8 && sizeof(PN) <= 8 && sizeof(PDN) <= 8);
    static_assert(vals::is_signed_v<LN> && vals::is_signed_v<LD> && vals::is_signed_v<RN> && vals::is_signed_v<RD>);
    std::string name = "bin<" + vf::tn<LN>() + "," + vf::tn<LD>() + "," + vf::tn<RN>() + "," + vf::tn<RD>() + ">";
    if (!vf::begin(name, false)) return;
    auto const A = vals::lattice<LN>(sLN);
    auto const B = vals::lattice<LD>(sLD);
    auto const C = vals::lattice<RN>(sRN);
    auto const Dv = vals::lattice<RD>(sRD);

    FastClass fval[4], fcmp[6][2];
    for (int op = 0; op < 4; ++op) fval[op].key = std::string("value/") + OPN[op];
    for (int k = 0; k < 6; ++k)
        for (int j = 0; j < 2; ++j) fcmp[k][j].key = std::string("cmp/") + OPN[4 + k] + "/neg_denominator=" + (j ? "1" : "0");
    uint64_t ok_ar[4][3] = {}, ok_cmp[3][2] = {}, wrong = 0;
    Sampler smp;
    const Big limS[2] = {Big(vals::max_v<S>()), Big(vals::min_v<S>())};
    const Big limP2[2] = {Big(vals::max_v<P2>()), Big(vals::min_v<P2>())};
    const Big limPN[2] = {Big(vals::max_v<PN>()), Big(vals::min_v<PN>())};

    // replay: the case id is parsed once, so that a replay does not format 10^7 ids
    const bool rp = vf::replaying();
    long q1 = 0, q2 = 0, q3 = 0, q4 = 0;
    const bool rp_ok = rp && sscanf(vf::g.replay_case.c_str(), "%ld/%ld,%ld/%ld", &q1, &q2, &q3, &q4) == 4;

    for (LN n1 : A)
        for (LD d1 : B) {
            if (!vf::my_row()) continue;
            if (rp && !(rp_ok && long(n1) == q1 && long(d1) == q2)) continue;
            const Big N1(n1), D1(d1);
            for (RD d2 : Dv) {
                if (rp && long(d2) != q4) continue;
                const Big D2(d2), X = N1 * D2, DD = D1 * D2;
                // n2: lattice closed under "x +- y, y = n2*d1, n1*n2 hit a limit of their type" (+-1)
                std::vector<RN> n2s = C;
                auto near = [&](Big const& num, Big const& den) {
                    if (den.is_zero()) return;
                    Big t = num / den;
                    for (int e = -1; e <= 1; ++e) vals::add_if_fits(n2s, t + Big(e));
                };
                for (int i = 0; i < 2; ++i) {
                    near(limS[i] - X, D1);  // x + y == limit
                    near(X - limS[i], D1);  // x - y == limit
                    near(limP2[i], D1);  // y == limit
                    near(limPN[i], N1);  // n1*n2 == limit
                }
                vals::sort_unique(n2s);
                for (RN n2 : n2s) {
                    auto id = [&] { return vf::to_s(n1) + "/" + vf::to_s(d1) + "," + vf::to_s(n2) + "/" + vf::to_s(d2); };
                    if (vf::replaying() && !vf::case_selected(id())) continue;
                    if (d1 == 0 || d2 == 0) {
                        for (int k = 0; k < 5; ++k) vf::skip_pre();
                        continue;
                    }
                    const Big N2(n2), Y = N2 * D1, NN = N1 * N2, DN = D1 * N2;
                    const bool fx = fitsT<P1>(X), fy = fitsT<P2>(Y), fdd = fitsT<PD>(DD);
                    const Big SUM = X + Y, DIF = X - Y;
                    const bool pre[5] = {fx && fy && fdd && fitsT<S>(SUM), fx && fy && fdd && fitsT<S>(DIF), fitsT<PN>(NN) && fdd,
                                         n2 != 0 && fx && fitsT<PDN>(DN), fx && fy};
                    const Big* EN[4] = {&SUM, &DIF, &NN, &X};
                    const Big* ED[4] = {&DD, &DD, &DD, &DN};
                    const bool nt = n1 != 0 && n2 != 0 && !((d1 == 1 || d1 == -1) && (d2 == 1 || d2 == -1));
                    int sg = DIF.sign();
                    if (DD.neg) sg = -sg;
                    const int nd = (d1 < 0) != (d2 < 0);
                    Res<i128> r;
                    for (int op = 0; op < 4; ++op) {
                        if (!pre[op]) {
                            vf::skip_pre();
                            continue;
                        }
                        vf::Outcome o = vf::run([&] { cnl_one(op, FA{n1, d1}, FB{n2, d2}, r); });
                        vf::validated();
                        vf::counted(nt);
                        if (!o.ok()) {
                            vf::outcome(o.str());
                            vf::violation(std::string(OPN[op]) + "/" + vf::kind_name(o.kind), id(), id() + " operator" + OPS[op] + ": " + o.str());
                            continue;
                        }
                        const Big rn(r.n[op]), rd(r.d[op]);
                        if (!rd.is_zero() && rn * *ED[op] == *EN[op] * rd) {
                            ++ok_ar[op][EN[op]->sign() == 0 ? 1 : (EN[op]->neg != ED[op]->neg ? 0 : 2)];
                        } else {
                            ++wrong;
                            std::string s = id();
                            fval[op].hit(s.data(), s.size(), [&] { return s + " operator" + OPS[op] + ": expected a fraction equal to " + EN[op]->str() + "/" + ED[op]->str() + ", got " + rn.str() + "/" + rd.str(); });
                        }
                    }
                    if (!pre[4]) {
                        vf::skip_pre();
                        continue;
                    }
                    vf::counted(nt);
                    bool allcmp = true;
                    for (int k = 0; k < 6; ++k) {
                        vf::Outcome o = vf::run([&] { cnl_one(4 + k, FA{n1, d1}, FB{n2, d2}, r); });
                        vf::validated();
                        if (!o.ok()) {
                            allcmp = false;
                            vf::outcome(o.str());
                            vf::violation(std::string(OPN[4 + k]) + "/" + vf::kind_name(o.kind), id(), id() + " operator" + OPS[4 + k] + ": " + o.str());
                            continue;
                        }
                        const bool e = cmp_exp(4 + k, sg);
                        if (r.c[k] == e) continue;
                        allcmp = false;
                        ++wrong;
                        std::string s = id();
                        fcmp[k][nd].hit(s.data(), s.size(), [&] { return s + " operator" + OPS[4 + k] + ": the rational order is " + ORD[sg + 1] + ", expected " + vf::to_s(e) + ", got " + vf::to_s(r.c[k]); });
                    }
                    if (allcmp) ++ok_cmp[sg + 1][nd];
                    if (smp.want()) vf::sample(id() + " -> operator< " + vf::to_s(r.c[0]) + " (rational order: " + ORD[sg + 1] + ")" + (pre[0] ? ", sum " + vf::to_s(r.n[0]) + "/" + vf::to_s(r.d[0]) : std::string(", sum excluded (overflow)")));
                }
            }
        }
    for (int op = 0; op < 4; ++op) {
        fval[op].flush();
        for (int s = 0; s < 3; ++s) add_outcome(std::string("ok_") + OPN[op] + "_" + SGN[s], ok_ar[op][s]);
    }
    for (int k = 0; k < 6; ++k)
        for (int j = 0; j < 2; ++j) fcmp[k][j].flush();
    for (int s = 0; s < 3; ++s)
        for (int j = 0; j < 2; ++j) add_outcome(std::string("ok_cmp6_") + ORD[s] + (j ? "_one_neg_denominator" : ""), ok_cmp[s][j]);
    add_outcome("wrong_value", wrong);
}

// ---------------------------------------------------------------------------------------------
// one fraction: unary + -, conversions to floating point, reduce, canonical, hash

template<class F>
inline const char* fname()
{
    if constexpr (std::is_same_v<F, float>) return "f32";
    else if constexpr (std::is_same_v<F, double>) return "f64";
    else return "f80";
}

template<class F, class Fr, class N, class D, class Id>
inline void check_float(N n, D d, Big const& Nb, Big const& Db, Id&& id)
{
    F got{};
    vf::Outcome o = vf::run([&] { got = static_cast<F>(Fr{n, d}); });
    vf::validated();
    vf::counted(n != 0 && d != 1);
    std::string key = std::string("float/") + fname<F>();
    if (!o.ok()) {
        vf::outcome(o.str());
        vf::violation(key + "/" + vf::kind_name(o.kind), id(), id() + " -> " + fname<F>() + ": " + o.str());
        return;
    }
    bool ovf = false;
    Rat fn = ref::round_to_format<F>(Rat(Nb), ovf), fd = ref::round_to_format<F>(Rat(Db), ovf);
    Rat q = ref::round_to_format<F>(fn / fd, ovf);  // IEEE division is correctly rounded
    const bool expneg = (n < 0) != (d < 0);
    const bool good = std::isfinite(got) && ref::to_rat(got) == q && std::signbit(got) == expneg;
    if (!good) {
        vf::outcome("wrong_value");
        vf::violation(key + "/value", id(), id() + " -> " + fname<F>() + ": expected " + fname<F>() + "(n)/" + fname<F>() + "(d) = " + (expneg ? "-" : "") + q.abs().str() + ", got " + vf::to_s(got));
        return;
    }
    vf::outcome(q == Rat(Nb, Db) ? "ok_float_exact_quotient" : "ok_float_rounded_quotient");
}

template<class N, class D>
[[gnu::noinline]] void prog_single(bool full, int sN, int sD)
{
    using Fr = cnl::fraction<N, D>;
    using C = std::common_type_t<N, D>;  // std::gcd computes in this type
    using PN = decltype(+std::declval<N>());  // type of +n and -n
    using RNt = decltype(std::declval<N>() / std::declval<C>());  // reduce: numerator / gcd
    using RDt = decltype(std::declval<D>() / std::declval<C>());
    static_assert(vals::is_signed_v<N> && vals::is_signed_v<D>);
    std::string name = "single<" + vf::tn<N>() + "," + vf::tn<D>() + ">";
    constexpr bool can_full = sizeof(N) == 1 && sizeof(D) == 1;
    full = full && can_full;
    if (!vf::begin(name, full)) return;
    std::vector<N> Ns;
    std::vector<D> Ds;
    if constexpr (can_full) {
        if (full) {
            Ns = vals::full<N>();
            Ds = vals::full<D>();
        }
    }
    if (!full) {
        Ns = vals::lattice<N>(sN);
        Ds = vals::lattice<D>(sD);
    }
    Sampler smp;
    for (N n0 : Ns) {
        if (!vf::my_row()) continue;
        std::vector<std::pair<N, D>> cells;
        for (D d0 : Ds) {
            cells.emplace_back(n0, d0);
            if (!full)  // common multipliers, so that the lattice contains fractions not in lowest terms
                for (int g : {2, 3, -3, 6, 10, 16, 255, -1}) {
                    Big gn = Big(n0) * Big(g), gd = Big(d0) * Big(g);
                    if (fitsT<N>(gn) && fitsT<D>(gd)) cells.emplace_back(gn.template to<N>(), gd.template to<D>());
                }
        }
        std::sort(cells.begin(), cells.end());
        cells.erase(std::unique(cells.begin(), cells.end()), cells.end());
        for (auto const& cell : cells) {
            const N n = cell.first;
            const D d = cell.second;
            auto id = [&] { return vf::to_s(n) + "/" + vf::to_s(d); };
            if (vf::replaying() && !vf::case_selected(id())) continue;
            if (d == 0) {
                for (int k = 0; k < 8; ++k) vf::skip_pre();
                continue;
            }
            const Big Nb(n), Db(d);
            const bool nt = n != 0 && d != 1;
            // value of a result fraction (rn/rd) against the exact value en/ed
            auto same_value = [](Big const& rn, Big const& rd, Big const& en, Big const& ed) { return !rd.is_zero() && rn * ed == en * rd; };

            // ---- unary plus
            {
                i128 rn = 0, rd = 0;
                vf::Outcome o = vf::run([&] {
                    auto r = +Fr{n, d};
                    rn = r.numerator;
                    rd = r.denominator;
                });
                vf::validated();
                vf::counted(nt);
                if (!o.ok()) {
                    vf::outcome(o.str());
                    vf::violation(std::string("plus/") + vf::kind_name(o.kind), id(), "+(" + id() + "): " + o.str());
                } else if (!same_value(Big(rn), Big(rd), Nb, Db)) {
                    vf::outcome("wrong_value");
                    vf::violation("value/plus", id(), "+(" + id() + "): got " + vf::to_s(rn) + "/" + vf::to_s(rd));
                } else
                    vf::outcome("ok_unary_plus");
            }
            // ---- unary minus (precondition: -n representable in the promoted type)
            if (!fitsT<PN>(-Nb)) {
                vf::skip_pre();
            } else {
                i128 rn = 0, rd = 0;
                vf::Outcome o = vf::run([&] {
                    auto r = -Fr{n, d};
                    rn = r.numerator;
                    rd = r.denominator;
                });
                vf::validated();
                vf::counted(nt);
                if (!o.ok()) {
                    vf::outcome(o.str());
                    vf::violation(std::string("neg/") + vf::kind_name(o.kind), id(), "-(" + id() + "): " + o.str());
                } else if (!same_value(Big(rn), Big(rd), -Nb, Db)) {
                    vf::outcome("wrong_value");
                    vf::violation("value/neg", id(), "-(" + id() + "): got " + vf::to_s(rn) + "/" + vf::to_s(rd));
                } else
                    vf::outcome("ok_unary_minus");
            }
            // ---- conversion to floating point
            check_float<float, Fr>(n, d, Nb, Db, id);
            check_float<double, Fr>(n, d, Nb, Db, id);
            check_float<long double, Fr>(n, d, Nb, Db, id);

            // ---- reduce / canonical / hash. std::gcd contract: |n|, |d| representable in C
            const bool gcd_ok = fitsT<C>(Nb.abs()) && fitsT<C>(Db.abs());
            const Big G = Big::gcd(Nb, Db);  // > 0 since d != 0
            Big cn = Nb / G, cd = Db / G;  // lowest terms, signs of n and d
            if (!gcd_ok) {
                vf::skip_pre();
            } else {
                i128 rn = 0, rd = 0;
                vf::Outcome o = vf::run([&] {
                    auto r = cnl::reduce(Fr{n, d});
                    rn = r.numerator;
                    rd = r.denominator;
                });
                vf::validated();
                vf::counted(nt);
                const Big Rn(rn), Rd(rd);
                if (!o.ok()) {
                    vf::outcome(o.str());
                    vf::violation(std::string("reduce/") + vf::kind_name(o.kind), id(), "reduce(" + id() + "): " + o.str());
                } else if (!same_value(Rn, Rd, Nb, Db)) {
                    vf::outcome("wrong_value");
                    vf::violation("reduce/value", id(), "reduce(" + id() + "): got " + Rn.str() + "/" + Rd.str() + ", lowest terms are " + cn.str() + "/" + cd.str());
                } else if (!(Big::gcd(Rn, Rd) == Big(1))) {
                    vf::outcome("wrong_value");
                    vf::violation("reduce/not_lowest_terms", id(), "reduce(" + id() + "): got " + Rn.str() + "/" + Rd.str() + ", lowest terms are " + cn.str() + "/" + cd.str());
                } else
                    vf::outcome(G == Big(1) ? "ok_reduce_already_lowest" : "ok_reduce_divided");
            }
            // canonical additionally negates both reduced components when the denominator is negative
            const bool neg_ok = !cd.neg || (fitsT<RNt>(-cn) && fitsT<RDt>(-cd));
            if (!gcd_ok || !neg_ok) {
                vf::skip_pre();
            } else {
                i128 rn = 0, rd = 0;
                vf::Outcome o = vf::run([&] {
                    auto r = cnl::canonical(Fr{n, d});
                    rn = r.numerator;
                    rd = r.denominator;
                });
                vf::validated();
                vf::counted(nt);
                const Big Rn(rn), Rd(rd);
                std::string exp = (cd.neg ? -cn : cn).str() + "/" + cd.abs().str();
                if (!o.ok()) {
                    vf::outcome(o.str());
                    vf::violation(std::string("canonical/") + vf::kind_name(o.kind), id(), "canonical(" + id() + "): " + o.str());
                } else if (!same_value(Rn, Rd, Nb, Db)) {
                    vf::outcome("wrong_value");
                    vf::violation("canonical/value", id(), "canonical(" + id() + "): got " + Rn.str() + "/" + Rd.str() + ", expected " + exp);
                } else if (!(Big::gcd(Rn, Rd) == Big(1))) {
                    vf::outcome("wrong_value");
                    vf::violation("canonical/not_lowest_terms", id(), "canonical(" + id() + "): got " + Rn.str() + "/" + Rd.str() + ", expected " + exp);
                } else if (Rd.sign() <= 0) {
                    vf::outcome("wrong_value");
                    vf::violation("canonical/denominator_not_positive", id(), "canonical(" + id() + "): got " + Rn.str() + "/" + Rd.str() + ", expected " + exp);
                } else
                    vf::outcome(cd.neg ? "ok_canonical_sign_moved" : "ok_canonical_sign_kept");
            }
            // hash: every fraction must hash like the canonical representative of its value (so all
            // fractions of equal value hash equally); where CNL's operator== is defined on the pair
            // and says "equal", a differing hash is additionally reported under its own key
            if (!gcd_ok || !neg_ok) {
                vf::skip_pre();
            } else {
                if (cd.neg) {
                    cn = -cn;
                    cd = -cd;
                }
                const bool rep_fits = fitsT<N>(cn) && fitsT<D>(cd);
                const N rn_ = rep_fits ? cn.template to<N>() : N(0);
                const D rd_ = rep_fits ? cd.template to<D>() : D(1);
                size_t h = 0, hr = 0;
                vf::Outcome o = vf::run([&] {
                    h = std::hash<Fr>{}(Fr{n, d});
                    hr = std::hash<Fr>{}(Fr{rn_, rd_});
                });
                vf::validated(rep_fits ? 2 : 1);
                vf::counted(nt);
                std::string rep = vf::to_s(rn_) + "/" + vf::to_s(rd_);
                if (!o.ok()) {
                    vf::outcome(o.str());
                    vf::violation(std::string("hash/") + vf::kind_name(o.kind), id(), "std::hash(" + id() + "): " + o.str());
                } else if (!rep_fits) {
                    vf::outcome("ok_hash_no_representable_canonical_form");
                } else if (h != hr) {
                    vf::outcome("wrong_value");
                    vf::violation("hash/equal_value_differs", id(), "std::hash(" + id() + ") = " + vf::to_s(h) + " but std::hash(" + rep + ") = " + vf::to_s(hr) + " for the same rational value");
                    using Q1 = decltype(std::declval<N>() * std::declval<D>());
                    if (fitsT<Q1>(Nb * cd) && fitsT<Q1>(cn * Db)) {
                        bool eq = false;
                        vf::Outcome oe = vf::run([&] { eq = Fr{n, d} == Fr{rn_, rd_}; });
                        if (oe.ok() && eq) vf::violation("hash/cnl_equal_but_hash_differs", id(), id() + " == " + rep + " is true but the hashes are " + vf::to_s(h) + " and " + vf::to_s(hr));
                    }
                } else
                    vf::outcome(G == Big(1) && !Db.neg ? "ok_hash_of_canonical_form" : "ok_hash_equals_canonical_form's");
            }
            if (smp.want()) vf::sample(id() + " -> lowest terms " + cn.str() + "/" + cd.str() + ", double " + vf::to_s(double(n) / double(d)));
        }
    }
}

}  // namespace c16

using namespace c16;

// lattice strides for the 4-fold products: quick 67..73 values per component (i16: 2, i32: 4,
// i64: 8), thorough 103..121 (i16: 1, i32: 2, i64: 4); i8 components use their whole B0 lattice
template<class T>
constexpr int st()
{
    if constexpr (sizeof(T) == 1) return 1;
    else if constexpr (sizeof(T) == 2) return VF_TIER ? 1 : 2;
    else if constexpr (sizeof(T) == 4) return VF_TIER ? 2 : 4;
    else return VF_TIER ? 4 : 8;
}
template<class LN, class LD, class RN, class RD>
static void bin()
{
    prog_bin<LN, LD, RN, RD>(st<LN>(), st<LD>(), st<RN>(), st<RD>());
}
// single fractions are cheap: finer lattices (thorough: every power of two)
// ---- reduce / canonical / hash for component types outside the signed 8..64-bit families: unsigned and 128-bit ----
template<class T>
[[gnu::noinline]] void prog_canon(int step)
{
    using Fr = cnl::fraction<T, T>;
    std::string name = "canon<" + vf::tn<T>() + ">";
    if (!vf::begin(name, false)) return;
    auto const Ls = vals::lattice<T>(step);
    for (T n0 : Ls) {
        if (!vf::my_row()) continue;
        std::vector<std::pair<T, T>> cells;
        for (T d0 : Ls) {
            cells.emplace_back(n0, d0);
            for (int g : {2, 3, 6, 10, 255, -1, -3}) {
                Big gn = Big(n0) * Big(g), gd = Big(d0) * Big(g);
                if (fitsT<T>(gn) && fitsT<T>(gd)) cells.emplace_back(gn.template to<T>(), gd.template to<T>());
            }
        }
        std::sort(cells.begin(), cells.end());
        cells.erase(std::unique(cells.begin(), cells.end()), cells.end());
        for (auto const& cell : cells) {
            const T n = cell.first, d = cell.second;
            auto id = [&] { return vf::to_s(n) + "/" + vf::to_s(d); };
            if (vf::replaying() && !vf::case_selected(id())) continue;
            const Big Nb(n), Db(d);
            if (d == 0 || (vals::is_signed_v<T> && (n == vals::min_v<T>() || d == vals::min_v<T>()))) {
                vf::skip_pre();  // zero denominator; most negative component: outside the std::gcd contract
                continue;
            }
            const Big G = Big::gcd(Nb, Db);
            Big cn = Nb / G, cd = Db / G;
            if (cd.neg) {
                cn = -cn;
                cd = -cd;
            }
            vf::counted(!Nb.is_zero() && !(Db == Big(1)));
            auto same_value = [](Big const& rn, Big const& rd, Big const& en, Big const& ed) { return !rd.is_zero() && rn * ed == en * rd; };
            auto judge = [&](const char* what, bool need_positive, auto&& f) {
                Big Rn, Rd;
                vf::Outcome o = vf::run([&] {
                    auto r = f();
                    Rn = Big(r.numerator);
                    Rd = Big(r.denominator);
                });
                vf::validated();
                std::string exp = cn.str() + "/" + cd.str();
                if (!o.ok()) {
                    vf::outcome(o.str());
                    vf::violation(std::string(what) + "/" + vf::kind_name(o.kind), id(), std::string(what) + "(" + id() + "): " + o.str());
                } else if (!same_value(Rn, Rd, Nb, Db))
                    vf::violation(std::string(what) + "/value", id(), std::string(what) + "(" + id() + "): got " + Rn.str() + "/" + Rd.str() + ", expected " + exp);
                else if (!(Big::gcd(Rn, Rd) == Big(1)))
                    vf::violation(std::string(what) + "/not_lowest_terms", id(), std::string(what) + "(" + id() + "): got " + Rn.str() + "/" + Rd.str() + ", expected " + exp);
                else if (need_positive && Rd.sign() <= 0)
                    vf::violation(std::string(what) + "/denominator_not_positive", id(), std::string(what) + "(" + id() + "): got " + Rn.str() + "/" + Rd.str() + ", expected " + exp);
                else
                    vf::outcome(std::string("ok_") + what);
            };
            judge("reduce", false, [&] { return cnl::reduce(Fr{n, d}); });
            judge("canonical", true, [&] { return cnl::canonical(Fr{n, d}); });
            if (fitsT<T>(cn) && fitsT<T>(cd)) {
                size_t h = 0, hr = 0;
                T rn_ = cn.template to<T>(), rd_ = cd.template to<T>();
                vf::Outcome o = vf::run([&] {
                    h = std::hash<Fr>{}(Fr{n, d});
                    hr = std::hash<Fr>{}(Fr{rn_, rd_});
                });
                vf::validated(2);
                if (!o.ok()) vf::violation(std::string("hash/") + vf::kind_name(o.kind), id(), "std::hash(" + id() + "): " + o.str());
                else if (h != hr)
                    vf::violation("hash/equal_value_differs", id(), "std::hash(" + id() + ") differs from std::hash(" + cn.str() + "/" + cd.str() + ") for the same rational value");
                else
                    vf::outcome("ok_hash");
            }
        }
    }
}

template<class T>
constexpr int ss()
{
    if constexpr (sizeof(T) <= 2) return 1;
    else if constexpr (sizeof(T) == 4) return VF_TIER ? 1 : 2;
    else return VF_TIER ? 1 : 4;
}
template<class N, class D>
static void single()
{
    prog_single<N, D>(false, ss<N>(), ss<D>());
}

#if VF_PART == 0
static void g_i8()
{
    if (VF_TIER) prog_bin8("bin8<i8,i8,i8,i8>/all", vals::full<i8>(), true);
    else prog_bin8("bin8<i8,i8,i8,i8>/SUB8", sub_lattice8(), false);
    prog_single<i8, i8>(true, 1, 1);
}
VF_GROUP(g_i8);
#elif VF_PART == 1
static void g_wide_a()
{
    bin<i16, i16, i16, i16>();
    bin<i32, i32, i32, i32>();
    bin<i8, i8, i32, i32>();
    bin<i16, i64, i32, i8>();
    single<i16, i16>();
    single<i32, i32>();
    single<i8, i16>();
    single<i32, i8>();
}
VF_GROUP(g_wide_a);
#else
static void g_wide_b()
{
    bin<i64, i64, i64, i64>();
    bin<i32, i32, i64, i64>();
    bin<i64, i32, i8, i16>();
    single<i64, i64>();
    single<i16, i64>();
    single<i64, i32>();
    prog_canon<u8>(1);
    prog_canon<u16>(VF_TIER ? 1 : 2);
    prog_canon<u32>(VF_TIER ? 1 : 3);
    prog_canon<u64>(VF_TIER ? 2 : 5);
    prog_canon<i128>(VF_TIER ? 4 : 9);
}
VF_GROUP(g_wide_b);
#endif

VF_MAIN()
