// C10_vend.h — part (A): shifts, unary operators, conversions, text and numeric_limits of the vendored
// class, and the registration of all part-(A) programs. Included by C10.cpp.
#pragma once

struct VendCounters {
    uint64_t shift = 0, unary = 0, conv_in = 0, conv_wrap = 0, fl_exact = 0, fl_rounded = 0, fl_from = 0, text = 0, limits = 0, bad = 0, valid = 0;
    void flush()
    {
        add_outcome("ok_shift", shift);
        add_outcome("ok_unary_incdec", unary);
        add_outcome("ok_int_conversion_value_preserved", conv_in);
        add_outcome("ok_int_conversion_reduced_mod_2^k", conv_wrap);
        add_outcome("ok_to_float_exact", fl_exact);
        add_outcome("ok_to_float_correctly_rounded", fl_rounded);
        add_outcome("ok_from_float", fl_from);
        add_outcome("ok_decimal_text", text);
        add_outcome("ok_numeric_limits", limits);
        add_outcome("wrong_or_trapped", bad);
        vf::validated(valid);
        *this = VendCounters();
    }
};

using BuiltinInts = types<bool, char, i8, u8, i16, u16, i32, u32, i64, u64, long long, unsigned long long, i128, u128>;
using BuiltinIntsFrom = types<i8, u8, i16, u16, i32, u32, i64, u64, long long, unsigned long long, i128, u128>;

template<class T>
static std::string vend_name()
{
    return "uintwide_t<" + std::to_string(uw<T>::width) + ",uint" + std::to_string(uw<T>::lbits) + "_t,void," + (uw<T>::is_signed ? "true" : "false") + ">";
}

template<class T>
[[gnu::noinline]] static void prog_vend_unary(std::string const& name, std::vector<u128> const& vals_, bool full)
{
    using O = Orc<uw<T>::width, uw<T>::is_signed>;
    using U = typename O::U;
    constexpr int W = uw<T>::width, lb = uw<T>::lbits;
    constexpr bool S = uw<T>::is_signed;
    if (!vf::begin(name, full)) return;
    VendCounters C;
    std::string const tn = vend_name<T>();
    auto ext128 = [](U x) -> u128 {
        if (!O::neg(x)) return u128(x);
        return u128(x) | (~u128(0) << (W - 1));
    };
    auto bigw = [&](U x) { return O::neg(x) ? -BigW(u128(O::mag(x))) : BigW(u128(x)); };
    std::vector<int> counts;
    for (int c = 0; c < W; ++c)
        if (W <= 16 || c % lb == 0 || c % lb == 1 || c % lb == lb - 1 || c == 2 || c == 3) counts.push_back(c);

    std::string id;
    // generic single check on a result that is a T
    auto chkT = [&](const char* op, std::string const& cls, auto&& f, U expect, uint64_t& okc, std::string const& txt) {
        U got = 0;
        vf::Outcome o = vf::run([&] { got = U(uw_bits(f())); });
        ++C.valid;
        if (!o.ok()) {
            ++C.bad;
            vf::violation(std::string(op) + "/" + vf::kind_name(o.kind) + cls, id, tn + " " + txt + " -> " + o.str() + ", expected " + O::str(expect));
        } else if (got != expect) {
            ++C.bad;
            vf::violation(std::string(op) + "/value" + cls, id, tn + " " + txt + " = " + O::str(got) + " (" + hex128(got) + "), expected " + O::str(expect) + " (" + hex128(expect) + ")");
        } else
            ++okc;
    };

    // ---- numeric_limits (one case)
    if (vf::my_row()) {
        id = "limits";
        if (!vf::replaying() || vf::case_selected(id)) {
            using NL = std::numeric_limits<T>;
            vf::counted(true);
            auto lim = [&](const char* what, bool ok, std::string const& detail) {
                ++C.valid;
                if (ok) ++C.limits;
                else {
                    ++C.bad;
                    vf::violation(std::string("limits/") + what, id, tn + " numeric_limits::" + what + " " + detail);
                }
            };
            lim("digits", NL::digits == W - int(S), "= " + std::to_string(NL::digits) + ", expected " + std::to_string(W - int(S)));
            lim("is_signed", NL::is_signed == S, "= " + vf::to_s(bool(NL::is_signed)));
            lim("is_integer", NL::is_integer && NL::is_specialized && NL::is_exact, "flags");
            lim("radix", NL::radix == 2, "= " + std::to_string(NL::radix));
            U emax = S ? U(O::signbit - 1) : O::mask, elow = S ? O::signbit : U(0);
            T mx{}, mn{}, lo{};
            vf::Outcome o = vf::run([&] {
                mx = NL::max();
                mn = NL::min();
                lo = NL::lowest();
            });
            lim("max", o.ok() && U(uw_bits(mx)) == emax, o.ok() ? "= " + O::str(U(uw_bits(mx))) + ", expected " + O::str(emax) : o.str());
            lim("lowest", o.ok() && U(uw_bits(lo)) == elow, o.ok() ? "= " + O::str(U(uw_bits(lo))) + ", expected " + O::str(elow) : o.str());
            lim("min", o.ok() && U(uw_bits(mn)) == elow, o.ok() ? "= " + O::str(U(uw_bits(mn))) + ", expected " + O::str(elow) : o.str());
            int d10 = int(std::floor((W - int(S)) * 0.30102999566398119521L));
            lim("digits10", NL::digits10 == d10, "= " + std::to_string(NL::digits10) + ", expected " + std::to_string(d10));
            C.flush();
        }
    }

    // ---- per value
    for (u128 a128 : vals_) {
        if (!vf::my_row()) continue;
        U a = U(a128);
        id = hex128(a);
        if (vf::replaying() && !vf::case_selected(id)) continue;
        T const A = uw_make<T>(a);
        std::string const av = "a=" + O::str(a);
        vf::counted(a != 0 && ((O::mag(a) >> (lb - 1)) != 0 || O::neg(a)));
        if (vf::want_sample()) vf::sample(id + " (" + O::str(a) + ") -> -a=" + O::str(O::neg_(a)) + " a>>1=" + O::str(O::shr(a, 1)));
        // shifts, counts as int and as unsigned
        for (int c : counts) {
            std::string cls = std::string(O::neg(a) ? "/negative" : "/nonneg") + (c % lb == 0 ? "/whole_limbs" : (c >= lb ? "/limbs_and_bits" : "/bits"));
            std::string cs = std::to_string(c);
            chkT("shl", cls, [&] { return A << c; }, O::shl(a, c), C.shift, av + " a<<" + cs);
            chkT("shr", cls, [&] { return A >> c; }, O::shr(a, c), C.shift, av + " a>>" + cs);
            chkT("shl_ucount", cls, [&] { return A << unsigned(c); }, O::shl(a, c), C.shift, av + " a<<" + cs + "u");
            chkT("shr_ucount", cls, [&] { return A >> unsigned(c); }, O::shr(a, c), C.shift, av + " a>>" + cs + "u");
        }
        std::string sg = O::neg(a) ? "/negative" : "/nonneg";
        chkT("neg", sg, [&] { return -A; }, O::neg_(a), C.unary, av + " -a");
        {
            T t = A;
            chkT("not", sg, [&] { return ~t; }, O::not_(a), C.unary, av + " ~a");
            ++C.valid;
            if (U(uw_bits(t)) != a) {
                ++C.bad;
                vf::violation("not/operand_modified", id, tn + " " + av + ": evaluating ~t changed t to " + O::str(U(uw_bits(t))));
            } else
                ++C.unary;
        }
        {
            T t = A;
            chkT("preinc", sg, [&] { return ++t; }, O::add(a, 1), C.unary, av + " ++a");
            t = A;
            chkT("postinc_result", sg, [&] { return t++; }, a, C.unary, av + " a++ (returned)");
            chkT("postinc_object", sg, [&] { return t; }, O::add(a, 1), C.unary, av + " a++ (object)");
            t = A;
            chkT("predec", sg, [&] { return --t; }, O::sub(a, 1), C.unary, av + " --a");
            t = A;
            chkT("postdec_result", sg, [&] { return t--; }, a, C.unary, av + " a-- (returned)");
            chkT("postdec_object", sg, [&] { return t; }, O::sub(a, 1), C.unary, av + " a-- (object)");
        }
        // to every built-in integer type
        for_types(BuiltinInts{}, [&](auto ti) {
            using X = typename decltype(ti)::type;
            X expect;
            bool preserved;
            if constexpr (std::is_same_v<X, bool>) {
                expect = a != 0;
                preserved = true;
            } else {
                expect = X(ext128(a));
                preserved = bigw(a).fits(int(sizeof(X) * 8), vals::is_signed_v<X>);
            }
            X got{};
            vf::Outcome o = vf::run([&] { got = static_cast<X>(A); });
            ++C.valid;
            std::string cls = std::string(preserved ? "/in_range" : "/narrowing") + sg;
            if (!o.ok()) {
                ++C.bad;
                vf::violation("to_int/" + std::string(vf::kind_name(o.kind)) + cls, id, tn + " " + av + " static_cast<" + vf::tn<X>() + "> -> " + o.str());
            } else if (got != expect) {
                ++C.bad;
                vf::violation("to_int/value" + cls, id, tn + " " + av + " static_cast<" + vf::tn<X>() + "> = " + vf::to_s(got) + ", expected " + vf::to_s(expect));
            } else
                ++(preserved ? C.conv_in : C.conv_wrap);
        });
        // to floating point: the correctly rounded value
        for_types(types<float, double, long double>{}, [&](auto ti) {
            using F = typename decltype(ti)::type;
            FloatRef<F> e = big_to_float<F>(bigw(a));
            F got = 0;
            vf::Outcome o = vf::run([&] { got = static_cast<F>(A); });
            ++C.valid;
            if (!o.ok()) {
                ++C.bad;
                vf::violation("to_float/" + std::string(vf::kind_name(o.kind)) + "/" + vf::tn<F>(), id, tn + " " + av + " static_cast<" + vf::tn<F>() + "> -> " + o.str());
            } else if (!(got == e.nearest)) {
                ++C.bad;
                const char* how = e.exact ? "exactly_representable" : (got == e.toward_zero ? "inexact/adjacent_toward_zero_instead_of_nearest" : (got == std::nextafter(e.toward_zero, O::neg(a) ? -std::numeric_limits<F>::infinity() : std::numeric_limits<F>::infinity()) ? "inexact/adjacent_away_from_zero_instead_of_nearest" : "inexact/not_adjacent"));
                vf::violation(std::string("to_float/value/") + how + "/" + vf::tn<F>(), id, tn + " " + av + " static_cast<" + vf::tn<F>() + "> = " + vf::to_s(got) + ", correctly rounded " + vf::to_s(e.nearest) + ", truncated " + vf::to_s(e.toward_zero));
            } else
                ++(e.exact ? C.fl_exact : C.fl_rounded);
        });
        // decimal text
        {
            std::string got;
            vf::Outcome o = vf::run([&] {
                std::ostringstream os;
                os << A;
                got = os.str();
            });
            ++C.valid;
            std::string expect = O::str(a);
            if (!o.ok()) {
                ++C.bad;
                vf::violation("text/ostream/" + std::string(vf::kind_name(o.kind)) + sg, id, tn + " " + av + " operator<< -> " + o.str());
            } else if (got != expect) {
                ++C.bad;
                vf::violation("text/ostream/value" + sg, id, tn + " " + av + " operator<< wrote \"" + got + "\"");
            } else
                ++C.text;
        }
        C.flush();
    }

    // ---- from every built-in integer type (value reduced mod 2^N)
    for_types(BuiltinIntsFrom{}, [&](auto ti) {
        using X = typename decltype(ti)::type;
        std::vector<X> xs;
        if constexpr (sizeof(X) <= 2) xs = vals::full<X>();
        else if constexpr (std::is_same_v<X, long long>) {
            for (auto v : vals::lattice<i64>(1)) xs.push_back(v);
        } else if constexpr (std::is_same_v<X, unsigned long long>) {
            for (auto v : vals::lattice<u64>(1)) xs.push_back(v);
        } else
            xs = vals::lattice<X>(1);
        for (X v : xs) {
            if (!vf::my_row()) continue;
            id = "from_" + vf::tn<X>() + ":" + vf::to_s(v);
            if (vf::replaying() && !vf::case_selected(id)) continue;
            U expect = O::red(U(u128(v)));
            bool preserved = Big(v).fits(W, S);
            vf::counted(!preserved);
            std::string cls = std::string(preserved ? "/in_range" : "/narrowing") + (Big(v).neg ? "/negative" : "/nonneg");
            chkT("from_int", cls, [&] { return T(v); }, expect, preserved ? C.conv_in : C.conv_wrap, "T(" + vf::tn<X>() + " " + vf::to_s(v) + ")");
            // wide op built-in: the built-in operand is converted, then the same limb code runs
            if (preserved) {
                T const K = uw_make<T>(O::mask / 3);  // 0101...
                chkT("add_builtin", cls, [&] { return K + v; }, O::add(O::mask / 3, expect), C.unary, "0x5555.. + " + vf::tn<X>() + " " + vf::to_s(v));
            }
        }
        C.flush();
    });

    // ---- from floating point (values that are representable after truncation). The constructor first
    // stores the 24/53/64-bit significand in an `unsigned long long`-initialised object of the SAME width,
    // which is then shifted arithmetically: it needs Width2 > 64 (a 64-bit signed object would read the
    // long double significand as negative). Every multi-limb rep CNL builds is >= 136 bits wide; narrower
    // instantiations are an artefact of the small scope and are not judged here.
    if constexpr (W > 64)
    for_types(types<float, double, long double>{}, [&](auto ti) {
        using F = typename decltype(ti)::type;
        for (F x : float_probe_values<F>(W)) {
            if (!vf::my_row()) continue;
            id = "from_" + vf::tn<F>() + ":" + vf::to_s(x);
            if (vf::replaying() && !vf::case_selected(id)) continue;
            bool is_int;
            BigW t = float_trunc(x, is_int);
            if (!t.fits(W, S) || (!S && x < 0)) {
                vf::skip_pre();
                continue;
            }
            vf::counted(!is_int || t.bit_length() > lb);
            U expect = O::red(U(t.low128()));
            chkT("from_float", std::string(is_int ? "/integer_valued" : "/fraction_truncates") + "/" + vf::tn<F>(), [&] { return T(x); }, expect, C.fl_from, "T(" + vf::tn<F>() + " " + vf::to_s(x) + ")");
        }
        C.flush();
    });
}

// every limb pattern: n limbs, each from the 8 (or 12) patterns
template<class T>
static std::vector<u128> vend_lattice(bool extended)
{
    auto pats = limb_patterns(uw<T>::lbits, extended);
    std::vector<u128> v{0};
    for (int i = 0; i < uw<T>::nlimbs; ++i) {
        std::vector<u128> n;
        for (u128 x : v)
            for (auto p : pats) n.push_back((x << uw<T>::lbits) | p);
        v.swap(n);
    }
    std::sort(v.begin(), v.end());
    v.erase(std::unique(v.begin(), v.end()), v.end());
    return v;
}

template<wi::size_t Wd, class L, bool S>
static void vend_lattice_programs(bool binary)
{
    using T = wi::uintwide_t<Wd, L, void, S>;
    std::string p = "<" + std::to_string(Wd) + ",uint" + std::to_string(sizeof(L) * 8) + "_t," + (S ? "signed" : "unsigned") + ">";
    // thorough: 12 limb patterns on the left (and on the right too while that stays <= 1728 values), 8 otherwise
    auto v8 = vend_lattice<T>(false);
    auto v12 = VF_TIER ? vend_lattice<T>(true) : v8;
    if (binary) {
        prog_vend_binary<T>("vend_lattice_binary" + p, v12, (VF_TIER && uw<T>::nlimbs <= 3) ? v12 : v8, false);
    } else {
        std::vector<u128> vu = (uw<T>::nlimbs <= 3) ? v12 : v8;
        for (BigW const& h : float_hazards(int(Wd), S)) vu.push_back(u128(h.low128()) & (Wd == 128 ? ~u128(0) : ((u128(1) << (Wd % 128)) - 1)));
        std::sort(vu.begin(), vu.end());
        vu.erase(std::unique(vu.begin(), vu.end()), vu.end());
        prog_vend_unary<T>("vend_lattice_unary" + p, vu, false);
    }
}
template<wi::size_t Wd, class L>
static void vend_lattice_both(bool binary)
{
    vend_lattice_programs<Wd, L, true>(binary);
    vend_lattice_programs<Wd, L, false>(binary);
}

// the 16-bit space: complete (thorough) or the stated 2^12 sub-grid (quick)
static std::vector<u128> vend16_values(bool all)
{
    std::vector<u128> v;
    auto in64 = [](unsigned b) { return b <= 0x0f || (b >= 0x70 && b <= 0x8f) || b >= 0xf0; };
    for (unsigned x = 0; x < 65536; ++x)
        if (all || (in64(x & 0xff) && in64(x >> 8))) v.push_back(x);
    return v;
}

#if VF_PART == 0
static void gA0()
{
    auto v = vend16_values(VF_TIER != 0);
    prog_vend_binary<wi::uintwide_t<16, std::uint8_t, void, true>>("vend16_binary<signed>", v, v, VF_TIER != 0);
}
VF_GROUP(gA0);
#elif VF_PART == 1
static void gA1()
{
    auto v = vend16_values(VF_TIER != 0);
    prog_vend_binary<wi::uintwide_t<16, std::uint8_t, void, false>>("vend16_binary<unsigned>", v, v, VF_TIER != 0);
}
VF_GROUP(gA1);
#elif VF_PART == 2
static void gA2()
{
    prog_vend_unary<wi::uintwide_t<16, std::uint8_t, void, true>>("vend16_unary<signed>", vend16_values(true), true);
    prog_vend_unary<wi::uintwide_t<16, std::uint8_t, void, false>>("vend16_unary<unsigned>", vend16_values(true), true);
}
VF_GROUP(gA2);
#elif VF_PART >= 100 && VF_PART < 300
// lattice programs: 100 + i binary, 200 + i unary, i indexes the (width, limb) list
#define C10_LAT(I, W, LIMB) \
    if constexpr (VF_PART % 100 == I) vend_lattice_both<W, LIMB>(VF_PART < 200);
static void gL()
{
    C10_LAT(0, 24, std::uint8_t)
    C10_LAT(1, 32, std::uint8_t)
    C10_LAT(2, 32, std::uint16_t)
    C10_LAT(3, 48, std::uint16_t)
    C10_LAT(4, 64, std::uint16_t)
    C10_LAT(5, 64, std::uint32_t)
    C10_LAT(6, 96, std::uint32_t)
    C10_LAT(7, 128, std::uint32_t)
    C10_LAT(8, 128, std::uint64_t)
}
VF_GROUP(gL);
#endif
