// C13 / C14 — text output (to_chars, to_chars_static, to_string, operator<<).
//   -DVF_PROP=13 : C13, to_chars stays inside [first,last) and fails cleanly; the fixed-capacity
//                  variants always succeed.
//   -DVF_PROP=14 : C14, the characters denote the value (successful calls only).
// Both properties share one enumeration. Programs come from checks/C13.py (programs.inc):
//   I(T,FB,name)         integer to_chars(first,last,v,base), bases {2,3,8,10,16,36}
//   S(Rep,E,Radix,FB)    scaled_integer<Rep,power<E,Radix>> (FB = widest rep enumerated completely)
//   ST(T,Base,FB,name)   to_chars_static<Base>(integer)
//   SEAM(k,n)            cnl::_impl::to_chars_positive(first,last,digits,exponent) (the layout seam)
// State = (program, value, base, buffer length). Every buffer length 0..max(capacity, longest
// numeral of the type)+2 is enumerated for every value; after the length loop the fixed-capacity
// variants run once per value.
//
// C13 oracle. The buffer [first,last) sits in the middle of a 9 KiB arena (4 KiB before, >= 4 KiB
// after) filled with a position-dependent non-ASCII sentinel and fenced by 1 MiB PROT_NONE guards
// (a runaway memmove faults inside the fence and comes back as outcome sigsegv without touching the
// worker's own memory). After each call every byte outside [first,last) must be unchanged.
// success (ec == 0): first < p <= last, [first,p) completely written, [p,last) untouched;
// failure: ec == value_too_large and p == last; anything else (trap, abort, SIGSEGV, hang) is a
// violation. Static variants: never fail, length in (0,capacity], NUL-terminated.
// Static variants write into a stack object, which the arena cannot fence: they are executed only
// for values whose to_chars call with a capacity-sized arena buffer stayed inside its buffer.
//
// C14 oracle. Integers: the text must equal the canonical numeral computed independently from the
// exact value (Big, repeated division by the base). Scaled: the text is parsed with
// -?(d+(.d*)?|.d+)(e[+-]?d+)? into digits S and the exponent q of the last printed digit
// (P = S * 10^q); the exact decimal expansion X * 10^xq of |v| = |rep| * radix^E is computed in Big.
// Required: '-' present iff v < 0; P <= |v|; |v| - P < 10^q + |v| * 2^-50; P == |v| whenever X has
// <= 18 significant digits and the complete text (in the shorter of CNL's two layouts: fixed without a
// leading zero, d.ddde[-]N) fits the buffer. Fast path: S is a prefix of X at the same decimal
// position (then all inequalities hold); otherwise the inequalities are evaluated exactly.
#include "cnlval.h"

#include <charconv>
#include <sstream>
#include <string_view>
#include <sys/mman.h>

#ifndef VF_UNSAN
#define VF_UNSAN 0  // 1: unsanitised release unit. A to_chars_static call whose capacity-sized fenced to_chars call
                    // failed would run into its compiled-out assertion (__builtin_unreachable): undefined behaviour
                    // that no handler can contain, so it is not executed there (the sanitised units report it)
#endif
#ifndef VF_PROP
#define VF_PROP 13
#endif
#ifndef VF_ASAN
#define VF_ASAN 0
#endif

namespace tc {

constexpr int EC_TOO_LARGE = int(std::errc::value_too_large);

// ---------------------------------------------------------------------------------------------
// sentinel arena

constexpr size_t PAD = 4096, MID = 1024, RS = PAD + MID + PAD, GUARD = size_t(1) << 20;
static unsigned char* R = nullptr;
static unsigned char PAT[RS];

static void arena_init()
{
    if (R) return;
    void* m = mmap(nullptr, GUARD + RS + GUARD, PROT_NONE, MAP_PRIVATE | MAP_ANONYMOUS, -1, 0);
    if (m == MAP_FAILED) ref::die("arena mmap");
    R = static_cast<unsigned char*>(m) + GUARD;
    if (mprotect(R, RS, PROT_READ | PROT_WRITE) != 0) ref::die("arena mprotect");
    for (size_t i = 0; i < RS; ++i) PAT[i] = static_cast<unsigned char>(0x80u | ((i * 37u + (i >> 7)) & 0x7fu));
    memcpy(R, PAT, RS);
}

struct TCR {
    char* ptr;
    int ec;
};

struct CallRes {
    vf::Outcome o;
    char* first = nullptr;
    char* last = nullptr;
    char* ptr = nullptr;
    int ec = 0;
    // sentinel damage outside [first,last): number of changed bytes, lowest and highest changed
    // position relative to first (negative) / last (>= 0)
    long oob_bytes = 0;
    long oob_lo = 0, oob_hi = 0;  // offsets relative to `first` of lowest / highest changed byte
    bool unwritten = false;  // success, but a byte of [first,p) still holds the filler
    bool past_p = false;  // success, but a byte of [p,last) was changed
    std::string text;  // [first,p) if the call succeeded with first <= p <= last
    bool success() const { return o.ok() && ec == 0 && ptr > first && ptr <= last; }
    bool clean() const { return o.ok() && oob_bytes == 0; }
    std::string where() const
    {
        if (!oob_bytes) return "";
        long len = long(last - first);
        auto rel = [&](long off) { return off < 0 ? "first" + std::to_string(off) : "last+" + std::to_string(off - len); };
        return std::to_string(oob_bytes) + " byte(s) outside [first,last) changed, from " + rel(oob_lo) + " to " + rel(oob_hi);
    }
};

#if VF_ASAN
static char* g_heap = nullptr;
#endif

template<class F>
[[gnu::noinline]] static CallRes guarded(int len, F&& f)
{
    CallRes r;
#if VF_ASAN
    // ASan build: an exactly sized heap block, red zones on both sides
    free(g_heap);
    g_heap = static_cast<char*>(malloc(size_t(len)));
    if (!g_heap) ref::die("malloc");
    memset(g_heap, 0xee, size_t(len));
    r.first = g_heap;
#else
    r.first = reinterpret_cast<char*>(R) + PAD;
#endif
    r.last = r.first + len;
    TCR t{nullptr, -1};
    char* const fi = r.first;
    char* const la = r.last;
    r.o = vf::run([&] { t = f(fi, la); });
    r.ptr = t.ptr;
    r.ec = t.ec;
#if VF_ASAN
    if (r.o.ok() && r.ec == 0 && r.ptr >= r.first && r.ptr <= r.last) r.text.assign(r.first, r.ptr);
#else
    // everything outside [first,last)
    size_t const b = PAD, e = PAD + size_t(len);
    if (memcmp(R, PAT, b) != 0 || memcmp(R + e, PAT + e, RS - e) != 0) {
        bool any = false;
        for (size_t i = 0; i < RS; ++i) {
            if (i >= b && i < e) continue;
            if (R[i] != PAT[i]) {
                long off = long(i) - long(PAD);
                if (!any) r.oob_lo = off;
                r.oob_hi = off;
                any = true;
                r.oob_bytes++;
            }
        }
    }
    if (r.o.ok() && r.ec == 0 && r.ptr >= r.first && r.ptr <= r.last) {
        r.text.assign(r.first, r.ptr);
        size_t const p = PAD + size_t(r.ptr - r.first);
        for (size_t i = b; i < p; ++i)
            if (R[i] == PAT[i]) r.unwritten = true;
        for (size_t i = p; i < e; ++i)
            if (R[i] != PAT[i]) r.past_p = true;
    }
    if (r.oob_bytes) memcpy(R, PAT, RS);
    else memcpy(R + b, PAT + b, size_t(len));
#endif
    return r;
}

// ---------------------------------------------------------------------------------------------
// exact decimal expansion of mag * radix^e

struct Expansion {
    bool zero = false;
    bool finite = true;  // X * 10^xq is the value exactly; otherwise it is its truncation
    std::string X;  // digits, no leading zeros; no trailing zeros when finite
    int xq = 0;  // decimal exponent of the last digit of X
    int xtop() const { return xq + int(X.size()) - 1; }  // decimal exponent of the leading digit
    int sig() const { return int(X.size()); }
};

struct Scale {
    int radix = 2, e = 0;
    int K = 0;  // 10^K * radix^e is the integer `mult` (finite expansions)
    Big mult{1};
    bool always_finite = true;
    Big den{1};  // radix^-e (e < 0), for the general path
};

static Scale make_scale(int radix, int e)
{
    Scale s;
    s.radix = radix;
    s.e = e;
    if (e >= 0) {
        s.mult = Big::pow(Big(radix), e);
        return s;
    }
    int k = -e;
    s.den = Big::pow(Big(radix), k);
    // radix = 2^a * 5^b exactly?
    int a = 0, b = 0, t = radix;
    while (t % 2 == 0) {
        t /= 2;
        ++a;
    }
    while (t % 5 == 0) {
        t /= 5;
        ++b;
    }
    if (t == 1) {
        int m = a > b ? a : b;
        s.K = m * k;
        // 10^K / radix^k = 2^(K - a k) * 5^(K - b k)
        s.mult = Big::pow(Big(2), s.K - a * k) * Big::pow(Big(5), s.K - b * k);
    } else
        s.always_finite = false;
    return s;
}

static Expansion expand(Big const& mag, Scale const& s)
{
    Expansion ex;
    if (mag.is_zero()) {
        ex.zero = true;
        return ex;
    }
    Big N;
    if (s.always_finite) {
        N = mag * s.mult;
        ex.xq = -s.K;
    } else {
        Big g = Big::gcd(mag, s.den);
        Big num = mag / g, den = s.den / g;
        int a = 0, b = 0;
        Big t = den;
        while ((t % Big(2)).is_zero()) {
            t = t / Big(2);
            ++a;
        }
        while ((t % Big(5)).is_zero()) {
            t = t / Big(5);
            ++b;
        }
        int K;
        if (t == Big(1)) K = a > b ? a : b;
        else {
            K = 130;
            ex.finite = false;
        }
        N = num * Big::pow(Big(10), K) / den;
        ex.xq = -K;
    }
    ex.X = N.str();
    if (ex.finite)
        while (ex.X.size() > 1 && ex.X.back() == '0') {
            ex.X.pop_back();
            ++ex.xq;
        }
    return ex;
}

static int declen(int v)
{
    int n = v < 0 ? 1 : 0;
    long a = v < 0 ? -long(v) : long(v);
    do {
        ++n;
        a /= 10;
    } while (a);
    return n;
}

// length of the complete text of a non-zero magnitude in CNL's two layouts
static int fixed_len(Expansion const& ex)
{
    int n = ex.sig();
    if (ex.xq >= 0) return n + ex.xq;
    int intd = n + ex.xq > 0 ? n + ex.xq : 0;
    return intd + 1 + (-ex.xq);
}
static int sci_len(Expansion const& ex) { return ex.sig() + 2 + declen(ex.xtop()); }
// characters needed to show the first significant digit
static int fixed_need1(Expansion const& ex) { return ex.xtop() >= 0 ? ex.xtop() + 1 : 1 - ex.xtop(); }
static int sci_need1(Expansion const& ex) { return 3 + declen(ex.xtop()); }

// ---------------------------------------------------------------------------------------------
// independent parsers

struct Parsed {
    bool ok = false;
    bool neg = false;
    bool has_point = false, has_exp = false;
    std::string ip, fp;
    long exp = 0;
};

static bool isdig(char c) { return c >= '0' && c <= '9'; }

static Parsed parse_decimal(std::string const& t)
{
    Parsed p;
    size_t i = 0, n = t.size();
    if (i < n && t[i] == '-') {
        p.neg = true;
        ++i;
    }
    while (i < n && isdig(t[i])) p.ip += t[i++];
    if (i < n && t[i] == '.') {
        p.has_point = true;
        ++i;
        while (i < n && isdig(t[i])) p.fp += t[i++];
    }
    if (p.ip.empty() && p.fp.empty()) return p;
    if (i < n && t[i] == 'e') {
        p.has_exp = true;
        ++i;
        bool eneg = false;
        if (i < n && (t[i] == '+' || t[i] == '-')) {
            eneg = t[i] == '-';
            ++i;
        }
        size_t d0 = i;
        long v = 0;
        while (i < n && isdig(t[i]) && i - d0 < 7) v = v * 10 + (t[i++] - '0');
        if (i == d0) return p;
        p.exp = eneg ? -v : v;
    }
    if (i != n) return p;
    p.ok = true;
    return p;
}

static std::string numeral(Big const& v, int base)
{
    if (v.is_zero()) return "0";
    Big t = v.abs(), B(base);
    std::string s;
    while (!t.is_zero()) {
        Big q, r;
        Big::divmod(t, B, q, r);
        int d = r.is_zero() ? 0 : int(r.l[0]);
        s += char(d < 10 ? '0' + d : 'a' + d - 10);
        t = q;
    }
    if (v.neg) s += '-';
    std::reverse(s.begin(), s.end());
    return s;
}

// value of a numeral in `base` accepting upper/lower case, sign, leading zeros; ok=false if a
// character is not a digit of the base
static bool parse_numeral(std::string const& t, int base, Big& out)
{
    size_t i = 0;
    bool neg = false;
    if (i < t.size() && (t[i] == '-' || t[i] == '+')) {
        neg = t[i] == '-';
        ++i;
    }
    if (i == t.size()) return false;
    Big r(0), B(base);
    for (; i < t.size(); ++i) {
        int d;
        char c = t[i];
        if (c >= '0' && c <= '9') d = c - '0';
        else if (c >= 'a' && c <= 'z') d = c - 'a' + 10;
        else if (c >= 'A' && c <= 'Z') d = c - 'A' + 10;
        else return false;
        if (d >= base) return false;
        r = r * B + Big(d);
    }
    out = neg ? -r : r;
    return true;
}

static std::string show(std::string const& s)
{
    std::string o = "\"";
    for (unsigned char c : s) {
        if (c >= 0x20 && c < 0x7f) o += char(c);
        else {
            char b[8];
            snprintf(b, sizeof b, "\\x%02x", c);
            o += b;
        }
    }
    return o + "\"";
}


// outcome text with the include-chain dependent path of an assert message reduced to dir/file
static std::string short_outcome(vf::Outcome const& o)
{
    std::string t = o.str();
    size_t a = t.find("(/");
    if (a == std::string::npos) return t;
    size_t c = t.find(".h:", a);
    if (c == std::string::npos) return t;
    size_t sl = t.rfind('/', c);
    size_t sl2 = sl == std::string::npos || sl == 0 ? std::string::npos : t.rfind('/', sl - 1);
    if (sl2 == std::string::npos || sl2 < a) return t;
    return t.substr(0, a + 1) + t.substr(sl2 + 1);
}

// outcome histogram of the current program, flushed into the engine's record when the program ends
// (the engine's map<string> costs more than the call under test)
struct Tally {
    struct E {
        const char* k;
        uint64_t n;
    };
    std::vector<E> v;
    void add(const char* k)
    {
        for (E& e : v)
            if (e.k == k || strcmp(e.k, k) == 0) {
                e.n++;
                return;
            }
        v.push_back(E{k, 1});
    }
    void flush()
    {
        for (E& e : v) vf::g.cur->outcomes[e.k] += e.n;
        v.clear();
    }
};
static Tally tally;

static std::string mkid(std::string const& idb, int len) { return idb + ",len=" + std::to_string(len); }

// ---------------------------------------------------------------------------------------------
// what the oracle knows about one printed value (independent of the buffer length)

static bool model_descale_headroom_exhausted(Big sig, int radix, int e, Big const& M);
struct Subject {
    const char* kind = "integer";  // integer | scaled | seam
    bool scaled = false;
    bool neg = false, zero = false, lowest = false;
    int base = 10;
    std::string num;  // integers: the canonical numeral
    Expansion ex;  // scaled / seam: |value|
    Big mag;  // |rep| (scaled) / digits (seam)
    Scale const* scale = nullptr;
    int full_len = 0;  // length of the complete text
    int capacity = 0;
    int repdigits = 0;
    bool hang_predicted = false;  // by model_descale_stuck
    std::string idv;
};

static void finish_scaled_subject(Subject& s)
{
    s.zero = s.ex.zero;
    if (s.zero) s.full_len = 1;
    else {
        int f = fixed_len(s.ex), c = sci_len(s.ex);
        s.full_len = (s.neg ? 1 : 0) + (f < c ? f : c);
    }
}

// magnitude class of a non-zero scaled value: which layout shows the first significant digit in
// fewer characters (fixed: all integer digits, or the point and the leading zeros; scientific: d.e<N>)
static bool sci_shorter(Subject const& s) { return sci_need1(s.ex) < fixed_need1(s.ex); }
static const char* magclass(Subject const& s)
{
    if (s.ex.xtop() < 0) return sci_shorter(s) ? "mag<1e-4" : "mag<1";
    return sci_shorter(s) ? "mag>=1e4" : "mag<1e4";
}

static std::string region(Subject const& s, int len)
{
    std::string r = s.kind;
    r += s.zero ? "/zero" : (s.lowest ? "/lowest" : (s.neg ? "/neg" : "/pos"));
    if (!s.scaled) {
        r += len == 0 ? "/len=0" : (len < s.full_len ? "/len<text" : "/len>=text");
        return r;
    }
    if (s.zero) return r + (len == 0 ? "/len=0" : "/len>=text");
    int room = len - (s.neg ? 1 : 0);
    int f1 = fixed_need1(s.ex), c1 = sci_need1(s.ex);
    int need1 = f1 < c1 ? f1 : c1;
    if (len == 0) r += "/len=0";
    else if (room == 0) r += "/room=0";
    else if (room < need1) r += "/room<first_digit";
    else if (len < s.full_len) r += "/room<text";
    else r += "/room>=text";
    r += "/";
    r += magclass(s);
    return r;
}

static std::string errs(int ec)
{
    if (ec == 0) return "errc{}";
    if (ec == EC_TOO_LARGE) return "value_too_large";
    return "errc(" + std::to_string(ec) + ")";
}

static std::string ptrs(CallRes const& r)
{
    if (r.ptr == nullptr) return "nullptr";
    if (r.ptr == r.last) return "last";
    if (r.ptr >= r.first && r.ptr < r.last) return "first+" + std::to_string(r.ptr - r.first);
    return "outside[first,last]";
}

// ---------------------------------------------------------------------------------------------
// C13: one to_chars call

static void check13(Subject const& s, int len, CallRes const& r, std::string const& idb)
{
    vf::validated();
    bool nontrivial = len < s.full_len || s.neg || (s.scaled && std::abs(s.scale->e) > s.repdigits);
    vf::counted(nontrivial);
    auto id = [&] { return mkid(idb, len); };
    if (vf::want_sample()) vf::sample(id() + " -> " + (r.o.ok() ? ("{" + ptrs(r) + "," + errs(r.ec) + "} " + show(r.text)) : short_outcome(r.o)));
    bool bad = false;
    if (r.oob_bytes) {
        vf::violation("oob_write/" + region(s, len), id(), id() + ": " + r.where() + (r.o.ok() ? "; returned {" + ptrs(r) + "," + errs(r.ec) + "}" : "; then " + short_outcome(r.o)));
        bad = true;
    }
    if (!r.o.ok()) {
        std::string o = short_outcome(r.o);
        vf::outcome(o);
        if (r.o.kind == vf::HANG) {
            // does not depend on the buffer (any non-empty one): classified by the value alone
            std::string reg = std::string(s.kind) + (s.lowest ? "/lowest" : (s.neg ? "/neg" : "/pos")) + (s.hang_predicted ? "/positive_exponent_descale_stuck" : "/not_predicted_by_the_descale_model");
            vf::violation(o + "/" + reg, id(), id() + ": " + o + " (to_chars did not return within the CPU limit)");
        } else
            vf::violation(o + "/" + region(s, len), id(), id() + ": " + o);
        return;
    }
    // can any layout show a significant digit in this buffer?
    bool digit_fits = true, tiny = false;
    if (s.scaled && !s.zero) {
        int f1 = fixed_need1(s.ex), c1 = sci_need1(s.ex);
        digit_fits = len - (s.neg ? 1 : 0) >= (f1 < c1 ? f1 : c1);
        tiny = s.ex.xtop() < 0 && c1 < f1;
    }
    if (r.ec == 0) {
        if (!(r.ptr > r.first && r.ptr <= r.last)) {
            tally.add("success_ptr_out_of_range");
            vf::violation("success_ptr_out_of_range/" + region(s, len), id(), id() + ": errc{} with ptr=" + ptrs(r));
            return;
        }
        if (r.unwritten) {
            vf::violation("success_unwritten_bytes/" + region(s, len), id(), id() + ": [first,p) not completely written, p=" + ptrs(r) + " text " + show(r.text));
            bad = true;
        }
        if (r.past_p) {
            vf::violation("wrote_past_returned_ptr/" + region(s, len), id(), id() + ": bytes in [p,last) changed, p=" + ptrs(r));
            bad = true;
        }
        if (bad) tally.add("bad_success");
        else if (!digit_fits) tally.add(tiny ? "ok_success_without_room_for_a_digit_mag<1e-4" : "ok_success_without_room_for_a_digit");
        else tally.add(len < s.full_len ? "ok_success_truncated_text" : (s.zero ? "ok_success_zero" : (s.neg ? "ok_success_negative" : "ok_success_positive")));
        return;
    }
    if (r.ec != EC_TOO_LARGE) {
        tally.add("unexpected_errc");
        vf::violation("unexpected_errc/" + region(s, len), id(), id() + ": ec=" + errs(r.ec));
        return;
    }
    if (r.ptr != r.last) {
        tally.add("fail_ptr_not_last");
        vf::violation(std::string("fail_ptr_not_last/") + (r.ptr == nullptr ? "nullptr/" : "other/") + region(s, len), id(), id() + ": {" + ptrs(r) + ",value_too_large}, expected ptr == last");
        return;
    }
    if (bad) {
        tally.add("bad_failure");
        return;
    }
    if (!s.scaled && len >= s.full_len) {
        // an integer has exactly one numeral: if it fits in [first,last) the call must succeed (for scaled values a
        // shorter, truncated text is legitimate, so this is judged for integers only)
        tally.add("fail_although_numeral_fits");
        vf::violation("fail_although_numeral_fits/" + region(s, len), id(), id() + ": {last,value_too_large} although the complete numeral (" + std::to_string(s.full_len) + " chars) fits the buffer");
        return;
    }
    if (len >= s.capacity) tally.add("fail_with_capacity_sized_buffer");
    else if (len >= s.full_len) tally.add("fail_although_text_fits");
    else if (len == 0) tally.add("ok_fail_empty_buffer");
    else if (!digit_fits) tally.add(tiny ? "ok_fail_no_room_for_a_digit_mag<1e-4" : "ok_fail_no_room_for_a_digit");
    else tally.add(s.scaled ? "ok_fail_although_a_digit_fits" : "ok_fail_too_small");
}

// ---------------------------------------------------------------------------------------------
// C14: text of one successful call

// P = S*10^q against |v| = mag * radix^e, exactly. returns 0 ok, 1 P > |v|, 2 error too large
static int slow_compare(std::string const& S, long q, Subject const& s, bool& equal)
{
    Big Sv = S.empty() ? Big(0) : Big::parse(S.c_str(), 10);
    Scale const& sc = *s.scale;
    Big A = sc.e < 0 ? Big::pow(Big(sc.radix), -sc.e) : Big(1);
    Big Rp = sc.e > 0 ? Big::pow(Big(sc.radix), sc.e) : Big(1);
    Big B = q < 0 ? Big::pow(Big(10), int(-q)) : Big(1);
    Big Tq = q > 0 ? Big::pow(Big(10), int(q)) : Big(1);
    Big Pn = Sv * Tq * A, Vn = s.mag * Rp * B;  // over the common denominator A*B
    equal = Pn == Vn;
    if (Pn > Vn) return 1;
    Big D = Vn - Pn;
    Big unit = q < 0 ? A : Tq * A * B;
    if (D.shl(50) < unit.shl(50) + Vn) return 0;
    return 2;
}

static void check14_scaled(Subject const& s, int len, CallRes const& r, std::string const& idb)
{
    vf::validated();
    std::string const& t = r.text;
    bool fits = len >= s.full_len;
    bool must_be_exact = s.zero || (s.ex.finite && s.ex.sig() <= 18 && fits);
    vf::counted(!fits);
    auto id = [&] { return mkid(idb, len); };
    if (vf::want_sample()) vf::sample(id() + " -> " + show(t));
    Parsed p = parse_decimal(t);
    if (!p.ok) {
        tally.add("unparsable");
        vf::violation("unparsable/" + region(s, len), id(), id() + ": text " + show(t) + " does not match -?(d+(.d*)?|.d+)(e[+-]?d+)?");
        return;
    }
    if (p.neg != s.neg) {
        // "-0" for a zero value and an unsigned text for a negative value both land here
        tally.add("wrong_sign");
        vf::violation(std::string("sign/") + (p.neg ? "minus_for_nonnegative/" : "no_minus_for_negative/") + region(s, len), id(), id() + ": text " + show(t));
        return;
    }
    std::string S = p.ip + p.fp;
    long q = p.exp - long(p.fp.size());
    size_t lead = 0;
    while (lead < S.size() && S[lead] == '0') ++lead;
    std::string Sn = S.substr(lead);
    const char* layout = p.has_exp ? "sci" : "fixed";
    if (s.zero) {
        if (!Sn.empty()) {
            tally.add("wrong_value");
            vf::violation("value/nonzero_text_for_zero/" + region(s, len), id(), id() + ": text " + show(t));
        } else
            tally.add(t == "0" ? "ok_zero" : "ok_zero_noncanonical");
        return;
    }
    Expansion const& ex = s.ex;
    bool fast = false, exact = false;
    if (Sn.empty()) {
        fast = ex.xtop() < q;  // |v| < 10^q
    } else {
        long stop = q + long(Sn.size()) - 1;
        if (stop == ex.xtop() && (ex.finite || Sn.size() <= ex.X.size())) {
            fast = true;
            for (size_t i = 0; i < Sn.size(); ++i) {
                char xd = i < ex.X.size() ? ex.X[i] : '0';
                if (Sn[i] != xd) {
                    fast = false;
                    break;
                }
            }
            // remaining digits of X all printed?
            if (fast && ex.finite) exact = Sn.size() >= ex.X.size();
        }
    }
    int verdict = 0;
    if (!fast) {
        bool eq = false;
        verdict = slow_compare(Sn, q, s, eq);
        exact = eq;
    }
    auto truth = [&] { return ex.X + "e" + std::to_string(ex.xq) + (ex.finite ? "" : "..."); };
    if (verdict == 1) {
        tally.add("wrong_value");
        vf::violation(std::string("value/magnitude_exceeds_true_value/") + layout + "/" + region(s, len), id(), id() + ": text " + show(t) + " exceeds |v| = " + truth());
        return;
    }
    if (verdict == 2) {
        tally.add("wrong_value");
        vf::violation(std::string("value/error_not_below_last_digit/") + layout + "/" + region(s, len), id(), id() + ": text " + show(t) + " vs |v| = " + truth() + ": |v|-P >= 10^" + std::to_string(q) + " + |v|*2^-50");
        return;
    }
    if (must_be_exact && !exact) {
        tally.add("inexact_although_fits");
        std::string hl;
        if (s.scale && s.scale->e < 0) {
            Big const sigmax = s.repdigits > 63 ? Big::pow2(s.repdigits) - Big(1) : Big(vals::max_v<i64>());
            if (model_descale_headroom_exhausted(s.mag, s.scale->radix, s.scale->e, sigmax)) hl = "/descale_headroom_exhausted";
        }
        vf::violation(std::string("value/inexact_although_expansion_fits/") + layout + "/" + region(s, len) + hl, id(), id() + ": text " + show(t) + ", exact value " + truth() + " (" + std::to_string(ex.sig()) + " significant digits, complete text " + std::to_string(s.full_len) + " chars, buffer " + std::to_string(len) + ")");
        return;
    }
    bool trailing_point = p.has_point && p.fp.empty() && !p.has_exp;
    if (Sn.empty()) tally.add(p.neg ? "ok_minus_zero_text_for_small_negative" : "ok_zero_text_for_small_positive");
    else if (lead > 0 && !p.ip.empty()) tally.add("ok_with_leading_zero");
    else if (p.has_exp) tally.add(exact ? "ok_sci_exact" : (fast ? "ok_sci_truncated" : "ok_sci_within_precision_limit"));
    else if (trailing_point) tally.add(exact ? "ok_fixed_exact_trailing_point" : (fast ? "ok_fixed_truncated_trailing_point" : "ok_fixed_within_precision_limit_trailing_point"));
    else tally.add(exact ? "ok_fixed_exact" : (fast ? "ok_fixed_truncated" : "ok_fixed_within_precision_limit"));
}

static void check14_int(Subject const& s, int len, CallRes const& r, std::string const& idb)
{
    vf::validated();
    vf::counted(s.neg || s.base != 10);
    std::string const& t = r.text;
    auto id = [&] { return mkid(idb, len); };
    if (vf::want_sample()) vf::sample(id() + " -> " + show(t));
    if (t == s.num) {
        tally.add(s.zero ? "ok_zero" : (s.lowest ? "ok_lowest" : (s.neg ? "ok_negative" : "ok_positive")));
        return;
    }
    std::string reg = std::string(s.kind) + (s.zero ? "/zero" : (s.lowest ? "/lowest" : (s.neg ? "/neg" : "/pos"))) + (s.base == 10 ? "/base10" : "/other_base");
    Big P;
    bool okp = parse_numeral(t, s.base, P);
    Big V;
    parse_numeral(s.num, s.base, V);
    if (okp && P == V) {
        tally.add("noncanonical");
        vf::violation("noncanonical/" + reg, id(), id() + ": text " + show(t) + ", canonical " + show(s.num));
    } else {
        tally.add("wrong_value");
        vf::violation(std::string(okp ? "value/" : "unparsable/") + reg, id(), id() + ": text " + show(t) + ", expected " + show(s.num));
    }
}

// ---------------------------------------------------------------------------------------------
// ---------------------------------------------------------------------------------------------
// type-erased program

struct StaticOut {
    int length = 0;
    int size = 0;  // chars.size()
    char bytes[512];
};

struct Ops {
    std::string name;
    bool scaled = false, is_signed = true, result_type_ok = true;
    int exponent = 0, radix = 2;
    int capacity = 0, static_cap = -1, repdigits = 0;
    Big lo, hi;
    void (*set)(Big const&) = nullptr;
    TCR (*tc)(char*, char*, int) = nullptr;
    void (*st)(StaticOut&) = nullptr;
    void (*str)(std::string&) = nullptr;
    void (*os)(std::string&, bool&) = nullptr;
};

template<class T>
inline T g_val{};

template<class T>
struct Th {
    using S = cv::scale_of<T>;
    static void set(Big const& v)
    {
        if constexpr (S::scaled) g_val<T> = cnl::_impl::from_rep<T>(cv::make_int<typename S::rep>(v));
        else g_val<T> = cv::make_int<T>(v);
    }
    static TCR tc(char* f, char* l, int base)
    {
        if constexpr (S::scaled) {
            auto r = cnl::to_chars(f, l, g_val<T>);
            return TCR{r.ptr, int(r.ec)};
        } else {
            auto r = cnl::to_chars(f, l, g_val<T>, base);
            return TCR{r.ptr, int(r.ec)};
        }
    }
    static void st(StaticOut& o)
    {
        auto r = cnl::to_chars_static(g_val<T>);
        o.length = r.length;
        o.size = int(r.chars.size());
        memcpy(o.bytes, r.chars.data(), r.chars.size() < sizeof o.bytes ? r.chars.size() : sizeof o.bytes);
    }
    static void str(std::string& s) { s = cnl::to_string(g_val<T>); }
    static void os(std::string& s, bool& good)
    {
        using cnl::operator<<;
        std::ostringstream ss;
        ss << g_val<T>;
        good = bool(ss);
        s = ss.str();
    }
};

template<class T>
Ops make_ops()
{
    using S = cv::scale_of<T>;
    using Rep = typename S::rep;
    Ops o;
    o.name = cv::rep_name<T>();
    o.scaled = S::scaled;
    o.exponent = S::exponent;
    o.radix = S::radix;
    o.lo = cv::lowest_of<Rep>();
    o.hi = cv::max_of<Rep>();
    o.is_signed = o.lo.neg;
    o.repdigits = cnl::digits_v<Rep>;
    o.capacity = cnl::_impl::to_chars_capacity<T>{}();
    o.set = &Th<T>::set;
    o.tc = &Th<T>::tc;
    o.st = &Th<T>::st;
    using SR = decltype(cnl::to_chars_static(std::declval<T const&>()));
    o.static_cap = int(sizeof(std::declval<SR>().chars)) - 1;
    if constexpr (S::scaled) {
        o.result_type_ok = std::is_same_v<decltype(cnl::to_chars((char*)nullptr, (char*)nullptr, std::declval<T const&>())), std::to_chars_result>;
        o.str = &Th<T>::str;
        o.os = &Th<T>::os;
    } else {
        o.result_type_ok = std::is_same_v<decltype(cnl::to_chars((char*)nullptr, (char*)nullptr, std::declval<T const&>(), 10)), std::to_chars_result>;
        // operator<< of the built-in types up to 64 bits is the standard library's, not CNL's
        if constexpr (!std::is_integral_v<T> || sizeof(T) > 8) o.os = &Th<T>::os;
    }
    return o;
}


// Defect model (DESIGN.md sec. 7b) of cnl::_impl::descale for a positive input exponent: the loop
//   while (in_exponent != 0 || sig % 10 == 0) { if (sig % 10 == 0) { sig /= 10; continue; }
//                                               if (sig <= max/10) { sig *= radix; --in_exponent; } }
// cannot leave a state with sig > max/10, sig % 10 != 0 and in_exponent != 0. A real hang costs
// >= 100 ms of CPU, and whole programs (every value of an 8/16-bit rep at E >= 53) consist of such
// values, so the model is used to ration them: the first predicted value of a program and then
// every 4^k-th one is executed (len = 1, generous time limit the first time); while the
// implementation does hang on these, the remaining lengths/values the model predicts are not
// executed and are counted as `not_run_hang_predicted_by_confirmed_defect_model` (the program is
// then no longer reported as full-type). The first sampled value that does NOT hang switches the
// model off for the rest of the program and everything is executed again.
static bool model_descale_stuck(Big sig, int radix, int e, Big const& M)
{
    Big const ten(10), lim = M / ten, rad(radix);
    int in_exp = e;
    for (int guard = 0; guard < 100000; ++guard) {
        bool div10 = (sig % ten).is_zero();
        if (in_exp == 0 && !div10) return false;
        if (div10) {
            sig = sig / ten;
            continue;
        }
        if (sig <= lim) {
            sig = sig * rad;
            --in_exp;
        } else
            return true;
    }
    return true;
}

// defect model of KF-C14-1 for negative exponents: the intended descale loop on unbounded integers; true if at some step a
// factor of ten was needed while the significand already exceeded max/10 (the library then drops precision instead)
static bool model_descale_headroom_exhausted(Big sig, int radix, int e, Big const& M)
{
    if (e >= 0 || radix == 10) return false;
    Big const ten(10), lim = M / ten, rad(radix);
    for (int in_exp = e; in_exp != 0; ++in_exp) {
        for (int guard = 0; guard < 200 && !(sig % rad).is_zero(); ++guard) {
            if (sig > lim) return true;
            sig = sig * ten;
        }
        sig = sig / rad;
    }
    return false;
}

struct HangModel {
    int state = 0;  // 0 not yet probed, 1 confirmed by the last probe, -1 refuted
    uint64_t npred = 0, notrun = 0;
};

// the fixed-capacity variants for the value currently set; ref = text of to_chars with a
// capacity-sized buffer (valid if have_ref)
static void static_variants(Ops const& P, Subject const& s, bool safe, bool have_ref, std::string const& ref, std::string const& idbase, bool have_any = false, std::string const& ref_any = std::string())
{
    struct V {
        const char* nm;
        int which;
    };
    for (V v : {V{"to_chars_static", 0}, V{"to_string", 1}, V{"operator<<", 2}}) {
        if (v.which == 1 && !P.str) continue;
        if (v.which == 2 && !P.os) continue;
        std::string id = idbase + "," + v.nm;
        if (vf::replaying() && !vf::case_selected(id)) continue;
        std::string reg = std::string(v.nm) + "/" + s.kind + (s.zero ? "/zero" : (s.lowest ? "/lowest" : (s.neg ? "/neg" : "/pos")));
        if (!safe) {
            // to_chars wrote outside a capacity-sized arena buffer for this value: the same call on
            // a stack object would smash the worker's stack; already reported by the arena case
            vf::outcome("static_not_run_unsafe");
            continue;
        }
        StaticOut so;
        std::string text;
        bool good = true;
        vf::Outcome o = vf::run([&] {
            if (v.which == 0) P.st(so);
            else if (v.which == 1) P.str(text);
            else P.os(text, good);
        });
        vf::validated();
        vf::counted(s.neg);
        if (vf::want_sample()) vf::sample(id + " -> " + (o.ok() ? show(v.which == 0 ? std::string(so.bytes, size_t(so.length > 0 && so.length < 500 ? so.length : 0)) : text) : short_outcome(o)));
#if VF_PROP == 13
        if (!o.ok()) {
            std::string os = short_outcome(o);
            vf::outcome(os);
            vf::violation(os + "/" + reg, id, id + ": " + os);
            continue;
        }
        if (v.which == 0) {
            if (so.size - 1 != P.capacity) vf::violation("static_capacity_differs/" + reg, id, id + ": array holds " + std::to_string(so.size - 1) + " chars, to_chars_capacity says " + std::to_string(P.capacity));
            if (so.length <= 0 || so.length > so.size - 1) {
                vf::outcome("static_bad_length");
                vf::violation("static_bad_length/" + reg, id, id + ": length " + std::to_string(so.length) + " capacity " + std::to_string(so.size - 1));
                continue;
            }
            if (so.bytes[so.length] != 0) {
                vf::outcome("static_not_terminated");
                vf::violation("static_not_terminated/" + reg, id, id + ": chars[length] != 0");
                continue;
            }
        } else if (text.empty() || !good) {
            vf::outcome("static_empty_text");
            vf::violation("static_empty_text/" + reg, id, id + ": empty text or failed stream");
            continue;
        }
        vf::outcome(std::string("ok_") + v.nm);
#else
        if (!o.ok()) {
            if (have_any) {
                std::string os = short_outcome(o);
                vf::outcome("static_call_fails");
                vf::violation("static_call_fails/" + os + "/" + reg, id, id + ": " + os + " although to_chars with an adequate buffer prints " + show(ref_any));
            } else
                vf::outcome("unsuccessful_call_out_of_scope");
            continue;
        }
        if (v.which == 0) text.assign(so.bytes, size_t(so.length > 0 && so.length < 500 ? so.length : 0));
        if (!have_ref) {
            vf::outcome("no_reference_text");
            continue;
        }
        if (text != ref) {
            vf::outcome("static_text_differs");
            vf::violation("text_differs_from_to_chars/" + reg, id, id + ": " + show(text) + " vs to_chars " + show(ref));
            continue;
        }
        // "to_chars with an adequate buffer" is read as a buffer of the fixed capacity (adequate for success). Where a longer
        // buffer would have printed more digits (the capacity is smaller than the complete expansion) the fixed-capacity text is
        // a shorter truncation of the same value: counted under its own outcome, judged by the truncation rules of to_chars
        if (have_any && ref_any != ref) vf::outcome(std::string("ok_same_text_as_capacity_sized_call_but_longer_buffer_prints_more_digits_") + v.nm);
        else
            vf::outcome(std::string("ok_same_text_") + v.nm);
#endif
    }
}

static void run_program(Ops const& P, std::vector<Big> const& values, bool full, std::vector<int> const& bases, bool statics)
{
    if (!vf::begin(P.name, full)) return;
    arena_init();
    if (!P.result_type_ok) vf::violation("result_type", "-", P.name + ": to_chars does not return std::to_chars_result");
    Scale sc = make_scale(P.radix, P.exponent);
    HangModel hm;
    Big const sigmax = P.repdigits > 63 ? P.hi : Big(vals::max_v<i64>());
    for (Big const& v : values) {
        if (!vf::my_row()) continue;
        P.set(v);
        for (int base : bases) {
            Subject s;
            s.kind = P.scaled ? "scaled" : "integer";
            s.scaled = P.scaled;
            s.neg = v.neg;
            s.zero = v.is_zero();
            s.lowest = P.is_signed && v == P.lo;
            s.base = base;
            s.capacity = P.capacity;
            s.repdigits = P.repdigits;
            s.mag = v.abs();
            s.scale = &sc;
            s.idv = v.str();
            int maxlen;
            if (P.scaled) {
                s.ex = expand(s.mag, sc);
                finish_scaled_subject(s);
                maxlen = P.capacity + 2;
            } else {
                s.num = numeral(v, base);
                s.full_len = int(s.num.size());
                int longest = int(std::max(numeral(P.lo, base).size(), numeral(P.hi, base).size()));
                maxlen = std::max(P.capacity, longest) + 2;
            }
            bool predicted = false, sample = false;
            s.hang_predicted = P.scaled && P.exponent > 0 && !s.zero && model_descale_stuck(s.mag, P.radix, P.exponent, sigmax);
            if (s.hang_predicted && !vf::replaying() && hm.state >= 0) {
                predicted = true;
                hm.npred++;
                // 1st, 4th, 16th, 64th ... predicted value of this program in this worker
                sample = (hm.npred & (hm.npred - 1)) == 0 && (__builtin_ctzll(hm.npred) % 2) == 0;
            }
            bool cap_safe = true, have_ref = false, have_any = false;
            std::string ref, ref_any;  // ref_any: text of the successful call with the longest buffer
            std::string const idb = s.idv + (P.scaled ? "" : ",base=" + std::to_string(base));
            for (int len = 0; len <= maxlen; ++len) {
                if (vf::replaying() && !vf::case_selected(mkid(idb, len))) continue;
                bool probe = false;
                if (predicted && hm.state >= 0 && len >= 1) {
                    if (!(sample && len == 1)) {
                        tally.add("not_run_hang_predicted_by_confirmed_defect_model");
                        hm.notrun++;
                        continue;
                    }
                    probe = true;
                }
                int const saved_ticks = vf::g.hang_ticks;
                if (probe && hm.state == 0 && vf::g.hang_ticks < 10) vf::g.hang_ticks = 10;  // first probe: 0.5 s of CPU
                CallRes r = guarded(len, [&](char* f, char* l) { return P.tc(f, l, base); });
                vf::g.hang_ticks = saved_ticks;
                if (probe) hm.state = r.o.kind == vf::HANG ? 1 : -1;
                if (r.success() && r.clean()) {
                    have_any = true;
                    ref_any = r.text;
                }
                if (len == P.static_cap) {
                    cap_safe = r.clean() && (!VF_UNSAN || r.success());
                    if (r.success()) {
                        have_ref = true;
                        ref = r.text;
                    }
                }
#if VF_PROP == 13
                check13(s, len, r, idb);
#else
                if (!r.success() || !r.clean()) {
                    tally.add("unsuccessful_call_out_of_scope");
                    continue;
                }
                if (P.scaled) check14_scaled(s, len, r, idb);
                else check14_int(s, len, r, idb);
#endif
            }
            if (statics && base == 10) {
                if (predicted && hm.state >= 0) {
                    tally.add("static_not_run_hang_predicted_by_confirmed_defect_model");
                    hm.notrun++;
                    continue;
                }
                if (vf::replaying()) {
                    // establish the reference for a replayed static case
                    CallRes r = guarded(P.static_cap, [&](char* f, char* l) { return P.tc(f, l, base); });
                    cap_safe = r.clean() && (!VF_UNSAN || r.success());
                    have_ref = r.success();
                    ref = r.text;
                    CallRes r2 = guarded(maxlen, [&](char* f, char* l) { return P.tc(f, l, base); });
                    have_any = r2.success() && r2.clean();
                    ref_any = r2.text;
                }
                static_variants(P, s, cap_safe, have_ref, ref, idb, have_any, ref_any);
            }
        }
    }
    if (hm.notrun) vf::g.cur->full_type = false;
    tally.flush();
}

// value space of a representation: complete when narrow, otherwise the lattice closed under the
// decade / base-power boundaries of the printed value (rep = floor(10^k / radix^E) + {-1,0,1},
// base^k + {-1,0,1})
template<class Rep>
static std::vector<Big> value_space(int fullbits, int step, int radix, int e, std::vector<int> const& bases, bool& full)
{
    full = cv::space_is_full<Rep>(fullbits);
    std::vector<Big> base = cv::space<Rep>(fullbits, step);
    if (full) return base;
    Big lo = cv::lowest_of<Rep>(), hi = cv::max_of<Rep>();
    std::set<Big, BigLess> s(base.begin(), base.end());
    auto add3 = [&](Big const& c) {
        for (int d = -1; d <= 1; ++d)
            for (int sg = -1; sg <= 1; sg += 2) {
                Big x = (c + Big(d)) * Big(sg);
                if (x >= lo && x <= hi) s.insert(x);
            }
    };
    for (int b : bases) {
        Big p(1);
        for (int k = 0; k < 260 && p <= hi + Big(1); ++k) {
            add3(p);
            p = p * Big(b);
        }
    }
    // decade boundaries of rep * radix^e
    Big re = Big::pow(Big(radix), e < 0 ? -e : e);
    for (int k = 0; k <= 120; ++k) {
        Big t = Big::pow(Big(10), k);
        if (e < 0) {
            add3(t * re);  // 10^k / radix^e
            add3(re / t);  // 10^-k / radix^e
        } else {
            add3(t / re);
        }
    }
    // odd values on a geometric progression (ratio 1.1875): some value in every band of magnitudes, with a full-length
    // expansion (an odd rep uses every fractional digit of a negative exponent)
    for (Big g(3); g <= hi; g = g + g.shr_trunc(3) + g.shr_trunc(4) + Big(1)) {
        Big o = g.low128() & 1 ? g : g + Big(1);
        for (int sg = -1; sg <= 1; sg += 2) {
            Big x = o * Big(sg);
            if (x >= lo && x <= hi) s.insert(x);
        }
    }
    return std::vector<Big>(s.begin(), s.end());
}

template<class T>
[[gnu::noinline]] static void prog_int(int fullbits, const char* tname)
{
    static const std::vector<int> bases{10, 2, 3, 8, 16, 36};
    Ops P = make_ops<T>();
    P.name = std::string("to_chars<") + tname + ">";
    bool full;
    auto vs = value_space<T>(fullbits, VF_TIER ? 1 : 2, 2, 0, bases, full);
    run_program(P, vs, full, bases, true);
}

template<class T>
[[gnu::noinline]] static void prog_scaled(int fullbits)
{
    static const std::vector<int> bases{10};
    using S = cv::scale_of<T>;
    Ops P = make_ops<T>();
    P.name = "to_chars<" + P.name + ">";
    bool full;
    auto vs = value_space<typename S::rep>(fullbits, VF_TIER ? 1 : 2, S::radix, S::exponent, bases, full);
    run_program(P, vs, full, bases, true);
}

// to_chars_static<Base>(integer): the capacity must hold every numeral of the type in that base
template<class T, int Base>
struct ThB {
    static void st(StaticOut& o)
    {
        auto r = cnl::to_chars_static<Base>(g_val<T>);
        o.length = r.length;
        o.size = int(r.chars.size());
        memcpy(o.bytes, r.chars.data(), r.chars.size() < sizeof o.bytes ? r.chars.size() : sizeof o.bytes);
    }
};

template<class T, int Base>
[[gnu::noinline]] static void prog_static_base(int fullbits, const char* tname)
{
    Ops P = make_ops<T>();
    std::string name = "to_chars_static<" + std::to_string(Base) + ">(" + tname + ")";
    bool full;
    auto vs = value_space<T>(fullbits, VF_TIER ? 1 : 2, 2, 0, {Base}, full);
    if (!vf::begin(name, full)) return;
    arena_init();
    using SR = decltype(cnl::to_chars_static<Base>(std::declval<T const&>()));
    int const cap = int(sizeof(std::declval<SR>().chars)) - 1;
    Scale sc = make_scale(2, 0);
    for (Big const& v : vs) {
        if (!vf::my_row()) continue;
        std::string id = v.str() + ",to_chars_static<" + std::to_string(Base) + ">";
        if (vf::replaying() && !vf::case_selected(id)) continue;
        P.set(v);
        std::string num = numeral(v, Base);
        bool lowest = P.is_signed && v == P.lo;
        std::string reg = std::string("to_chars_static/integer/base=") + std::to_string(Base) + (lowest ? "/lowest" : (int(num.size()) > cap ? "/numeral_longer_than_capacity" : "/numeral_fits_capacity"));
        // the same call on a fenced buffer of the same size first
        CallRes r = guarded(cap, [&](char* f, char* l) { return P.tc(f, l, Base); });
        if (!r.clean() || (VF_UNSAN && !r.success())) {
            vf::outcome("static_not_run_unsafe");
            continue;
        }
        StaticOut so;
        vf::Outcome o = vf::run([&] { ThB<T, Base>::st(so); });
        vf::validated();
        vf::counted(int(num.size()) > cap || v.neg);
        std::string text(so.bytes, size_t(o.ok() && so.length > 0 && so.length < 500 ? so.length : 0));
        if (vf::want_sample()) vf::sample(id + " -> " + (o.ok() ? show(text) : short_outcome(o)));
#if VF_PROP == 13
        if (!o.ok()) {
            std::string os = short_outcome(o);
            vf::outcome(os);
            vf::violation(os + "/" + reg, id, id + ": " + os + " (numeral " + show(num) + " needs " + std::to_string(num.size()) + " chars, capacity " + std::to_string(cap) + ")");
            continue;
        }
        if (so.length <= 0 || so.length > cap || so.bytes[so.length] != 0) {
            vf::outcome("static_bad_length");
            vf::violation("static_bad_length/" + reg, id, id + ": length " + std::to_string(so.length) + " capacity " + std::to_string(cap));
            continue;
        }
        vf::outcome(v.neg ? "ok_static_negative" : "ok_static_nonnegative");
#else
        if (!o.ok()) {
            // to_chars with an adequate buffer prints the numeral (checked by the to_chars programs); a fixed-capacity call
            // that traps or aborts instead does not "print the same text"
            std::string os = short_outcome(o);
            vf::outcome("static_call_fails");
            vf::violation("static_call_fails/" + os + "/" + reg, id, id + ": " + os + " although the numeral " + show(num) + " exists");
            continue;
        }
        if (text != num) {
            vf::outcome("wrong_value");
            vf::violation("value/" + reg, id, id + ": text " + show(text) + ", expected " + show(num));
            continue;
        }
        vf::outcome(v.neg ? "ok_static_negative" : "ok_static_nonnegative");
#endif
    }
    (void)sc;
}

// the layout seam: digits (a non-empty decimal digit string without leading zero) and a decimal
// exponent -> fixed or scientific text in [first,last). to_chars reaches it with last - first >= 0
// (the sign has been written before).
[[gnu::noinline]] static void prog_seam(int part, int nparts)
{
    std::string name = "to_chars_positive(digits,exponent)#" + std::to_string(part);
    if (!vf::begin(name, false)) return;
    arena_init();
    std::vector<std::string> digs;
    std::string const seq = "1234567890123456789";
    for (int n = 1; n <= 19; ++n) {
        digs.push_back(seq.substr(0, size_t(n)));
        digs.push_back(std::string(size_t(n), '9'));
        if (n >= 2) {
            digs.push_back("1" + std::string(size_t(n - 1), '0'));
            digs.push_back("1" + std::string(size_t(n - 2), '0') + "1");
            digs.push_back(std::string(size_t(n - 1), '5') + "0");
        }
    }
    int idx = 0;
    for (std::string const& d : digs) {
        if ((idx++ % nparts) != part) continue;
        if (!vf::my_row()) continue;
        Big mag = Big::parse(d.c_str(), 10);
        for (int e = -95; e <= 95; ++e) {
            Scale sc = make_scale(10, e);
            Subject s;
            s.kind = "seam";
            s.scaled = true;
            s.neg = false;
            s.mag = mag;
            s.scale = &sc;
            s.ex = expand(mag, sc);
            finish_scaled_subject(s);
            s.capacity = 1 << 20;
            s.repdigits = 1 << 20;
            std::string const idb = d + "e" + std::to_string(e);
            for (int len = 0; len <= 40; ++len) {
                if (vf::replaying() && !vf::case_selected(mkid(idb, len))) continue;
                CallRes r = guarded(len, [&](char* f, char* l) {
                    auto t = cnl::_impl::to_chars_positive(f, l, std::string_view(d), e);
                    return TCR{t.ptr, int(t.ec)};
                });
#if VF_PROP == 13
                check13(s, len, r, idb);
#else
                if (!r.success() || !r.clean()) {
                    tally.add("unsuccessful_call_out_of_scope");
                    continue;
                }
                check14_scaled(s, len, r, idb);
#endif
            }
        }
    }
    tally.flush();
}

}  // namespace tc

using E1 = cnl::elastic_integer<1>;
using E2 = cnl::elastic_integer<2>;
using E3 = cnl::elastic_integer<3>;
using E7 = cnl::elastic_integer<7>;
using E31 = cnl::elastic_integer<31>;
using OVN = cnl::overflow_integer<int>;
using RND = cnl::rounding_integer<int>;
using E7N8 = cnl::elastic_integer<7, std::int8_t>;  // representations of character type: text must still be a numeral
using OVU8 = cnl::overflow_integer<std::uint8_t>;
using OVU32 = cnl::overflow_integer<unsigned>;  // reps no wider than int but unsigned: values >= 2^31
using RNU32 = cnl::rounding_integer<unsigned>;
using E33N8 = cnl::elastic_integer<33, std::int8_t>;  // one-byte Narrowest, but a 64-bit rep
using EU32N8 = cnl::elastic_integer<32, std::uint8_t>;
using W7C = cnl::wide_integer<7, signed char>;
using W100 = cnl::wide_integer<100>;
using W200 = cnl::wide_integer<200>;
using W100U = cnl::wide_integer<100, unsigned>;

static void group()
{
#define I(T, FB, NAME) tc::prog_int<T>(FB, NAME);
#define S(REP, E, RADIX, FB) tc::prog_scaled<cnl::scaled_integer<REP, cnl::power<E, RADIX>>>(FB);
#define ST(T, BASE, FB, NAME) tc::prog_static_base<T, BASE>(FB, NAME);
#define SEAM(K, N) tc::prog_seam(K, N);
#include "programs.inc"
}
VF_GROUP(group);
VF_MAIN()
