// C20 — cnl::exp2(scaled_integer) is within one unit of the truncated true 2^x (exact for integral
// x), and the <numbers> constants of scaled_integer are within one unit of the last place.
//
// Programs come from checks/C20.py through programs.inc:
//   X(Rep, E)        exp2 over scaled_integer<Rep, power<E>> (result type: the same type)
//   K(name, Rep, E)  std::numbers::name_v<scaled_integer<Rep, power<E>>>
//
// Part 1 (exp2). State = (Rep, E, rep value of x). x = rep * 2^E.
//   * 8/16-bit Rep: every rep value of the type.
//   * 32-bit Rep: the *window* E-2 <= x < digits+E completely when the format has at most KFREE
//     fractional bits (KFREE = 20 thorough, 16 quick); for finer formats every window value whose
//     low (-E-KFREE) bits are all-0, all-1, 1000.. or 0111.. (stated lattice). Signed Rep: below
//     the window (x < E-2, where the true result truncates to 0) every rep whose low 16 bits are
//     0000/ffff/8000/7fff plus the five values next to the window and the type minimum.
//   Precondition, decided exactly before CNL runs: the true result is representable in the result
//   rep, i.e. 2^x < 2^(digits+E)  <=>  x < digits + E (2^x is monotone; no oracle needed).
//   Oracle, never the implementation:
//     x < E            true 2^x < 2^E, truncated rep c = 0
//     x integral >= E  rep must be exactly 2^(x-E)   (the "exact for integral x" clause is applied
//                      where 2^x is a multiple of the resolution; for x < E it cannot be exact and
//                      the +-1 clause applies)
//     otherwise        t = exp2l(x) (x is exact in long double), ASSUMED |t - 2^x| <= 2^-60 * 2^x.
//                      v = t * 2^-E; candidates lo = floor(v(1-2^-59)), hi = floor(v(1+2^-59))
//                      (2^-59 swallows the rounding of the two products): the true truncated rep is
//                      in [lo, hi]. Accept iff |got-lo| <= 1 or |got-hi| <= 1. lo != hi is the
//                      inconclusive window and is counted (outcome inconclusive_window_*).
//     exact cross-check (independent of libm) whenever x - E = n/2^k with k <= 7 and the powers fit
//     1500 bits: c <= 2^(n/2^k)  <=>  c^(2^k) <= 2^n in integer arithmetic. It must confirm
//     lo <= c* <= hi (else class oracle/exp2l_error_exceeds_assumption) and resolves lo != hi.
//     All 8-bit formats are decided by it.
//
// Part 2 (constants). State = (constant, Rep, E) for every E from the smallest exponent at which
// the constant fits up to +2. Reference: 45-decimal truncations of the true constants (sympy
// N(.,60), six of them cross-checked by series/isqrt in Python integers): C_lit <= C < C_lit+1e-45.
// Property: |value - C| < 2^E. With d_hi = value - C_lit and d_lo = d_hi - 1e-45 (d_lo < d <= d_hi):
// holds if d_hi < 2^E and d_lo >= -2^E; violated if d_lo >= 2^E or d_hi <= -2^E; anything else is
// counted as inconclusive_literal_precision (never observed: needs a 1e-45 coincidence).
#include "cnlval.h"

#include <cmath>
#include <numbers>

using cnl::power;
using cnl::scaled_integer;

template<class Rep, int E>
using SI = scaled_integer<Rep, power<E>>;

// ---------------------------------------------------------------------------------------------
// fast bookkeeping on top of the engine (hot loops of > 10^8 cases): outcome counters are kept in
// an array and flushed into the program record; violation strings are only built while the class
// still collects cases/examples, afterwards only count and digest are maintained.

namespace fastrec {
enum Out : int {
    OK_BELOW_RES_0,
    OK_BELOW_RES_1,
    OK_INTEGRAL_EXACT,
    OK_FRAC_EQUAL,
    OK_FRAC_MINUS1,
    OK_FRAC_PLUS1,
    INCONCLUSIVE_OK,
    EXACT_CONFIRMS_EXP2L,
    EXACT_RESOLVED_WINDOW,
    WRONG_VALUE,
    N_OUT
};
static const char* const out_name[N_OUT] = {
        "ok_below_resolution_rep0",
        "ok_below_resolution_rep1",
        "ok_integral_exact",
        "ok_frac_equal_truncated",
        "ok_frac_one_below",
        "ok_frac_one_above",
        "inconclusive_window_two_candidates_accepted",
        "oracle_exact_power_check_confirms_exp2l",
        "oracle_exact_power_check_resolved_window",
        "wrong_value",
};
struct Counters {
    uint64_t n[N_OUT] = {};
    void flush()
    {
        for (int i = 0; i < N_OUT; ++i)
            if (n[i]) vf::g.cur->outcomes[out_name[i]] += n[i];
    }
};
// record a violation; strings are built by the callbacks only when they will be stored
template<class IdF, class DetailF>
inline void violation(std::map<std::string, vf::ViolationClass*>& cache, std::string const& key, IdF&& idf, DetailF&& detailf)
{
    vf::ViolationClass*& p = cache[key];
    if (!p) p = &vf::g.cur->viol[key];
    std::string id = idf();
    if (p->cases.size() < vf::g.case_cap || p->examples.size() < 3) {
        vf::violation(key, id, detailf());
        return;
    }
    p->count++;
    p->digest += vf::fnv(id);
}
}  // namespace fastrec

// ---------------------------------------------------------------------------------------------
// Part 1: exp2

// c^(2^k) compared with 2^n; capacity checked by the caller
static int cmp_pow(i64 c, int k, int n)
{
    Big p(c);
    for (int i = 0; i < k; ++i) p = p * p;
    return Big::cmp(p, Big::pow2(n));
}

static const char* frac_region(bool neg, unsigned q)
{
    static const char* const pos[4] = {"frac_q0", "frac_q1", "frac_q2", "frac_q3"};
    static const char* const ng[4] = {"neg_x_frac_q0", "neg_x_frac_q1", "neg_x_frac_q2", "neg_x_frac_q3"};
    return (neg ? ng : pos)[q & 3];
}

struct Seg {
    i64 lo, hi_excl;  // rep range
    int L;  // number of patterned low bits (0: every value)
};

#ifndef C20_KFREE
#define C20_KFREE (VF_TIER ? 20 : 16)
#endif

template<class Rep, int E>
[[gnu::noinline]] void prog_exp2()
{
    using T = SI<Rep, E>;
    using R = decltype(cnl::exp2(std::declval<T>()));
    using RRep = typename cv::scale_of<R>::rep;
    constexpr int W = vals::bits_v<Rep>;
    constexpr bool S = vals::is_signed_v<Rep>;
    constexpr int D = W - (S ? 1 : 0);
    static_assert(D + E >= 1, "the property quantifies over formats with at least one integer bit");
    static_assert(W <= 32);
    constexpr int F = E < 0 ? -E : 0;
    constexpr int KFREE = C20_KFREE;
    constexpr i64 tmin = i64(vals::min_v<Rep>()), tmax = i64(vals::max_v<Rep>());
    // smallest rep whose x is >= D+E (result no longer representable)
    constexpr i64 rep_lim = E < 0 ? (i64(D + E) << F) : ((i64(D + E) + (i64(1) << (E < 0 ? 0 : E)) - 1) >> (E < 0 ? 0 : E));

    std::vector<Seg> segs;
    bool full = true;
    if constexpr (W <= 16) {
        segs.push_back({tmin, tmax + 1, 0});
    } else {
        i64 wlo = E < 0 ? i64(E - 2) * (i64(1) << F) : i64(-2);
        if (wlo < tmin) wlo = tmin;
        i64 whi = rep_lim < tmax + 1 ? rep_lim : tmax + 1;
        if (tmin < wlo) {
            full = false;
            segs.push_back({tmin, tmin + 2, 0});
            i64 const near = wlo - 5 > tmin + 2 ? wlo - 5 : tmin + 2;
            segs.push_back({tmin + 2, near, 16});
            segs.push_back({near, wlo, 0});
        }
        int L = F > KFREE ? F - KFREE : 0;
        if (L) full = false;
        segs.push_back({wlo, whi, L});
    }
    std::string name = "exp2<" + vf::tn<Rep>() + "," + std::to_string(E) + ">";
    if (!vf::begin(name, full)) return;
    vf::validated();
    if (!std::is_same_v<R, T>)
        vf::violation("exp2/result_type", "-", name + ": result type is x 2^" + std::to_string(cv::scale_of<R>::exponent) + " over " + vf::tn<RRep>() + ", documented: the type of x");

    bool const replay = vf::replaying();
    i64 replay_rep = 0;
    if (replay) {
        std::string const& c = vf::g.replay_case;
        if (c.rfind("rep=", 0) != 0) return;
        replay_rep = atoll(c.c_str() + 4);
    }
    fastrec::Counters cnt;
    std::map<std::string, vf::ViolationClass*> vcache;
    long double const one_m = 1.0L - 0x1p-59L, one_p = 1.0L + 0x1p-59L;

    auto one_case = [&](i64 rep) {
        if (replay && rep != replay_rep) return;
        if (rep >= rep_lim) {
            vf::skip_pre();
            return;
        }
        // integer part and fraction of x
        i64 ip;
        u64 fr;
        if constexpr (E < 0) {
            ip = rep >> F;
            fr = u64(rep) & ((u64(1) << F) - 1);
        } else {
            ip = rep * (i64(1) << E);
            fr = 0;
        }
        T x = cnl::_impl::from_rep<T>(Rep(rep));
        RRep got{};
        vf::Outcome o = vf::run([&] { got = cnl::_impl::to_rep(cnl::exp2(x)); });
        vf::validated();
        i64 const g = i64(got);
        bool const below = ip < E;
        bool const integral = !below && fr == 0;
        vf::counted(!below && !integral);
        auto idf = [&] { return "rep=" + vf::to_s(rep); };
        auto xtext = [&] { return name + " x = " + vf::to_s(rep) + " * 2^" + std::to_string(E) + " (" + vf::to_s(double(std::ldexp((long double)rep, E))) + ")"; };
        char const* region = below ? "below_resolution" : (integral ? "integral" : frac_region(rep < 0, F >= 2 ? unsigned(fr >> (F - 2)) : unsigned(fr << (2 - F))));
        if (vf::want_sample()) vf::sample(xtext() + " -> rep " + (o.ok() ? vf::to_s(g) : o.str()));
        if (!o.ok()) {
            vf::outcome(o.str());
            fastrec::violation(
                    vcache, std::string("exp2/") + vf::kind_name(o.kind) + "/" + region, idf, [&] { return xtext() + ": " + o.str(); });
            return;
        }
        if (below) {
            // true 2^x < 2^E: truncated rep 0
            if (g == 0) cnt.n[fastrec::OK_BELOW_RES_0]++;
            else if (g == 1 || g == -1)
                cnt.n[fastrec::OK_BELOW_RES_1]++;
            else {
                cnt.n[fastrec::WRONG_VALUE]++;
                fastrec::violation(vcache, "exp2/off_by_more_than_one/below_resolution", idf, [&] { return xtext() + ": true result truncates to rep 0, got rep " + vf::to_s(g); });
            }
            return;
        }
        if (integral) {
            i64 const want = i64(1) << (ip - E);
            if (g == want) cnt.n[fastrec::OK_INTEGRAL_EXACT]++;
            else {
                cnt.n[fastrec::WRONG_VALUE]++;
                fastrec::violation(vcache, "exp2/integral_x_not_exact", idf, [&] { return xtext() + ": expected exactly rep " + vf::to_s(want) + " (2^" + vf::to_s(ip) + "), got rep " + vf::to_s(g); });
            }
            return;
        }
        // non-integral x >= E
        long double const xl = std::ldexp((long double)rep, E);
        long double const v = std::ldexp(exp2l(xl), -E);
        i64 lo = i64(std::floor(v * one_m)), hi = i64(std::floor(v * one_p));
        // independent exact decision where the powers are small enough
        if constexpr (E < 0) {
            i64 n = rep + (i64(F) << F);  // (x - E) * 2^F  > 0
            int k = F;
            int tz = __builtin_ctzll(u64(n));
            if (tz > k) tz = k;
            n >>= tz;
            k -= tz;
            if (k <= 7) {
                int bl = 64 - __builtin_clzll(u64(hi + 2));
                if ((i64(bl) << k) <= 1500 && n <= 1500) {
                    bool lo_ok = cmp_pow(lo, k, int(n)) <= 0;
                    bool hi_ok = cmp_pow(hi + 1, k, int(n)) > 0;
                    if (!lo_ok || !hi_ok) {
                        fastrec::violation(vcache, "oracle/exp2l_error_exceeds_assumption", idf, [&] { return xtext() + ": exp2l candidates [" + vf::to_s(lo) + "," + vf::to_s(hi) + "] do not bracket the exact truncated value"; });
                        return;
                    }
                    cnt.n[fastrec::EXACT_CONFIRMS_EXP2L]++;
                    if (lo != hi) {
                        cnt.n[fastrec::EXACT_RESOLVED_WINDOW]++;
                        if (cmp_pow(hi, k, int(n)) <= 0) lo = hi;
                        else
                            hi = lo;
                    }
                }
            }
        }
        i64 const dl = g - lo, dh = g - hi;
        bool const acc = (dl >= -1 && dl <= 1) || (dh >= -1 && dh <= 1);
        if (!acc) {
            cnt.n[fastrec::WRONG_VALUE]++;
            // rep 1 is what the "x is below the resolution" early return produces: its own class
            char const* cls = (g == 1 && lo > 2) ? "exp2/below_resolution_result_for_x_above_resolution/" : "exp2/off_by_more_than_one/";
            // how far off: the known accuracy defect (truncating polynomial steps) is 2..3 units too LOW, never more
            i64 const err = (dl < 0 ? -dl : dl) < (dh < 0 ? -dh : dh) ? dl : dh;
            std::string const mag = (g == 1 && lo > 2) ? std::string() : (err == -2 ? "low_by_2/" : (err == -3 ? "low_by_3/" : (err < 0 ? "low_by_4_or_more/" : "high_by_2_or_more/")));
            fastrec::violation(vcache, std::string(cls) + mag + region, idf, [&] {
                return xtext() + ": true 2^x truncates to rep " + vf::to_s(lo) + (lo != hi ? ".." + vf::to_s(hi) : std::string()) + ", got rep " + vf::to_s(g);
            });
            return;
        }
        if (lo != hi) cnt.n[fastrec::INCONCLUSIVE_OK]++;
        else if (dl == 0)
            cnt.n[fastrec::OK_FRAC_EQUAL]++;
        else if (dl < 0)
            cnt.n[fastrec::OK_FRAC_MINUS1]++;
        else
            cnt.n[fastrec::OK_FRAC_PLUS1]++;
    };

    constexpr i64 BLOCK = W <= 8 ? 16 : (W <= 16 ? 256 : 4096);
    for (Seg const& s : segs) {
        if (s.lo >= s.hi_excl) continue;
        int const L = s.L;
        i64 const h0 = s.lo >> L, h1 = (s.hi_excl - 1) >> L;  // inclusive
        i64 pats[4] = {0, 0, 0, 0};
        int np = 1;
        if (L == 1) {
            pats[1] = 1;
            np = 2;
        } else if (L >= 2) {
            pats[1] = (i64(1) << (L - 1)) - 1;
            pats[2] = i64(1) << (L - 1);
            pats[3] = (i64(1) << L) - 1;
            np = 4;
        }
        for (i64 hb = h0; hb <= h1; hb += BLOCK) {
            if (!vf::my_row()) continue;
            i64 const he = hb + BLOCK - 1 < h1 ? hb + BLOCK - 1 : h1;
            for (i64 h = hb; h <= he; ++h)
                for (int p = 0; p < np; ++p) {
                    i64 rep = h * (i64(1) << L) + pats[p];
                    if (rep < s.lo || rep >= s.hi_excl) continue;
                    one_case(rep);
                }
        }
    }
    cnt.flush();
}

// ---------------------------------------------------------------------------------------------
// Part 2: constants

struct ConstInfo {
    const char* name;
    const char* lit;  // truncated to 45 decimals
    bool has_series;
};
static const ConstInfo CONSTS[] = {
        {"e", "2.718281828459045235360287471352662497757247093", true},
        {"log2e", "1.442695040888963407359924681001892137426645954", false},
        {"log10e", "0.434294481903251827651128918916605082294397005", false},
        {"pi", "3.141592653589793238462643383279502884197169399", true},
        {"inv_pi", "0.318309886183790671537767526745028724068919291", false},
        {"inv_sqrtpi", "0.564189583547756286948079451560772585844050629", false},
        {"ln2", "0.693147180559945309417232121458176568075500134", false},
        {"ln10", "2.302585092994045684017991454684364207601101488", false},
        {"sqrt2", "1.414213562373095048801688724209698078569671875", false},
        {"sqrt3", "1.732050807568877293527446341505872366942805253", false},
        {"inv_sqrt3", "0.577350269189625764509148780501957455647601751", false},
        {"egamma", "0.577215664901532860606512090082402431042159335", false},
        {"phi", "1.618033988749894848204586834365638117720309179", false},
};

struct ConstRunner {
    std::string cur_key;
    bool active = false;
    ConstInfo const* ci = nullptr;
    Rat lit, eps;

    template<class Getter>
    void cell(const char* cname, const char* repname, int bits, bool sgn, int E, Getter&& get)
    {
        std::string key = std::string(cname) + "," + repname;
        if (key != cur_key) {
            cur_key = key;
            ci = nullptr;
            for (auto const& c : CONSTS)
                if (std::string(c.name) == cname) ci = &c;
            if (!ci) ref::die("unknown constant name");
            std::string digits;
            int decimals = -1;
            for (const char* p = ci->lit; *p; ++p) {
                if (*p == '.') decimals = 0;
                else {
                    digits += *p;
                    if (decimals >= 0) ++decimals;
                }
            }
            if (decimals != 45) ref::die("literal must have 45 decimals");
            Big den = Big::pow(Big(10), 45);
            lit = Rat(Big::parse(digits.c_str()), den);
            eps = Rat(Big(1), den);
            active = vf::begin("const<" + key + ">", VF_TIER != 0);
        }
        if (!active) return;
        if (!vf::my_row()) return;
        auto id = [&] { return "E=" + std::to_string(E); };
        if (vf::replaying() && !vf::case_selected(id())) return;
        int const D = bits - (sgn ? 1 : 0);
        // the constant must fit: C < 2^(D+E); C in [lit, lit+eps)
        Rat const top = Rat::scaled(Big(1), 2, D + E);
        if (!(lit + eps < top)) {
            vf::skip_pre();
            return;
        }
        Big rep;
        vf::Outcome o = vf::run([&] { rep = get(); });
        vf::validated();
        vf::counted(!rep.is_zero());
        std::string const via = (ci->has_series && -E > 62) ? "via_series" : "via_long_double";
        std::string const what = std::string("std::numbers::") + cname + "_v<scaled_integer<" + repname + ",power<" + std::to_string(E) + ">>>";
        if (vf::want_sample()) vf::sample(what + " -> rep " + (o.ok() ? rep.str() : o.str()));
        if (!o.ok()) {
            vf::outcome(o.str());
            vf::violation(std::string("constant/") + cname + "/" + vf::kind_name(o.kind), id(), what + ": " + o.str());
            return;
        }
        Rat const v = Rat::scaled(rep, 2, E), ulp = Rat::scaled(Big(1), 2, E);
        Rat const d_hi = v - lit, d_lo = d_hi - eps;  // d_lo < value - C <= d_hi
        if (d_hi < ulp && d_lo >= -ulp) {
            Rat const half = Rat::scaled(Big(1), 2, E - 1);
            if (d_lo >= Rat(Big(0))) vf::outcome("ok_const_above_true_value");
            else if (d_hi <= Rat(Big(0)))
                vf::outcome(d_lo >= -half ? "ok_const_below_within_half_ulp" : "ok_const_below_over_half_ulp");
            else
                vf::outcome("ok_const_equal_to_45_decimals");
            return;
        }
        if (d_lo >= ulp || d_hi <= -ulp) {
            vf::outcome("wrong_value");
            Rat errulps = (d_hi / ulp);
            vf::violation(std::string("constant/") + cname + "/error_ge_1ulp/" + via, id(),
                          what + ": rep " + rep.str() + ", true constant / 2^E = " + (lit / ulp).floor().str() + ".., error " + errulps.round_half_away().str() + " ulp (rounded)");
            return;
        }
        vf::outcome("inconclusive_literal_precision");
    }
};

// ---------------------------------------------------------------------------------------------

static void group()
{
    ConstRunner R;
    (void)R;
#define X(REP, E) prog_exp2<REP, E>();
#define K(NAME, REP, E) \
    R.cell(#NAME, #REP, vals::bits_v<REP>, vals::is_signed_v<REP>, E, [] { return Big(cnl::_impl::to_rep(std::numbers::NAME##_v<SI<REP, E>>)); });
#include "programs.inc"
}
VF_GROUP(group);
VF_MAIN()
