// C17 — a fraction constructed from a floating-point value.
//
// Programs: for T in {i8,i16,i32,i64,i128} x F in {float,double,long double}
//   ctor<T,F>   cnl::fraction<T>(x)            (the floating-point constructor)
//   make<T,F>   cnl::make_fraction<T>(x)       (the function the constructor delegates to; quick lattice in both tiers)
//   ctad<F>     cnl::fraction(x)               (deduction guides: float->i32, double->i64, long double->i128)
// VF_PART 0..3 split them by T (UBSan-trap builds, release and CNL_DEBUG); VF_PART 4 is a three-program subset
// built without any sanitizer (plain release build: undefined behaviour is not intercepted, hangs show as hangs).
// State = (program, x).  Inputs (see inputs<T,F>()): the float lattice (every binary exponent from
// 2^-(D+8) up to 2^D, D = digits(T), x the top M mantissa bits, both signs), the same lattice at
// Mu bits moved one ulp of F up and down (full-precision mantissas), F(k) for k in B0(T) and
// k +- 1/8, 1/4, 1/2, 3/4, dyadic k/2^j, decimal k/10^j (k < 1000, j <= 6) and small ratios p/q computed by
// division in F, values adjacent to max(T) and to 1/2, 1, 2, +-0, tiny values and denormals.
// Precondition (exact, before CNL runs): |x| <= max(T).
// Oracle (exact rationals, independent of CNL): the call returns; denominator > 0; the numerator
// does not have the sign opposite to x; if x in lowest terms n/d has n and d representable in T the
// result equals x exactly; otherwise floor(x) <= f <= floor(x)+1 and |f-x| < max(1,|x|)*2^(4-D).
// "Components within range" is not separately observable (they are stored in T): an out-of-range
// intermediate shows as a UBSan trap or a CNL_ASSERT failure, which are outcomes.
// Violation keys are <what>/<mag>/<rep>[/<nbr>]: exact predicates on the input, see the comment in prog().
#include "common.h"

#include <cnl/fraction.h>

#include <cmath>
#include <map>
#include <string>
#include <vector>

namespace c17 {

template<class T>
inline constexpr int digits_v = vals::bits_v<T> - 1;  // signed component types only

struct Tier {
    int M;  // mantissa bits of the exponent x mantissa lattice
    int Mu;  // mantissa bits of the "one ulp off" lattice
};

template<class F>
F make(i128 m, int e)
{
    return std::ldexp(F(m), e);  // m has at most 24 significant bits wherever this is used: exact
}

// the complete input list of a program, sorted, without duplicates; zeros handled by the caller
template<class T, class F>
std::vector<F> inputs(int M, int Mu)
{
    constexpr int D = digits_v<T>;
    std::vector<F> v;
    auto both = [&](F x) {
        if (!std::isfinite(x)) return;
        v.push_back(x);
        v.push_back(-x);
    };
    // 1. exponent x mantissa lattice, 2^-(D+8) <= |x| < 2^(D+1)
    for (int e = -(D + 8); e <= D; ++e)
        for (long m = 0; m < (1l << M); ++m) both(make<F>((1l << M) + m, e - M));
    // 1b. coarser lattice, one ulp of F above and below (all mantissa bits of F in use)
    for (int e = -(D + 8); e <= D; ++e)
        for (long m = 0; m < (1l << Mu); ++m) {
            F x = make<F>((1l << Mu) + m, e - Mu);
            both(std::nextafter(x, F(0)));
            both(std::nextafter(x, std::numeric_limits<F>::infinity()));
        }
    // 2. integers of the boundary lattice of T and their neighbourhoods
    for (T k : vals::lattice<T>()) {
        F x = F(k);
        v.push_back(x);
        for (F d : {F(0.5), F(0.25), F(0.75), F(0.125)}) {
            v.push_back(x + d);
            v.push_back(x - d);
        }
        v.push_back(std::nextafter(x, F(0)));
        v.push_back(std::nextafter(x, x + x));
    }
    // 3. dyadic k/2^j
    for (long k : {1l, 3l, 5l, 7l, 9l, 11l, 13l, 15l, 17l, 31l, 33l, 63l, 65l, 127l, 129l, 255l, 257l, 1023l, 4095l, 65535l, (1l << 23) - 1, (1l << 24) - 1})
        for (int j = 1; j <= D + 8; ++j) both(make<F>(k, -j));
    // 4. decimal k/10^j and small ratios p/q, by division in F
    {
        F p10 = 1;
        for (int j = 0; j <= 6; ++j, p10 *= 10)
            for (int k = 1; k < 1000; ++k) both(F(k) / p10);
        for (int p = 1; p <= 40; ++p)
            for (int q = 2; q <= 40; ++q) both(F(p) / F(q));
        for (int q : {100, 127, 128, 237, 255, 999, 1000, 1001, 32767, 32768, 65535, 1000000}) {
            both(F(1) / F(q));
            both(F(q - 1) / F(q));
            both(F(q + 1) / F(q));
        }
        for (F c : {F(3.14285714285714285714L), F(3.14159265358979323846L), F(2.71828182845904523536L), F(1.41421356237309504880L), F(1.61803398874989484820L), F(0.61803398874989484820L),
                    F(237.001L), F(237.000001L), F(237.0000000001L), F(1.001001001001001001001L), F(1e-9L), F(1e-15L), F(1e9L), F(1e15L),
                    F(0x1.f36p-20L), F(0x1.1ebp-6L)})
            both(c);
    }
    // 5. adjacent to the numerator limit and to 1, 2
    {
        F mx = F(vals::max_v<T>());  // may round up to 2^D (excluded by the precondition)
        F x = mx;
        for (int i = 0; i < 6; ++i) {
            both(x);
            x = std::nextafter(x, F(0));
        }
        both(std::nextafter(mx, std::numeric_limits<F>::infinity()));
        both(mx - F(0.5));
        both(mx / 2);
        both(std::nextafter(mx / 2, F(0)));
        for (F c : {F(1), F(2), F(0.5)}) {
            both(std::nextafter(c, F(0)));
            both(std::nextafter(c, F(4)));
        }
    }
    // 6. tiny values and denormals (long double: not below 2^-1000, the reference capacity)
    {
        both(std::ldexp(F(1), -(D + 9)));
        both(std::ldexp(F(3), -(D + 20)));
        both(F(1e-30L));
        if constexpr (std::is_same_v<F, long double>) {
            both(std::ldexp(F(1), -1000));
            both(std::ldexp(F(0xabcdefl), -900));
        } else {
            both(std::numeric_limits<F>::min());
            both(std::numeric_limits<F>::denorm_min());
            both(std::numeric_limits<F>::min() / 2);
            both(std::numeric_limits<F>::denorm_min() * 3);
        }
    }
    std::vector<F> w;
    w.reserve(v.size() + 2);
    for (F x : v)
        if (std::isfinite(x) && x != 0) w.push_back(x);
    std::sort(w.begin(), w.end());
    w.erase(std::unique(w.begin(), w.end()), w.end());
    // zeros first (+0 and -0 compare equal, so they are not part of the sorted list)
    w.insert(w.begin(), -F(0));
    w.insert(w.begin(), F(0));
    return w;
}

// x == m * 2^e, m odd (or zero)
template<class F>
void decode_odd(F x, i128& m, int& e)
{
    ref::decode(x, m, e);
    if (m == 0) {
        e = 0;
        return;
    }
    while ((m & 1) == 0) {
        m >>= 1;
        ++e;
    }
}

// the value CNL's fraction -> F conversion yields, by the exact reference: RN(RN(n) / RN(d))
template<class F>
Rat convert_back(Big const& n, Big const& d)
{
    bool ov;
    Rat fn = ref::round_to_format<F>(Rat(n), ov), fd = ref::round_to_format<F>(Rat(d), ov);
    return ref::round_to_format<F>(fn / fd, ov);
}

// The two fractions with components <= maxT adjacent to a = an/ad > 0 (not itself representable):
// exact Stern-Brocot descent (run-length accelerated) until the mediant no longer fits. Every fraction
// strictly between L and R has numerator >= Ln+Rn and denominator >= Ld+Rd, i.e. is out of range.
struct Nbr {
    Big ln, ld, rn, rd;
};
inline Nbr neighbours(Big const& an, Big const& ad, Big const& maxT)
{
    Nbr s;
    s.ln = an.shr_trunc(ad.bit_length() - 1);  // ad is a power of two
    s.ld = Big(1);
    s.rn = s.ln + Big(1);
    s.rd = Big(1);
    for (int guard = 0; guard < 2000; ++guard) {
        Big mn = s.ln + s.rn, md = s.ld + s.rd;
        if (mn > maxT || md > maxT) return s;
        // mediant < a  <=>  mn*ad < an*md
        int c = Big::cmp(mn * ad, an * md);
        if (c == 0) ref::die("neighbours: input is representable");
        // f = the bound that moves, n = the other one; largest k with f + k n still strictly on f's side of a:
        // k < (an fd - fn ad) / (nn ad - an nd)   (both differences taken positive)
        Big& fnu = c < 0 ? s.ln : s.rn;
        Big& fde = c < 0 ? s.ld : s.rd;
        Big const& nnu = c < 0 ? s.rn : s.ln;
        Big const& nde = c < 0 ? s.rd : s.ld;
        Big num = (an * fde - fnu * ad).abs(), den = (nnu * ad - an * nde).abs();
        Big k, rem;
        Big::divmod(num, den, k, rem);
        if (rem.is_zero()) k = k - Big(1);
        if (fde + k * nde > maxT) k = (maxT - fde) / nde;
        if (nnu.sign() > 0 && fnu + k * nnu > maxT) k = (maxT - fnu) / nnu;
        if (k < Big(1)) ref::die("neighbours: no progress");
        fnu = fnu + k * nnu;
        fde = fde + k * nde;
    }
    ref::die("neighbours: did not converge");
}

// "<file>:<line> assert: <condition>" -> a label that survives line-number changes
inline std::string assert_label(std::string const& msg)
{
    if (msg.find("mid.numerator") != std::string::npos) return "assert_mid_numerator_nonnegative";
    if (msg.find("mid.denominator") != std::string::npos) return "assert_mid_denominator_nonnegative";
    if (msg.find("assert: n0 <=") != std::string::npos) return "assert_n0_le_max";
    if (msg.find("assert: d <=") != std::string::npos) return "assert_d_le_max";
    size_t p = msg.find("assert: ");
    std::string cond = p == std::string::npos ? msg : msg.substr(p + 8), lab = "assert_";
    for (char c : cond) {
        if (std::isalnum((unsigned char)c)) lab += c;
        else if (lab.back() != '_') lab += '_';
        if (lab.size() > 48) break;
    }
    return lab;
}

enum Form { CTOR, MAKE, CTAD };

template<class T, class F, Form form>
[[gnu::noinline]] void prog(Tier tier)
{
    constexpr int D = digits_v<T>;
    std::string name = std::string(form == CTOR ? "ctor<" : (form == MAKE ? "make<" : "ctad<")) + (form == CTAD ? "" : vf::tn<T>() + ",") + vf::tn<F>() + ">";
    if (!vf::begin(name, false)) return;

    auto invoke = [](F x) {
        if constexpr (form == CTOR) return cnl::fraction<T>(x);
        else if constexpr (form == MAKE) return cnl::make_fraction<T>(x);
        else return cnl::fraction(x);
    };
    using R = decltype(invoke(F(1)));
    using RN = std::remove_cvref_t<decltype(std::declval<R>().numerator)>;
    using RD = std::remove_cvref_t<decltype(std::declval<R>().denominator)>;
    if (!std::is_same_v<RN, T> || !std::is_same_v<RD, T>)
        vf::violation("result_type", "-", name + ": component types are " + vf::tn<RN>() + "," + vf::tn<RD>() + ", expected " + vf::tn<T>());

    std::vector<F> const xs = inputs<T, F>(tier.M, tier.Mu);
    Big const maxT(vals::max_v<T>());
    Rat const one(Big(1));
    // one designated shard per program confirms its first hang with a long watchdog (2 s quick / 5 s thorough)
    bool const confirm_here = int(vf::fnv(name) % uint64_t(vf::g.nshards)) == vf::g.shard;
    bool hang_confirmed = false;
    // the detail text (exact rational of x, result) is only built for the first three cases of a class
    std::map<std::string, int> seen;
    auto report = [&](std::string const& key, std::string const& case_id, auto&& detail) {
        vf::violation(key, case_id, seen[key]++ < 3 ? detail() : std::string());
    };
    constexpr size_t ROW = 64;
    for (size_t r0 = 0; r0 < xs.size(); r0 += ROW) {
        if (!vf::my_row()) continue;
        for (size_t i = r0; i < xs.size() && i < r0 + ROW; ++i) {
            F const x = xs[i];
            auto id = [&] { return vf::to_s(x); };
            if (vf::replaying() && !vf::case_selected(id())) continue;
            // ---- exact decode and precondition
            i128 m;
            int e;
            decode_odd(x, m, e);
            Big xn, xd(1);  // x == xn/xd in lowest terms
            if (e >= 0) {
                if (e > 200) {
                    vf::skip_pre();
                    continue;
                }
                xn = Big(m).shl(e);
            } else {
                xn = Big(m);
                xd = Big::pow2(-e);
            }
            Rat const xr(xn, xd);
            Rat const ax = xr.abs();
            if (ax > Rat(maxT)) {
                vf::skip_pre();
                continue;
            }
            bool const negx = std::signbit(x);
            bool const exact = xn.abs() <= maxT && xd <= maxT;
            // ---- semantic position of the input (exact predicates, independent of CNL)
            //   mag: zero | below_1_over_max (0 < |x| < 1/max(T)) | below_1 | ge_1 | at_max (|x| == max(T))
            //   rep: zero | integer | exact_ratio (x = n/d, n and d representable in T) | inexact
            //   for inexact inputs, L < |x| < R being the adjacent fractions with components in T:
            //   nbr_converts (L or R converts back to x in F, i.e. some in-range fraction is "equal to x in
            //   F arithmetic") | nbr_none (not even the adjacent in-range fractions convert back to x)
            const char* mag = xn.is_zero() ? "zero" : (ax == Rat(maxT) ? "at_max" : (ax * Rat(maxT) < one ? "below_1_over_max" : (ax < one ? "below_1" : "ge_1")));
            const char* rep = xn.is_zero() ? "zero" : (xd == Big(1) ? "integer" : (exact ? "exact_ratio" : "inexact"));
            // neighbours and the nbr label are computed on demand (inexact inputs only)
            Nbr nb;
            bool have_nb = false;
            auto need_nb = [&] {
                if (!have_nb) nb = neighbours(xn.abs(), xd, maxT);
                have_nb = true;
            };
            auto region = [&]() -> std::string {
                std::string r = std::string(mag) + "/" + rep;
                if (!exact) {
                    need_nb();
                    bool const conv = convert_back<F>(nb.ln, nb.ld) == ax || convert_back<F>(nb.rn, nb.rd) == ax;
                    r += conv ? "/nbr_converts" : "/nbr_none";
                }
                return r;
            };

            T gn{}, gd{};
            vf::Outcome o = vf::run([&] {
                auto f = invoke(x);
                gn = T(f.numerator);
                gd = T(f.denominator);
            });
            vf::validated();
            vf::counted(!(xd == Big(1)));
            if (vf::want_sample()) vf::sample(name + " " + id() + " -> " + (o.ok() ? vf::to_s(gn) + "/" + vf::to_s(gd) : o.str()));
            if (!o.ok()) {
                std::string const kind = vf::kind_name(o.kind);
                std::string what = kind;
                if (o.kind == vf::ABORT_HOOK) what = "cnl_abort/" + assert_label(o.msg);
                std::string detail = name + "(" + id() + " = " + xr.str() + "): " + o.str();
                if (o.kind == vf::HANG && !hang_confirmed && confirm_here) {
                    // confirm the first hang of the program with a long watchdog
                    int const keep = vf::g.hang_ticks;
                    vf::g.hang_ticks = VF_TIER ? 100 : 40;
                    vf::Outcome o2 = vf::run([&] {
                        auto f = invoke(x);
                        gn = T(f.numerator);
                    });
                    vf::g.hang_ticks = keep;
                    hang_confirmed = true;
                    detail += std::string(o2.kind == vf::HANG ? " (confirmed: still running after " : " (NOT confirmed after ") + (VF_TIER ? "5" : "2") + " s CPU: " + o2.str() + ")";
                    if (o2.kind != vf::HANG) what = "slow_not_hang";
                }
                vf::outcome(kind + "/" + region());
                report(what + "/" + region(), id(), [&] { return detail; });
                continue;
            }
            auto detail0 = [&] { return name + "(" + id() + " = " + xr.str() + ") = " + vf::to_s(gn) + "/" + vf::to_s(gd); };
            if (!(gd > 0)) {
                vf::outcome("denominator_not_positive");
                report(std::string("denominator_not_positive/") + (gd == 0 ? "zero/" : "negative/") + region(), id(), detail0);
                continue;
            }
            Big const fn(gn), fd(gd);
            Rat const f(fn, fd);
            if (fn.sign() != 0 && (fn.sign() < 0) != negx) {
                vf::outcome("wrong_sign");
                report("sign/" + region(), id(), [&] { return detail0() + ": sign differs from the input"; });
                continue;
            }
            Rat const err = (f - xr).abs();
            Rat const scale = ax > one ? ax : one;
            // err < scale * 2^(4-D)  <=>  err * 2^(D-4) < scale
            bool const within = err * Rat(Big::pow2(D - 4)) < scale;
            if (exact) {
                if (f == xr) {
                    vf::outcome(std::string("ok_exact/") + rep);
                    continue;
                }
                bool const roundtrip = convert_back<F>(fn, fd) == xr;
                vf::outcome(roundtrip ? "not_exact_but_converts_back" : "not_exact");
                report(std::string("value/exact_ratio_not_reproduced/") + (roundtrip ? "converts_back_to_x" : "does_not_convert_back") + (within ? "/within_error_bound/" : "/beyond_error_bound/") + region() + (fn.is_zero() ? "/res_zero" : (fd == Big(1) ? "/res_whole" : "/res_frac")), id(),
                       [&] { return detail0() + ", but x is exactly " + xr.str() + " with both components representable"; });
                continue;
            }
            // floor(x), x = xn / 2^k: shift (xn >= 0) or -ceil(|xn| / 2^k) (the input is not an integer here)
            int const k2 = xd.bit_length() - 1;
            Big const fl = xn.sign() >= 0 ? xn.shr_trunc(k2) : -(xn.abs().shr_trunc(k2) + Big(1));
            if (f < Rat(fl) || f > Rat(fl + Big(1))) {
                vf::outcome("outside_adjacent_integers");
                report("value/outside_adjacent_integers/" + region(), id(), [&] { return detail0() + ": not within [" + fl.str() + "," + (fl + Big(1)).str() + "]"; });
                continue;
            }
            if (!within) {
                vf::outcome("error_bound");
                report("value/error_bound/" + region(), id(), [&] { return detail0() + ": |f-x| >= max(1,|x|)*2^" + std::to_string(4 - D); });
                continue;
            }
            // accepted: how good is it? (the nearer / the other adjacent in-range fraction / something else)
            need_nb();
            // |x| - L <= R - |x|  <=>  2 |x| <= L + R   (in integers: denormal inputs have 1000-bit denominators)
            bool const nearer_is_left = Big(2) * xn.abs() * nb.ld * nb.rd <= (nb.ln * nb.rd + nb.rn * nb.ld) * xd;
            Big const an = fn.abs();
            bool const isL = an * nb.ld == nb.ln * fd, isR = an * nb.rd == nb.rn * fd;
            const char* q = (isL || isR) ? ((isL == nearer_is_left) ? "nearest" : "adjacent") : "other";
            if (fn.is_zero()) vf::outcome(std::string("ok_rounds_to_zero/") + mag + "/" + q);
            else vf::outcome(std::string("ok_approx/") + mag + "/" + q);
        }
    }
}

template<class T>
void all_F(Tier t, Tier t_ctor_float)
{
    constexpr Tier tq{8, 5};  // make_fraction is what the constructor calls: enumerated on the quick lattice in both tiers
    prog<T, float, CTOR>(t_ctor_float);
    prog<T, double, CTOR>(t);
    prog<T, long double, CTOR>(t);
    prog<T, float, MAKE>(tq);
    prog<T, double, MAKE>(tq);
    prog<T, long double, MAKE>(tq);
}

}  // namespace c17

static void group()
{
    using namespace c17;
    constexpr Tier t = VF_TIER ? Tier{12, 8} : Tier{8, 5};
    constexpr Tier t8f = VF_TIER ? Tier{16, 10} : Tier{8, 5};
#if VF_PART == 0
    all_F<i8>(t, t8f);
    all_F<i16>(t, t);
    prog<i32, float, CTAD>(t);
#elif VF_PART == 1
    all_F<i32>(t, t);
    prog<i64, double, CTAD>(t);
#elif VF_PART == 2
    all_F<i64>(t, t);
#elif VF_PART == 3
    all_F<i128>(t, t);
    prog<i128, long double, CTAD>(t);
#else
    // part 4: built without any sanitizer (what a plain release build does), quick lattice in both tiers
    prog<i32, float, CTAD>(Tier{8, 5});
    prog<i32, double, CTOR>(Tier{8, 5});
    prog<i8, float, CTOR>(Tier{8, 5});
#endif
}
VF_GROUP(group);
VF_MAIN()
