// C02 — scaled_integer /, % and quotient() obey the integer-division contract.
// Programs generated into programs.inc: (LRep, LExp, RRep, RExp, Radix).
// Per state (a, b), b != 0:
//   q = l / r, m = l % r:  rep(q)*rep(b) + rep(m) == rep(a); sign(m) in {0, sign(a)}; |rep(m)| < |rep(b)|;
//   rep(q) == trunc(a/b); exponent(q) == LExp-RExp, exponent(m) == LExp (read from the types).
//   quotient(l, r): sign/|.| <= |true quotient|, error < one unit of the result type; and the result
//   type's range contains the true quotient for the extreme operand pairs of the operand types.
// Precondition: b != 0; both reps representable in the common (promoted) rep type of the built-in
// operator; not (a == lowest && b == -1) for reps that have a most negative number.
#include "cnlval.h"

using cnl::power;
using cnl::scaled_integer;

template<class T>
T build(Big const& repv)
{
    using S = cv::scale_of<T>;
    if constexpr (S::scaled) return cnl::_impl::from_rep<T>(cv::make_int<typename S::rep>(repv));
    else return cv::make_int<T>(repv);
}

template<class L, class R, bool WithQuotient>
[[gnu::noinline]] void prog(int fullbits, int step)
{
    using SL = cv::scale_of<L>;
    using SR = cv::scale_of<R>;
    constexpr int radix = SL::radix;
    constexpr int le = SL::exponent, re = SR::exponent;
    using RepL = typename SL::rep;
    using RepR = typename SR::rep;
    bool full = cv::space_is_full<RepL>(fullbits) && cv::space_is_full<RepR>(fullbits);
    std::string name = std::string(WithQuotient ? "divq<" : "div<") + cv::rep_name<L>() + "," + cv::rep_name<R>() + ">";
    if (!vf::begin(name, full)) return;
    using Div = decltype(std::declval<L>() / std::declval<R>());
    using Mod = decltype(std::declval<L>() % std::declval<R>());
    using RDiv = typename cv::scale_of<Div>::rep;
    using RMod = typename cv::scale_of<Mod>::rep;
    vf::validated(2);
    if (cv::scale_of<Div>::exponent != le - re || cv::scale_of<Div>::radix != radix)
        vf::violation("result_scale/div", "-", name + ": exponent of a/b is " + std::to_string(cv::scale_of<Div>::exponent) + ", expected " + std::to_string(le - re));
    if (cv::scale_of<Mod>::exponent != le || cv::scale_of<Mod>::radix != radix)
        vf::violation("result_scale/mod", "-", name + ": exponent of a%b is " + std::to_string(cv::scale_of<Mod>::exponent) + ", expected " + std::to_string(le));
    auto const As = cv::space<RepL>(fullbits, step);
    auto const Bs = cv::space<RepR>(fullbits, step);
    bool const has_lowest = cv::lowest_of<RDiv>() < -cv::max_of<RDiv>();
    for (auto const& b : Bs) {
        if (!vf::my_row()) continue;
        for (auto const& a : As) {
            auto id = [&] { return a.str() + "," + b.str(); };
            if (vf::replaying() && !vf::case_selected(id())) continue;
            if (b.is_zero()) {
                vf::skip_pre();
                continue;
            }
            L l = build<L>(a);
            R r = build<R>(b);
            bool inexact = !(a % b).is_zero();
            // ---- operator / and %
            // built-in reps: the operator sees the operands after the usual arithmetic conversions (values those conversions
            // change are out of scope). elastic reps are specified by value (C05): every operand pair is in scope, whatever
            // signedness the library gives the result
            constexpr bool builtin_pair = cv::is_builtin_int<RepL> && cv::is_builtin_int<RepR>;
            // (reps with an overflow layer: pairs whose exact quotient is outside the result rep are the layer's business, C06)
            if (!builtin_pair && !cv::fits<RDiv>(a / b)) {
                vf::skip_pre();
                continue;
            }
            bool pre = !builtin_pair || (cv::fits<RDiv>(a) && cv::fits<RDiv>(b) && cv::fits<RMod>(a) && cv::fits<RMod>(b) && !(has_lowest && a == cv::lowest_of<RDiv>() && b == Big(-1)));
            if (!pre)
                vf::skip_pre();
            else {
                Big q, m;
                vf::Outcome o = vf::run([&] {
                    q = cv::int_value(cnl::_impl::to_rep(l / r));
                    m = cv::int_value(cnl::_impl::to_rep(l % r));
                });
                vf::validated(2);
                vf::counted(inexact);
                if (vf::want_sample()) vf::sample(name + " " + id() + " -> q=" + q.str() + " r=" + m.str());
                if (!o.ok()) {
                    vf::outcome(o.str());
                    vf::violation("divmod/" + o.str(), id(), id() + ": " + o.str());
                } else {
                    bool ok_q = q == a / b;
                    bool ok_id = q * b + m == a;
                    bool ok_sign = m.is_zero() || (m.neg == a.neg);
                    bool ok_mag = m.abs() < b.abs();
                    if (!ok_q) vf::violation("div/value", id(), id() + ": a/b rep " + q.str() + ", expected " + (a / b).str());
                    if (!ok_id) vf::violation("identity", id(), id() + ": (a/b)*b + a%b != a: q=" + q.str() + " r=" + m.str());
                    if (!ok_sign) vf::violation("mod/sign", id(), id() + ": remainder " + m.str() + " does not have the sign of the dividend");
                    if (!ok_mag) vf::violation("mod/magnitude", id(), id() + ": |remainder| " + m.str() + " >= |divisor|");
                    vf::outcome((ok_q && ok_id && ok_sign && ok_mag) ? (inexact ? (a.neg != b.neg ? "ok_inexact_negative_quotient" : "ok_inexact") : "ok_exact") : "bad_divmod");
                }
            }
            // ---- quotient()
            if constexpr (WithQuotient) {
                using Q = decltype(cnl::quotient(std::declval<L>(), std::declval<R>()));
                constexpr int qe = cv::scale_of<Q>::exponent;
                Rat truth = Rat::scaled(a, radix, le) / Rat::scaled(b, radix, re);
                Rat got;
                vf::Outcome o = vf::run([&] { got = cv::value(cnl::quotient(l, r)); });
                vf::validated();
                vf::counted(true);
                Rat unit = Rat::scaled(Big(1), 2, qe);
                if (!o.ok()) {
                    vf::outcome(o.str());
                    vf::violation("quotient/" + o.str(), id(), id() + " quotient: " + o.str());
                } else {
                    bool sign_ok = got.sign() == 0 || got.sign() == truth.sign();
                    bool below = got.abs() <= truth.abs();
                    bool close = (truth.abs() - got.abs()) < unit;
                    if (!sign_ok || !below || !close) {
                        vf::outcome("bad_quotient");
                        // semantic label: a signed operand type paired with an unsigned one gives an unsigned quotient type; negative quotients
                        using RepQ = typename cv::scale_of<Q>::rep;
                        bool unsigned_q_neg = cv::lowest_of<RepQ>().is_zero() && truth.sign() < 0;
                        vf::violation(std::string("quotient/") + (!sign_ok ? "sign" : (!below ? "exceeds_true_magnitude" : "error_ge_one_unit")) + (unsigned_q_neg ? "/negative_quotient_unsigned_quotient_type" : ""), id(),
                                      id() + " quotient: got " + got.str() + ", true " + truth.str() + ", unit 2^" + std::to_string(qe));
                    } else
                        vf::outcome(got == truth ? "ok_quotient_exact" : "ok_quotient_truncated");
                }
            }
        }
    }
    if constexpr (WithQuotient) {
        // the result type must be wide enough for every operand pair: |a|max / |b|min
        using Q = decltype(cnl::quotient(std::declval<L>(), std::declval<R>()));
        Rat qhi = cv::value(std::numeric_limits<Q>::max()), qlo = cv::value(std::numeric_limits<Q>::lowest());
        for (Big a : {cv::lowest_of<RepL>(), cv::max_of<RepL>()})
            for (Big b : {Big(1), Big(-1)}) {
                if (!cv::fits<RepR>(b)) continue;
                Rat truth = Rat::scaled(a, radix, le) / Rat::scaled(b, radix, re);
                vf::validated();
                if (truth > qhi || truth < qlo)
                    vf::violation(std::string("quotient/type_too_narrow") + ((qlo.sign() == 0 && truth.sign() < 0) ? "/negative_quotient_unsigned_quotient_type" : ""), a.str() + "," + b.str(), name + ": " + truth.str() + " is outside the range of the quotient type [" + qlo.str() + "," + qhi.str() + "]");
            }
    }
}

template<class Rep, int E, int Radix = 2>
using SI = scaled_integer<Rep, power<E, Radix>>;
using E7 = cnl::elastic_integer<7>;
using E15 = cnl::elastic_integer<15>;
using EU7 = cnl::elastic_integer<7, unsigned>;
using EU15 = cnl::elastic_integer<15, unsigned>;
using EU32 = cnl::elastic_integer<32, unsigned>;
using OVS32 = cnl::overflow_integer<int, cnl::saturated_overflow_tag>;
using OVS64 = cnl::overflow_integer<long long, cnl::saturated_overflow_tag>;
using OVS8 = cnl::overflow_integer<signed char, cnl::saturated_overflow_tag>;
using EU64 = cnl::elastic_integer<64, unsigned>;
using E3 = cnl::elastic_integer<3>;
using E31 = cnl::elastic_integer<31>;

static void group()
{
    constexpr int FB = 8;
    constexpr int ST = VF_TIER ? 2 : 4;
#define P(LR, LE, RR, RE, RADIX) prog<SI<LR, LE, RADIX>, SI<RR, RE, RADIX>, false>(FB, ST);
#define PQ(LR, LE, RR, RE) prog<SI<LR, LE, 2>, SI<RR, RE, 2>, true>(FB, ST);
#include "programs.inc"
}
VF_GROUP(group);
VF_MAIN()
