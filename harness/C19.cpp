// C19 — cnl::sqrt of a non-negative integer x is the unique r >= 0 with r*r <= x < (r+1)*(r+1);
// elastic_integer<D>: the result type has (D+1)/2 digits and the value fits them;
// scaled_integer<Rep, power<E>> (E even): the result has exponent E/2 and its rep r satisfies
// r*r <= rep(x) < (r+1)*(r+1) (i.e. r^2 <= x < (r + one unit)^2 in exact arithmetic);
// the computation terminates for every input (engine: > 2 s CPU in one case = outcome 'hang').
//
// State space: (type, x). Precondition x >= 0 is met by construction: negative values are never
// generated (they are outside the property), so nothing is skipped at run time.
//   * hot programs (whole non-negative range of the type): bool, char, char8_t, char16_t, 8/16-bit,
//     32-bit (VF_FULL32), elastic_integer<1..16, N>, scaled_integer<8/16-bit rep, power<E>> for every
//     even E in [-60,60], a few radix 10/3 formats, elastic_scaled composites
//   * lattice programs (XSpace, below): 64/128-bit, wchar_t/char32_t, wide_integer<100|128u|200|200u|300>,
//     elastic_integer<24|31|32|63|64u|100|127|128u>, scaled_integer with 32/64/128-bit and wide reps
// Oracle: the defining inequality itself, evaluated on the returned value in unsigned __int128
// (hot) or ref::Big (lattice). Uniqueness of r is a theorem, so checking the inequality is checking
// equality with the integer square root. On the failure path the true root is computed by a
// bit-by-bit reference to name the semantic class of the operand.
// Non-trivial: x > 1 (sqrt(x) != x).
#include "common.h"

#include <cnl/cmath.h>
#include <cnl/elastic_integer.h>
#include <cnl/scaled_integer.h>
#include <cnl/wide_integer.h>

#include <utility>

#ifndef VF_FULL32
#define VF_FULL32 1
#endif

// ---------------------------------------------------------------------------------------------
// operand classes (semantic classes of the outcome histogram / violation keys)

enum XClass { K_ZERO, K_MAX, K_SQUARE, K_BELOW, K_ABOVE, K_PRONIC, K_OTHER, K_N };
static const char* const xclass_name[K_N] = {"zero", "type_max", "perfect_square", "below_square", "above_square", "pronic", "other"};

// x relative to its (true) root r
static inline XClass classify_u(u128 x, u128 r, bool is_max)
{
    if (x == 0) return K_ZERO;
    if (is_max) return K_MAX;
    u128 sq = r * r;
    if (x == sq) return K_SQUARE;
    if (x == sq + 2 * r) return K_BELOW;  // (r+1)^2 - 1
    if (x == sq + 1) return K_ABOVE;
    if (x == sq + r) return K_PRONIC;  // r(r+1)
    return K_OTHER;
}
static XClass classify_b(Big const& x, Big const& r, bool is_max)
{
    if (x.is_zero()) return K_ZERO;
    if (is_max) return K_MAX;
    Big sq = r * r;
    if (x == sq) return K_SQUARE;
    if (x == sq + r + r) return K_BELOW;
    if (x == sq + Big(1)) return K_ABOVE;
    if (x == sq + r) return K_PRONIC;
    return K_OTHER;
}

// Massive-failure guard. A broken sqrt fails on (almost) every case, and every failure takes the slow
// path (strings; a hang costs 2 s of CPU), which would turn a 2^32-case program into hours. Once a
// program has recorded FAIL_CAP wrong results or HANG_CAP hangs in this worker, its remaining cells
// are not executed: the program is marked not-complete and the outcome 'program_abandoned' is
// recorded. The run has failed by then (the violations stay recorded). Rows are still counted
// (vf::my_row is called for every row), so the row -> worker assignment of later programs is unchanged.
constexpr uint64_t FAIL_CAP = 1u << 16, HANG_CAP = 4;
static uint64_t g_fails = 0, g_hangs = 0;
static bool g_abandoned = false;
static bool begin_prog(std::string const& name, bool full)
{
    g_fails = g_hangs = 0;
    g_abandoned = false;
    return vf::begin(name, full);
}
static bool own_row()
{
    return vf::my_row() && !g_abandoned;
}
static void note_failure(int kind)
{
    if (vf::replaying() || g_abandoned) return;
    if (kind == vf::HANG) ++g_hangs;
    ++g_fails;
    if (g_fails >= FAIL_CAP || g_hangs >= HANG_CAP) {
        g_abandoned = true;
        vf::g.cur->full_type = false;
        vf::outcome("program_abandoned");
    }
}

// reference integer square root, bit by bit (slow and obviously right)
static Big ref_isqrt(Big const& x)
{
    Big r(0);
    for (int k = (x.bit_length() + 1) / 2; k >= 0; --k) {
        Big c = r + Big::pow2(k);
        if (c * c <= x) r = c;
    }
    return r;
}

// per-program outcome counters for hot loops (the engine's outcome() builds a string per call)
struct HotCounts {
    uint64_t n[K_N] = {};
    void flush()
    {
        for (int i = 0; i < K_N; ++i)
            if (n[i]) vf::g.cur->outcomes[std::string("ok_") + xclass_name[i]] += n[i];
        for (auto& c : n) c = 0;
    }
};

// ---------------------------------------------------------------------------------------------
// conversions between the reference integers and CNL types (harness code, outside vf::run)

template<class T>
Big to_big(T const& v)
{
    if constexpr (vals::is_int_v<T>) {
        return Big(v);
    } else if constexpr (cnl::_impl::is_uintwide_v<T>) {
        using limb = typename T::limb_type;
        constexpr int LB = std::numeric_limits<limb>::digits;
        auto const& rep = v.crepresentation();
        Big b(0);
        for (int i = int(rep.size()) - 1; i >= 0; --i) b = b.shl(LB) + Big(rep[size_t(i)]);
        int const W = LB * int(rep.size());
        if (std::numeric_limits<T>::is_signed && b.bit(W - 1)) b = b - Big::pow2(W);
        return b;
    } else {
        return to_big(cnl::_impl::to_rep(v));
    }
}

// 0 <= b, b within the range of T
template<class T>
T from_big(Big const& b)
{
    if constexpr (vals::is_int_v<T>) {
        return b.template to<T>();
    } else if constexpr (cnl::_impl::is_uintwide_v<T>) {
        using limb = typename T::limb_type;
        constexpr int LB = std::numeric_limits<limb>::digits;
        T u(0);
        auto& rep = u.representation();
        for (size_t i = 0; i < rep.size(); ++i) rep[i] = (b.shr_trunc(LB * int(i))).template to<limb>();
        return u;
    } else {
        using Rep = std::remove_cvref_t<decltype(cnl::_impl::to_rep(std::declval<T const&>()))>;
        return static_cast<T>(cnl::_impl::from_rep<T>(from_big<Rep>(b)));
    }
}

// ---------------------------------------------------------------------------------------------
// type-level facts, read at run time so that a mismatch is a reported violation

template<class T>
struct scale_of {
    static constexpr bool ok = false;
    static constexpr int exponent = 0, radix = 0;
    using rep = void;
};
template<class Rep, int E, int Rx>
struct scale_of<cnl::scaled_integer<Rep, cnl::power<E, Rx>>> {
    static constexpr bool ok = true;
    static constexpr int exponent = E, radix = Rx;
    using rep = Rep;
};
template<class T>
struct elastic_of {
    static constexpr bool ok = false;
    static constexpr int digits = -1;
};
template<int D, class N>
struct elastic_of<cnl::elastic_integer<D, N>> {
    static constexpr bool ok = true;
    static constexpr int digits = D;
};

// ---------------------------------------------------------------------------------------------
// one case, hot path: x < 2^64, result delivered as i128; rlimit = largest result the type-level
// claim allows (elastic digits), checked in addition to the inequality

[[gnu::noinline]] static void hot_fail(u64 xx, bool is_max, vf::Outcome const& o, i128 got, u64 rlimit)
{
    note_failure(o.kind);
    u64 t = ref_isqrt(Big(xx)).to<u64>();
    const char* cls = xclass_name[classify_u(xx, t, is_max)];
    std::string id = vf::to_s(xx);
    if (!o.ok()) {
        vf::outcome(o.str());
        vf::violation(std::string(vf::kind_name(o.kind)) + "/" + cls, id, "sqrt(" + id + "): expected " + vf::to_s(t) + ", got " + o.str());
        return;
    }
    const char* what = got < 0 ? "negative" : (i128(t) < got ? "too_big" : (i128(t) > got ? "too_small" : "exceeds_result_digits"));
    vf::outcome(std::string("wrong_") + what);
    vf::violation(std::string("value/") + what + "/" + cls, id,
                  "sqrt(" + id + "): expected " + vf::to_s(t) + ", got " + vf::to_s(got) + (i128(t) == got ? " which exceeds the documented result digits (limit " + vf::to_s(rlimit) + ")" : ""));
}

// replay of a hot program: the selected case id is a decimal x; parsed once (building a string
// per case would make the replay of a 2^32-case program take minutes)
static bool replay_value(u64& want)
{
    static bool parsed = false, valid = false;
    static u64 v = 0;
    if (!parsed) {
        parsed = true;
        char* end = nullptr;
        v = strtoull(vf::g.replay_case.c_str(), &end, 10);
        valid = end && *end == 0 && end != vf::g.replay_case.c_str() && vf::to_s(v) == vf::g.replay_case;
    }
    want = v;
    return valid;
}
static bool replay_selects(u64 xx)
{
    u64 want;
    return replay_value(want) && want == xx;
}
// rows that cannot contain the replayed case are skipped wholesale
static bool replay_skips_row(u64 first, u64 last)
{
    if (!vf::replaying()) return false;
    u64 want;
    return !(replay_value(want) && first <= want && want <= last);
}

template<class Call>
inline void hot_case(HotCounts& hc, u64 xx, bool is_max, u64 rlimit, Call&& call)
{
    if (g_abandoned) return;
    if (vf::replaying() && !replay_selects(xx)) return;
    i128 got = 0;
    vf::Outcome o = vf::run([&] { got = call(); });
    vf::validated();
    vf::counted(xx > 1);
    if (xx > 1 && vf::want_sample()) vf::sample("sqrt(" + vf::to_s(xx) + ") -> " + (o.ok() ? vf::to_s(got) : o.str()));
    if (o.ok() && got >= 0 && got <= i128(0xFFFFFFFFu) && u64(got) <= rlimit) {
        u128 r = u128(got), sq = r * r;
        if (sq <= xx && xx < sq + 2 * r + 1) {
            hc.n[classify_u(xx, r, is_max)]++;
            return;
        }
    }
    hot_fail(xx, is_max, o, got, rlimit);
}

// one case, exact path: any width
template<class T, class Call>
void big_case(Big const& x, Big const& M, Big const* rlimit, Call&& call)
{
    if (g_abandoned) return;
    auto id = [&] { return x.str(); };
    if (vf::replaying() && !vf::case_selected(id())) return;
    T opnd = from_big<T>(x);
    if (to_big(opnd) != x) ref::die("C19: operand construction did not round-trip");
    using R = std::remove_cvref_t<decltype(call(opnd))>;
    R got{};
    vf::Outcome o = vf::run([&] { got = call(opnd); });
    vf::validated();
    vf::counted(x > Big(1));
    bool is_max = x == M;
    Big r = o.ok() ? to_big(got) : Big(0);
    if (x > Big(1) && vf::want_sample()) vf::sample("sqrt(" + id() + ") -> " + (o.ok() ? r.str() : o.str()));
    if (o.ok() && !r.neg && r * r <= x && x < (r + Big(1)) * (r + Big(1)) && (!rlimit || r <= *rlimit)) {
        vf::outcome(std::string("ok_") + xclass_name[classify_b(x, r, is_max)]);
        return;
    }
    note_failure(o.kind);
    Big t = ref_isqrt(x);
    const char* cls = xclass_name[classify_b(x, t, is_max)];
    if (!o.ok()) {
        vf::outcome(o.str());
        vf::violation(std::string(vf::kind_name(o.kind)) + "/" + cls, id(), "sqrt(" + id() + "): expected " + t.str() + ", got " + o.str());
        return;
    }
    const char* what = r.neg ? "negative" : (t < r ? "too_big" : (t > r ? "too_small" : "exceeds_result_digits"));
    vf::outcome(std::string("wrong_") + what);
    vf::violation(std::string("value/") + what + "/" + cls, id(), "sqrt(" + id() + "): expected " + t.str() + ", got " + r.str());
}

// ---------------------------------------------------------------------------------------------
// XSpace: the stated lattice of x in [0, M]
//   phase 1  every x < S = 2^dense_bits (rows of 4096)
//   phase 2  for every r of the root lattice RL with r^2 > S: r^2-1, r^2, r^2+1, r(r+1)   (<= M)
//            RL = {2^k + d, |d| <= 2} u {isqrt(2^j) + d, |d| <= 1} u [2^16 +- win] u [2^32 +- win]
//                 u [2^64 +- win] u [rmax - win, rmax] u byte patterns, all within [0, rmax]
//   phase 3  x = 2^k + d (|d| <= 1), M - d (d <= 3), M/2, M/2 + 1, M/3, byte patterns — those not
//            already produced by phases 1 and 2

struct XSpace {
    Big M, S, rmax;
    std::vector<Big> rs, xl;

    XSpace(Big const& M_, int dense_bits, long win)
        : M(M_)
        , S(Big::pow2(dense_bits))
        , rmax(ref_isqrt(M_))
    {
        std::set<Big, BigLess> s;
        auto add_r = [&](Big const& r) {
            if (!r.neg && r <= rmax && r * r > S) s.insert(r);
        };
        int const rb = rmax.bit_length();
        for (int k = 0; k <= rb; ++k)
            for (int d = -2; d <= 2; ++d) add_r(Big::pow2(k) + Big(d));
        for (int j = 1; j <= M.bit_length(); ++j) {
            Big q = ref_isqrt(Big::pow2(j));
            for (int d = -1; d <= 1; ++d) add_r(q + Big(d));
        }
        for (int c : {16, 32, 64})
            if (c <= rb + 1)
                for (long d = -win; d <= win; ++d) add_r(Big::pow2(c) + Big(d));
        for (long d = 0; d <= win; ++d) add_r(rmax - Big(d));
        for (unsigned pat : {0x55u, 0xAAu, 0x33u, 0xCCu, 0x0Fu, 0xF0u}) {
            Big p(0);
            for (int i = 0; i < rb / 8 + 1; ++i) p = p.shl(8) + Big(pat);
            add_r(p.shr_trunc(p.bit_length() > rb ? p.bit_length() - rb : 0));
            add_r(p.shr_trunc(p.bit_length() > rb - 1 ? p.bit_length() - rb + 1 : 0));
        }
        rs.assign(s.begin(), s.end());

        std::set<Big, BigLess> xs;
        auto in_rs = [&](Big const& r) { return std::binary_search(rs.begin(), rs.end(), r, BigLess()); };
        auto add_x = [&](Big const& x) {
            if (x.neg || x > M || x < S) return;
            Big t = ref_isqrt(x), sq = t * t;
            if (in_rs(t) && (x == sq || x == sq + Big(1) || x == sq + t)) return;
            if (x == sq + t + t && in_rs(t + Big(1))) return;
            xs.insert(x);
        };
        for (int k = 0; k <= M.bit_length(); ++k)
            for (int d = -1; d <= 1; ++d) add_x(Big::pow2(k) + Big(d));
        for (int d = 0; d <= 3; ++d) add_x(M - Big(d));
        add_x(M / Big(2));
        add_x(M / Big(2) + Big(1));
        add_x(M / Big(3));
        int const mb = M.bit_length();
        for (unsigned pat : {0x55u, 0xAAu, 0x33u, 0xCCu, 0x0Fu, 0xF0u}) {
            Big p(0);
            for (int i = 0; i < mb / 8 + 1; ++i) p = p.shl(8) + Big(pat);
            add_x(p.shr_trunc(p.bit_length() > mb ? p.bit_length() - mb : 0));
            add_x(p.shr_trunc(p.bit_length() > mb - 1 ? p.bit_length() - mb + 1 : 0));
        }
        xl.assign(xs.begin(), xs.end());
    }

    // calls vf::my_row() exactly once per row, cell(x) for every x of an owned row
    template<class F>
    void enumerate(F&& cell) const
    {
        Big const one(1);
        Big lim = (M < S) ? M + one : S;  // phase 1: [0, lim)
        long const n1 = lim.to<long>();  // S <= 2^24
        for (long base = 0; base < n1; base += 4096) {
            if (!own_row()) continue;
            for (long v = base; v < base + 4096 && v < n1; ++v) cell(Big(v));
        }
        for (Big const& r : rs) {
            if (!own_row()) continue;
            Big sq = r * r;
            for (Big const& x : {sq - one, sq, sq + one, sq + r})
                if (x <= M) cell(x);
        }
        for (Big const& x : xl) {
            if (!own_row()) continue;
            cell(x);
        }
    }
};

constexpr int DENSE_BITS = VF_TIER ? 20 : 16;
constexpr long WIN = VF_TIER ? 16384 : 4096;

// ---------------------------------------------------------------------------------------------
// programs

// built-in integer, every non-negative value (hot)
template<class T>
[[gnu::noinline]] void prog_builtin_full(const char* tname)
{
    if (!begin_prog(std::string("sqrt_builtin<") + tname + ">", true)) return;
    constexpr u64 M = u64(std::numeric_limits<T>::max());
    HotCounts hc;
    for (u64 hi = 0; hi <= (M >> 16); ++hi) {
        if (!own_row()) continue;
        u64 const last = std::min<u64>(M, (hi << 16) | 0xFFFFu);
        if (replay_skips_row(hi << 16, last)) continue;
        for (u64 xx = hi << 16; xx <= last; ++xx) {
            T const x = T(xx);
            hot_case(hc, xx, xx == M, ~u64(0), [&]() -> i128 { return i128(cnl::sqrt(x)); });
        }
        hc.flush();
    }
}

// 32-bit built-in when the whole type does not fit the tier: x < 2^20, and r^2-1, r^2, r^2+1, r(r+1)
// for every r in [1025, 65535], and max-3..max
template<class T>
[[gnu::noinline]] void prog_builtin_32_reduced(const char* tname)
{
    if (!begin_prog(std::string("sqrt_builtin<") + tname + ">", false)) return;
    constexpr u64 M = u64(std::numeric_limits<T>::max());
    HotCounts hc;
    auto one = [&](u64 xx) {
        T const x = T(xx);
        hot_case(hc, xx, xx == M, ~u64(0), [&]() -> i128 { return i128(cnl::sqrt(x)); });
    };
    for (u64 hi = 0; hi < 16; ++hi) {
        if (!own_row()) continue;
        for (u64 xx = hi << 16; xx < ((hi + 1) << 16); ++xx) one(xx);
    }
    u64 const rmax = ref_isqrt(Big(M)).to<u64>();
    for (u64 r = 1025; r <= 65535 && r <= rmax; ++r) {
        if (!own_row()) continue;
        for (u64 xx : {r * r - 1, r * r, r * r + 1, r * r + r})
            if (xx <= M) one(xx);
    }
    bool const pronic_max_emitted = rmax * rmax + rmax <= M;
    for (u64 xx = M - 3; xx <= M && xx >= M - 3; ++xx) {
        if (!own_row()) continue;
        bool dup = xx == rmax * rmax + 1 || xx == rmax * rmax || (pronic_max_emitted && xx == rmax * rmax + rmax) || xx == rmax * rmax - 1;
        if (!dup) one(xx);
    }
    hc.flush();
}

// any integer type over the lattice (exact path)
template<class T>
[[gnu::noinline]] void prog_lattice(std::string const& name, int dense_bits = DENSE_BITS, long win = WIN)
{
    if (!begin_prog(name, false)) return;
    Big const M = Big::pow2(cnl::digits_v<T>) - Big(1);
    if (to_big(std::numeric_limits<T>::max()) != M)
        vf::violation("numeric_limits_max", "-", "numeric_limits<T>::max() = " + to_big(std::numeric_limits<T>::max()).str() + " but digits_v = " + std::to_string(cnl::digits_v<T>));
    XSpace const sp(M, dense_bits, win);
    sp.enumerate([&](Big const& x) { big_case<T>(x, M, nullptr, [](T const& v) { return cnl::sqrt(v); }); });
}

template<int D, class N>
static std::string elastic_name(const char* nname)
{
    return "elastic_integer<" + std::to_string(D) + "," + nname + ">";
}

template<class R>
static void check_elastic_result_type(int D)
{
    constexpr int rd = cnl::digits_v<R>;
    if (!elastic_of<R>::ok || rd != (D + 1) / 2)
        vf::violation("result_digits", "-",
                      "sqrt(elastic_integer<" + std::to_string(D) + ">): result type has " + std::to_string(rd) + " digits" + (elastic_of<R>::ok ? "" : " and is not an elastic_integer") + ", documented (D+1)/2 = "
                              + std::to_string((D + 1) / 2));
}

// elastic_integer<D, N>, every non-negative value (D <= 32; hot)
template<int D, class N>
[[gnu::noinline]] void prog_elastic_full(const char* nname)
{
    using E = cnl::elastic_integer<D, N>;
    using Rep = std::remove_cvref_t<decltype(cnl::_impl::to_rep(std::declval<E const&>()))>;
    using R = std::remove_cvref_t<decltype(cnl::sqrt(std::declval<E const&>()))>;
    if (!begin_prog("sqrt_elastic<" + elastic_name<D, N>(nname) + ">", true)) return;
    check_elastic_result_type<R>(D);
    constexpr u64 M = (u64(1) << D) - 1;
    constexpr u64 rlimit = (u64(1) << ((D + 1) / 2)) - 1;
    HotCounts hc;
    for (u64 hi = 0; hi <= (M >> 8); ++hi) {
        if (!own_row()) continue;
        u64 const last = std::min<u64>(M, (hi << 8) | 0xFFu);
        if (replay_skips_row(hi << 8, last)) continue;
        for (u64 xx = hi << 8; xx <= last; ++xx) {
            E const x = cnl::_impl::from_rep<E>(Rep(xx));
            if (u64(cnl::_impl::to_rep(x)) != xx) ref::die("C19: elastic operand construction did not round-trip");
            hot_case(hc, xx, xx == M, rlimit, [&]() -> i128 { return i128(cnl::_impl::to_rep(cnl::sqrt(x))); });
        }
    }
    hc.flush();
}

// elastic_integer<D, N> over the lattice
template<int D, class N>
[[gnu::noinline]] void prog_elastic_lattice(const char* nname)
{
    using E = cnl::elastic_integer<D, N>;
    using R = std::remove_cvref_t<decltype(cnl::sqrt(std::declval<E const&>()))>;
    if (!begin_prog("sqrt_elastic<" + elastic_name<D, N>(nname) + ">", false)) return;
    check_elastic_result_type<R>(D);
    Big const M = Big::pow2(D) - Big(1);
    Big const rlimit = Big::pow2((D + 1) / 2) - Big(1);
    XSpace const sp(M, DENSE_BITS, WIN);
    sp.enumerate([&](Big const& x) { big_case<E>(x, M, &rlimit, [](E const& v) { return cnl::sqrt(v); }); });
}

template<class R>
static void check_scaled_result_type(int E, int Radix)
{
    using info = scale_of<R>;
    if (!info::ok || info::exponent != E / 2 || info::radix != Radix)
        vf::violation("result_exponent", "-",
                      "sqrt(scaled_integer<.., power<" + std::to_string(E) + "," + std::to_string(Radix) + ">>): result " + (info::ok ? "has exponent " + std::to_string(info::exponent) + " radix " + std::to_string(info::radix) : std::string("is not a scaled_integer"))
                              + ", expected exponent " + std::to_string(E / 2));
}

static std::string scaled_name(std::string const& rep, int E, int Radix)
{
    return "sqrt_scaled<" + rep + ",power<" + std::to_string(E) + (Radix != 2 ? "," + std::to_string(Radix) : "") + ">>";
}

// scaled_integer<Rep, power<E, Radix>>, Rep 8/16/32-bit built-in: every non-negative rep value (hot)
template<class Rep, int E, int Radix = 2>
[[gnu::noinline]] void prog_scaled_full()
{
    static_assert(E % 2 == 0 && sizeof(Rep) <= 4);
    using S = cnl::scaled_integer<Rep, cnl::power<E, Radix>>;
    using R = std::remove_cvref_t<decltype(cnl::sqrt(std::declval<S const&>()))>;
    if (!begin_prog(scaled_name(vf::tn<Rep>(), E, Radix), true)) return;
    check_scaled_result_type<R>(E, Radix);
    constexpr u64 M = u64(std::numeric_limits<Rep>::max());
    HotCounts hc;
    for (u64 hi = 0; hi <= (M >> 8); ++hi) {
        if (!own_row()) continue;
        u64 const last = std::min<u64>(M, (hi << 8) | 0xFFu);
        if (replay_skips_row(hi << 8, last)) continue;
        for (u64 xx = hi << 8; xx <= last; ++xx) {
            S const x = cnl::_impl::from_rep<S>(Rep(xx));
            hot_case(hc, xx, xx == M, ~u64(0), [&]() -> i128 { return i128(cnl::_impl::to_rep(cnl::sqrt(x))); });
        }
    }
    hc.flush();
}

// scaled_integer over any rep, lattice of rep values
template<class Rep, int E, int Radix = 2>
[[gnu::noinline]] void prog_scaled_lattice(std::string const& repname, int dense_bits, long win)
{
    static_assert(E % 2 == 0);
    using S = cnl::scaled_integer<Rep, cnl::power<E, Radix>>;
    using R = std::remove_cvref_t<decltype(cnl::sqrt(std::declval<S const&>()))>;
    if (!begin_prog(scaled_name(repname, E, Radix), false)) return;
    check_scaled_result_type<R>(E, Radix);
    Big const M = Big::pow2(cnl::digits_v<Rep>) - Big(1);
    XSpace const sp(M, dense_bits, win);
    sp.enumerate([&](Big const& x) { big_case<S>(x, M, nullptr, [](S const& v) { return cnl::sqrt(v); }); });
}

// scaled_integer<elastic_integer<D, N>, power<E>>: exponent halves, digits halve
template<int D, class N, int E>
[[gnu::noinline]] void prog_elastic_scaled(const char* nname, bool full)
{
    using El = cnl::elastic_integer<D, N>;
    using S = cnl::scaled_integer<El, cnl::power<E>>;
    using R = std::remove_cvref_t<decltype(cnl::sqrt(std::declval<S const&>()))>;
    if (!begin_prog(scaled_name(elastic_name<D, N>(nname), E, 2), full)) return;
    check_scaled_result_type<R>(E, 2);
    if constexpr (scale_of<R>::ok) check_elastic_result_type<typename scale_of<R>::rep>(D);
    Big const M = Big::pow2(D) - Big(1);
    Big const rlimit = Big::pow2((D + 1) / 2) - Big(1);
    XSpace const sp(M, full ? 24 : DENSE_BITS, WIN);
    sp.enumerate([&](Big const& x) { big_case<S>(x, M, &rlimit, [](S const& v) { return cnl::sqrt(v); }); });
}

// ---------------------------------------------------------------------------------------------
// program lists

template<class Rep, int Radix, int Lo, int... Is>
void scaled_full_family(std::integer_sequence<int, Is...>)
{
    (prog_scaled_full<Rep, Lo + 2 * Is, Radix>(), ...);
}
template<class Rep, int... Es>
void scaled_lattice_family(std::string const& repname, int dense_bits, long win)
{
    (prog_scaled_lattice<Rep, Es>(repname, dense_bits, win), ...);
}

template<class N, int... Ds>
void elastic_full_family(const char* nname, std::integer_sequence<int, Ds...>)
{
    (prog_elastic_full<Ds + 1, N>(nname), ...);
}

#if VF_PART == 0
// 32-bit built-ins: the long-running programs, light to compile
static void g_b32()
{
#if VF_FULL32
    prog_builtin_full<u32>("u32");
    prog_builtin_full<i32>("i32");
#else
    prog_builtin_32_reduced<u32>("u32");
    prog_builtin_32_reduced<i32>("i32");
#endif
#if VF_TIER
    // thorough: 32-bit elastic and scaled operands completely, and elastic 17..20 digits
    prog_elastic_full<31, int>("int");
    prog_elastic_full<32, unsigned>("unsigned");
    prog_scaled_full<i32, -30>();
    prog_scaled_full<u32, -32>();
    prog_elastic_full<17, int>("int");
    prog_elastic_full<18, int>("int");
    prog_elastic_full<19, unsigned>("unsigned");
    prog_elastic_full<20, unsigned>("unsigned");
    prog_elastic_full<20, i8>("i8");
#endif
}
VF_GROUP(g_b32);

#elif VF_PART == 1
// narrow built-ins (full), wide built-ins and wide_integer (lattice)
static void g_builtin()
{
    prog_builtin_full<bool>("bool");
    prog_builtin_full<char>("char");
    prog_builtin_full<char8_t>("char8_t");
    prog_builtin_full<i8>("i8");
    prog_builtin_full<u8>("u8");
    prog_builtin_full<i16>("i16");
    prog_builtin_full<u16>("u16");
    prog_builtin_full<char16_t>("char16_t");
    prog_lattice<wchar_t>("sqrt_builtin<wchar_t>");
    prog_lattice<char32_t>("sqrt_builtin<char32_t>");
    prog_lattice<i64>("sqrt_builtin<i64>");
    prog_lattice<u64>("sqrt_builtin<u64>");
    prog_lattice<long long>("sqrt_builtin<ll64>");
    prog_lattice<unsigned long long>("sqrt_builtin<ull64>");
    prog_lattice<i128>("sqrt_builtin<i128>");
    prog_lattice<u128>("sqrt_builtin<u128>");
}
VF_GROUP(g_builtin);
static void g_wide()
{
    prog_lattice<cnl::wide_integer<100>>("sqrt_wide<wide_integer<100>>");
    prog_lattice<cnl::wide_integer<128, unsigned>>("sqrt_wide<wide_integer<128,unsigned>>");
    prog_lattice<cnl::wide_integer<200>>("sqrt_wide<wide_integer<200>>");
    prog_lattice<cnl::wide_integer<200, unsigned>>("sqrt_wide<wide_integer<200,unsigned>>");
    prog_lattice<cnl::wide_integer<300>>("sqrt_wide<wide_integer<300>>");
}
VF_GROUP(g_wide);

#elif VF_PART == 2
// elastic_integer
static void g_elastic()
{
    using seq = std::make_integer_sequence<int, 16>;
    elastic_full_family<int>("int", seq{});
    elastic_full_family<unsigned>("unsigned", seq{});
    elastic_full_family<i8>("i8", seq{});
    elastic_full_family<u8>("u8", seq{});
    prog_elastic_lattice<24, int>("int");
#if !VF_TIER  // enumerated completely in part 0 of the thorough tier
    prog_elastic_lattice<31, int>("int");
    prog_elastic_lattice<32, unsigned>("unsigned");
#endif
    prog_elastic_lattice<32, int>("int");
    prog_elastic_lattice<63, int>("int");
    prog_elastic_lattice<31, unsigned>("unsigned");
    prog_elastic_lattice<63, unsigned>("unsigned");
    prog_elastic_lattice<64, unsigned>("unsigned");
    prog_elastic_lattice<31, i8>("i8");
    prog_elastic_lattice<100, int>("int");
    prog_elastic_lattice<127, int>("int");
    prog_elastic_lattice<128, unsigned>("unsigned");
}
VF_GROUP(g_elastic);

#elif VF_PART == 3
// scaled_integer, signed narrow reps, every even exponent in [-60,60]
static void g_scaled_s()
{
    using seq = std::make_integer_sequence<int, 61>;
    scaled_full_family<i8, 2, -60>(seq{});
    scaled_full_family<i16, 2, -60>(seq{});
}
VF_GROUP(g_scaled_s);

#elif VF_PART == 4
// scaled_integer, unsigned narrow reps, every even exponent in [-60,60]
static void g_scaled_u()
{
    using seq = std::make_integer_sequence<int, 61>;
    scaled_full_family<u8, 2, -60>(seq{});
    scaled_full_family<u16, 2, -60>(seq{});
}
VF_GROUP(g_scaled_u);

#else
// scaled_integer: other radixes, wide reps, elastic reps
static void g_scaled_misc()
{
    using seq7 = std::make_integer_sequence<int, 7>;
    scaled_full_family<u8, 10, -6>(seq7{});
    scaled_full_family<i16, 10, -6>(seq7{});
    scaled_full_family<i8, 3, -6>(seq7{});
    scaled_full_family<u16, 3, -6>(seq7{});
#if !VF_TIER  // <i32,-30> and <u32,-32> are enumerated completely in part 0 of the thorough tier
    scaled_lattice_family<i32, -30>("i32", 12, 64);
    scaled_lattice_family<u32, -32>("u32", 12, 64);
#endif
    scaled_lattice_family<i32, -60, -32, -2, 0, 2, 30, 32, 60>("i32", 12, 64);
    scaled_lattice_family<u32, -60, -30, -2, 0, 2, 30, 32, 60>("u32", 12, 64);
    scaled_lattice_family<i64, -60, -32, -30, -2, 0, 2, 30, 32, 60>("i64", 12, 64);
    scaled_lattice_family<u64, -60, -32, -30, -2, 0, 2, 30, 32, 60>("u64", 12, 64);
    scaled_lattice_family<i128, -60, -2, 0, 60>("i128", 12, 64);
    scaled_lattice_family<u128, -60, -2, 0, 60>("u128", 12, 64);
    scaled_lattice_family<cnl::wide_integer<200>, -60, 0, 60>("wide_integer<200>", 12, 64);
    prog_elastic_scaled<7, int, -6>("int", true);
    prog_elastic_scaled<15, int, -14>("int", true);
    prog_elastic_scaled<16, unsigned, -16>("unsigned", true);
    prog_elastic_scaled<16, unsigned, 60>("unsigned", true);
    prog_elastic_scaled<31, int, -20>("int", false);
    prog_elastic_scaled<63, int, -60>("int", false);
}
VF_GROUP(g_scaled_misc);
#endif

VF_MAIN()
