// C10_wide.h — part (B): the public type cnl::wide_integer<Digits, Narrowest>. Included by C10.cpp.
#pragma once

template<int L, bool S>
struct narrowest_for;
template<> struct narrowest_for<8, true> { using type = std::int8_t; };
template<> struct narrowest_for<8, false> { using type = std::uint8_t; };
template<> struct narrowest_for<16, true> { using type = std::int16_t; };
template<> struct narrowest_for<16, false> { using type = std::uint16_t; };
template<> struct narrowest_for<32, true> { using type = std::int32_t; };
template<> struct narrowest_for<32, false> { using type = std::uint32_t; };
template<> struct narrowest_for<64, true> { using type = std::int64_t; };
template<> struct narrowest_for<64, false> { using type = std::uint64_t; };

template<int D, bool S, int L>
struct lazy_wide {
    using type = cnl::wide_integer<D, typename narrowest_for<L, S>::type>;
};
struct no_such_type {
};
// the public type, or a placeholder where the tree under test cannot instantiate it
template<int D, bool S, int L>
using WT = typename std::conditional_t<c10_is_bad(D, S, L), std::type_identity<no_such_type>, lazy_wide<D, S, L>>::type;

// storage facts of any result type (wrapper over multi-limb or built-in rep, or a built-in)
template<class R>
struct rinfo {
    static constexpr bool wrapper = false, multi = false;
    static constexpr int N = int(sizeof(R) * 8);
    static constexpr bool S = vals::is_signed_v<R>;
    static constexpr int digits = N - int(S);
    static constexpr int lbits = N;
};
template<>
struct rinfo<bool> {
    static constexpr bool wrapper = false, multi = false;
    static constexpr int N = 1;
    static constexpr bool S = false;
    static constexpr int digits = 1;
    static constexpr int lbits = 1;
};
template<class Rep, class Tag>
struct rinfo<cnl::_impl::wrapper<Rep, Tag>> {
    using Wr = cnl::_impl::wrapper<Rep, Tag>;
    static constexpr bool wrapper = true;
    static constexpr bool multi = cnl::_impl::is_uintwide_v<Rep>;
    static constexpr int N = [] {
        if constexpr (cnl::_impl::is_uintwide_v<Rep>) return uw<Rep>::width;
        else return int(sizeof(Rep) * 8);
    }();
    static constexpr int lbits = [] {
        if constexpr (cnl::_impl::is_uintwide_v<Rep>) return uw<Rep>::lbits;
        else return int(sizeof(Rep) * 8);
    }();
    static constexpr bool S = cnl::numbers::signedness_v<Wr>;
    static constexpr bool rep_S = cnl::numbers::signedness_v<Rep>;
    static constexpr int digits = cnl::digits_v<Wr>;
};

// write the limbs of the storage directly (no arithmetic of the library is used)
template<class W>
static W wmake(BigW const& v)
{
    using Rep = cnl::_impl::rep_of_t<W>;
    if constexpr (cnl::_impl::is_uintwide_v<Rep>) {
        Rep r;
        Words t = to_twos(v, uw<Rep>::width);
        auto& lim = r.representation();
        constexpr int lb = uw<Rep>::lbits;
        for (int i = 0; i < uw<Rep>::nlimbs; ++i) {
            unsigned long long x = 0;
            for (int j = 0; j < lb; j += 32) {
                int wi_ = (i * lb + j) / 32;
                unsigned long long word = wi_ < t.nwords() ? t.w[wi_] : 0u;
                if (lb < 32) word = (word >> ((i * lb) % 32)) & ((1ull << lb) - 1ull);
                x |= word << j;
            }
            lim[unsigned(i)] = typename uw<Rep>::limb(x);
        }
        return cnl::_impl::from_rep<W>(r);
    } else {
        return cnl::_impl::from_rep<W>(Rep(v.low128()));
    }
}
template<class R>
static BigW wread(R const& x)
{
    if constexpr (std::is_same_v<R, bool>) {
        return BigW(int(x));
    } else if constexpr (vals::is_int_v<R>) {
        return BigW(x);
    } else {
        using Rep = cnl::_impl::rep_of_t<R>;
        auto const& r = cnl::_impl::to_rep(x);
        if constexpr (cnl::_impl::is_uintwide_v<Rep>) {
            Words t;
            t.nbits = uw<Rep>::width;
            for (int i = 0; i < t.nwords(); ++i) t.w[i] = 0;
            auto const& lim = r.crepresentation();
            constexpr int lb = uw<Rep>::lbits;
            for (int i = 0; i < uw<Rep>::nlimbs; ++i) {
                unsigned long long x64 = lim[unsigned(i)];
                for (int j = 0; j < lb; j += 32) {
                    int bitpos = i * lb + j;
                    uint32_t part = uint32_t(x64 >> j);
                    if (lb < 32) part &= (1u << lb) - 1u;
                    t.w[bitpos / 32] |= part << (bitpos % 32);
                }
            }
            return from_twos(t, uw<Rep>::is_signed);
        } else {
            return BigW(r);
        }
    }
}

template<class R>
static std::string rname()
{
    using I = rinfo<R>;
    if constexpr (!I::wrapper) return vf::tn<R>();
    else return std::string("wide_integer<") + std::to_string(I::digits) + (I::S ? ",int" : ",uint") + std::to_string(I::lbits) + "_t>" + (I::multi ? "" : "[single-word rep]");
}

template<int D, bool S, class F>
static void each_limb(F&& f)
{
    f(std::integral_constant<int, 8>{});
    f(std::integral_constant<int, 16>{});
    f(std::integral_constant<int, 32>{});
    f(std::integral_constant<int, 64>{});
}

template<int D, bool S>
struct Operands {
    WT<D, S, 8> a8, b8;
    WT<D, S, 16> a16, b16;
    WT<D, S, 32> a32, b32;
    WT<D, S, 64> a64, b64;
    template<int L>
    auto& A()
    {
        if constexpr (L == 8) return a8;
        else if constexpr (L == 16) return a16;
        else if constexpr (L == 32) return a32;
        else return a64;
    }
    template<int L>
    auto& B()
    {
        if constexpr (L == 8) return b8;
        else if constexpr (L == 16) return b16;
        else if constexpr (L == 32) return b32;
        else return b64;
    }
};

static inline const char* bquad(bool S, BigW const& a, BigW const& b)
{
    if (!S) return "u";
    return a.neg ? (b.neg ? "nn" : "np") : (b.neg ? "pn" : "pp");
}

struct WideCfg {
    int k;  // max foreground limbs of the A-set
    bool few_positions;
};
static WideCfg wide_cfg(int D)
{
    if (!VF_TIER) return WideCfg{1, D > 600};
    return WideCfg{2, D > 600};
}

// values outside the declared range [-2^D, 2^D) that the storage of limb type L can still hold
template<int D, bool S, int L>
static std::vector<BigW> storage_extremes()
{
    std::vector<BigW> v;
    if constexpr (!c10_is_bad(D, S, L)) {
        using W = WT<D, S, L>;
        constexpr int N = rinfo<W>::N;
        BigW hi = S ? BigW::pow2(N - 1) - BigW(1) : BigW::pow2(N) - BigW(1);
        BigW lo = S ? -BigW::pow2(N - 1) : BigW(0);
        for (int d = 0; d < 2; ++d) {
            v.push_back(hi - BigW(d));
            v.push_back(lo + BigW(d));
        }
        if (N - int(S) > D) {
            v.push_back(BigW::pow2(D));
            v.push_back(BigW::pow2(D) + BigW(1));
            v.push_back(BigW::pow2(N - int(S) - 1));
            if (S) {
                v.push_back(-BigW::pow2(D) - BigW(1));
                v.push_back(-BigW::pow2(N - 2));
            }
        }
    }
    return v;
}

template<int D, bool S>
static void report_uninstantiable(const char* prog)
{
    each_limb<D, S>([&](auto Lc) {
        constexpr int L = decltype(Lc)::value;
#if !defined(CNL_INT128_ENABLED)
        if constexpr (L == 64) return;  // -std=c++20: no double-limb type for 64-bit limbs, the vendored class documents that
#endif
        if constexpr (c10_is_bad(D, S, L)) {
            vf::counted(true);
            vf::outcome("type_does_not_instantiate");
            // not judged: an expression that does not compile is not a program (no execution can show a wrong value); see DESIGN.md sec. 15
        }
    });
}

// ---------------------------------------------------------------------------------------------
// binary operators and comparisons, all four limb types on the same mathematical operands

template<int D, bool S>
[[gnu::noinline]] static void prog_wide_binary()
{
    std::string const pname = std::string("wide_binary<") + std::to_string(D) + (S ? ",signed>" : ",unsigned>");
    if (!vf::begin(pname, false)) return;
    WideCfg cfg = wide_cfg(D);
    std::vector<BigW> const VA = common_values(D + int(S), S, cfg.k, cfg.few_positions);
    std::vector<BigW> const VB = cfg.k == 1 ? VA : common_values(D + int(S), S, 1, cfg.few_positions);
    auto in_vb = [&](BigW const& x) { return std::binary_search(VB.begin(), VB.end(), x, BigWLess()); };
    constexpr int DB = D + int(S);

    if (vf::my_row() && (!vf::replaying() || vf::case_selected("type"))) {
        report_uninstantiable<D, S>("binary");
        // result types: same digits, same signedness, same narrowest
        each_limb<D, S>([&](auto Lc) {
            constexpr int L = decltype(Lc)::value;
            if constexpr (!c10_is_bad(D, S, L)) {
                using W = WT<D, S, L>;
                auto ty = [&](const char* op, auto tag) {
                    using R = typename decltype(tag)::type;
                    vf::validated();
                    if (!std::is_same_v<R, W>) vf::violation(std::string("result_type/") + op, "type", rname<W>() + " " + op + " same type gives " + rname<R>());
                    else
                        vf::outcome("ok_result_type");
                };
                ty("add", std::type_identity<decltype(std::declval<W>() + std::declval<W>())>{});
                ty("sub", std::type_identity<decltype(std::declval<W>() - std::declval<W>())>{});
                ty("mul", std::type_identity<decltype(std::declval<W>() * std::declval<W>())>{});
                ty("div", std::type_identity<decltype(std::declval<W>() / std::declval<W>())>{});
                ty("mod", std::type_identity<decltype(std::declval<W>() % std::declval<W>())>{});
                ty("and", std::type_identity<decltype(std::declval<W>() & std::declval<W>())>{});
                ty("or", std::type_identity<decltype(std::declval<W>() | std::declval<W>())>{});
                ty("xor", std::type_identity<decltype(std::declval<W>() ^ std::declval<W>())>{});
                vf::validated();
                if (!std::is_same_v<decltype(std::declval<W>() < std::declval<W>()), bool>) vf::violation("result_type/lt", "type", rname<W>() + " < gives a non-bool");
            }
        });
    }

    auto do_pair = [&](BigW const& a, BigW const& b, bool extremes_only_L, int only_L) {
        auto id = [&] { return hex(a) + "," + hex(b); };
        if (vf::replaying() && !vf::case_selected(id())) return;
        Operands<D, S> ops;
        each_limb<D, S>([&](auto Lc) {
            constexpr int L = decltype(Lc)::value;
            if constexpr (!c10_is_bad(D, S, L)) {
                if (extremes_only_L && L != only_L) return;
                ops.template A<L>() = wmake<WT<D, S, L>>(a);
                ops.template B<L>() = wmake<WT<D, S, L>>(b);
            }
        });
        bool const in_declared = fitsN(a, DB, S) && fitsN(b, DB, S);
        vf::counted(!a.is_zero() && !b.is_zero() && (a.bit_length() > 7 || a.neg) && (b.bit_length() > 7 || b.neg));
        const char* q = bquad(S, a, b);
        if (vf::want_sample()) vf::sample(id() + " -> a*b mod 2^N, a/b, ... for limb types 8/16/32/64");

        auto binop = [&](const char* op, auto f, BigW const& exact, bool is_bitop, BitOp bop) {
            BigW got[4];
            bool have[4] = {false, false, false, false};
            int li = -1;
            each_limb<D, S>([&](auto Lc) {
                constexpr int L = decltype(Lc)::value;
                ++li;
                if constexpr (!c10_is_bad(D, S, L)) {
                    if (extremes_only_L && L != only_L) return;
                    using W = WT<D, S, L>;
                    auto const& A = ops.template A<L>();
                    auto const& B = ops.template B<L>();
                    using R = decltype(f(A, B));
                    using RI = rinfo<R>;
                    BigW e = is_bitop ? bitop(a, b, RI::N, RI::S, bop) : wrapN(exact, RI::N, RI::S);
                    bool wrapped = !is_bitop && !(e == exact);
                    if (wrapped && !RI::multi && RI::S) {
                        vf::skip_pre();  // single-word signed storage: overflow is UB of the built-in type, outside the property
                        return;
                    }
                    R r{};
                    vf::Outcome o = vf::run([&] { r = f(A, B); });
                    vf::validated();
                    std::string ls = "/limb" + std::to_string(L);
                    if (!o.ok()) {
                        vf::outcome(vf::kind_name(o.kind));
                        vf::violation(std::string(op) + "/" + vf::kind_name(o.kind) + "/" + q + ls, id(), rname<W>() + " a=" + a.str() + " b=" + b.str() + ": a " + op + " b -> " + o.str() + ", expected " + e.str());
                        return;
                    }
                    got[li] = wread(r);
                    have[li] = true;
                    if (!(got[li] == e)) {
                        vf::outcome("wrong_value");
                        vf::violation(std::string(op) + "/value/" + q + ls, id(), rname<W>() + " a=" + a.str() + " b=" + b.str() + ": a " + op + " b = " + got[li].str() + ", expected " + e.str());
                    } else
                        vf::outcome(wrapped ? "ok_binary_reduced_mod_2^N" : "ok_binary_exact_in_range");
                }
            });
            // limb independence: wherever the exact result lies in the declared range all limb types agree
            if (!extremes_only_L && in_declared && (is_bitop || fitsN(exact, DB, S))) {
                int first = -1;
                for (int i = 0; i < 4; ++i) {
                    if (!have[i]) continue;
                    if (first < 0) first = i;
                    else if (!(got[i] == got[first])) {
                        vf::violation(std::string("limb_dependence/") + op, id(), "wide_integer<" + std::to_string(D) + "> a=" + a.str() + " b=" + b.str() + ": a " + op + " b = " + got[first].str() + " with " + std::to_string(8 << first) + "-bit limbs but " + got[i].str() + " with " + std::to_string(8 << i) + "-bit limbs");
                        break;
                    }
                }
            }
        };
        binop("add", [](auto const& x, auto const& y) { return x + y; }, a + b, false, B_AND);
        binop("sub", [](auto const& x, auto const& y) { return x - y; }, a - b, false, B_AND);
        binop("mul", [](auto const& x, auto const& y) { return x * y; }, a * b, false, B_AND);
        binop("and", [](auto const& x, auto const& y) { return x & y; }, BigW(0), true, B_AND);
        binop("or", [](auto const& x, auto const& y) { return x | y; }, BigW(0), true, B_OR);
        binop("xor", [](auto const& x, auto const& y) { return x ^ y; }, BigW(0), true, B_XOR);

        // division: the quotient is the unique q with a = q*b + r, |r| < |b|, sign(r) in {0, sign(a)}
        if (b.is_zero()) {
            vf::skip_pre();
        } else {
            bool have_qr = false;
            BigW qt, rt;
            auto ensure = [&](BigW const* cand) {
                if (have_qr) return;
                if (cand) {
                    BigW rr = a - (*cand) * b;
                    if ((rr.is_zero() || rr.neg == a.neg) && BigW::cmp_mag(rr, b) < 0) {
                        qt = *cand;
                        rt = rr;
                        have_qr = true;
                        return;
                    }
                }
                BigW::divmod(a, b, qt, rt);
                have_qr = true;
            };
            const char* dcls = b.abs().bit_length() <= 8 ? "divisor_fits_8_bits" : (b.abs().bit_length() <= 64 ? "divisor_fits_64_bits" : "divisor_multi_limb");
            each_limb<D, S>([&](auto Lc) {
                constexpr int L = decltype(Lc)::value;
                if constexpr (!c10_is_bad(D, S, L)) {
                    if (extremes_only_L && L != only_L) return;
                    using W = WT<D, S, L>;
                    using RI = rinfo<W>;
                    auto const& A = ops.template A<L>();
                    auto const& B = ops.template B<L>();
                    bool lowest_by_m1 = RI::S && b == BigW(-1) && a == -BigW::pow2(RI::N - 1);
                    if (lowest_by_m1 && !RI::multi) {
                        vf::skip_pre();
                        return;
                    }
                    W qg{}, rg{};
                    vf::Outcome o1 = vf::run([&] { qg = A / B; });
                    vf::Outcome o2 = vf::run([&] { rg = A % B; });
                    vf::validated(2);
                    std::string ls = "/limb" + std::to_string(L);
                    std::string ctx = rname<W>() + " a=" + a.str() + " b=" + b.str();
                    BigW qv, rv;
                    if (o1.ok()) {
                        qv = wread(qg);
                        ensure(&qv);
                    } else
                        ensure(nullptr);
                    BigW qe = wrapN(qt, RI::N, RI::S);
                    if (!o1.ok()) {
                        vf::outcome(vf::kind_name(o1.kind));
                        vf::violation(std::string("div/") + vf::kind_name(o1.kind) + "/" + q + "/" + dcls + ls, id(), ctx + ": a / b -> " + o1.str() + ", expected " + qe.str());
                    } else if (!(qv == qe)) {
                        vf::outcome("wrong_value");
                        vf::violation(std::string("div/value/") + q + "/" + dcls + ls, id(), ctx + ": a / b = " + qv.str() + ", expected " + qe.str());
                    } else
                        vf::outcome(lowest_by_m1 ? "ok_div_lowest_by_minus_one_wraps" : (BigW::cmp_mag(a, b) < 0 ? "ok_div_small_numerator" : "ok_div"));
                    if (!o2.ok()) {
                        vf::outcome(vf::kind_name(o2.kind));
                        vf::violation(std::string("mod/") + vf::kind_name(o2.kind) + "/" + q + "/" + dcls + ls, id(), ctx + ": a % b -> " + o2.str() + ", expected " + rt.str());
                    } else {
                        rv = wread(rg);
                        if (!(rv == rt)) {
                            vf::outcome("wrong_value");
                            vf::violation(std::string("mod/value/") + q + "/" + dcls + ls, id(), ctx + ": a % b = " + rv.str() + ", expected " + rt.str());
                        } else
                            vf::outcome(rt.is_zero() ? "ok_mod_zero" : "ok_mod");
                    }
                }
            });
        }

        // comparisons
        int c = BigW::cmp(a, b);
        auto cmpop = [&](const char* op, auto f, bool expect) {
            each_limb<D, S>([&](auto Lc) {
                constexpr int L = decltype(Lc)::value;
                if constexpr (!c10_is_bad(D, S, L)) {
                    if (extremes_only_L && L != only_L) return;
                    using W = WT<D, S, L>;
                    bool g = false;
                    vf::Outcome o = vf::run([&] { g = f(ops.template A<L>(), ops.template B<L>()); });
                    vf::validated();
                    if (!o.ok() || g != expect) {
                        vf::outcome(o.ok() ? "wrong_value" : vf::kind_name(o.kind));
                        vf::violation(std::string("cmp_") + op + "/" + (o.ok() ? "value" : vf::kind_name(o.kind)) + "/" + q + "/limb" + std::to_string(L), id(), rname<W>() + " a=" + a.str() + " b=" + b.str() + ": a " + op + " b -> " + (o.ok() ? vf::to_s(g) : o.str()));
                    } else
                        vf::outcome("ok_comparison");
                }
            });
        };
        cmpop("lt", [](auto const& x, auto const& y) { return x < y; }, c < 0);
        cmpop("le", [](auto const& x, auto const& y) { return x <= y; }, c <= 0);
        cmpop("gt", [](auto const& x, auto const& y) { return x > y; }, c > 0);
        cmpop("ge", [](auto const& x, auto const& y) { return x >= y; }, c >= 0);
        cmpop("eq", [](auto const& x, auto const& y) { return x == y; }, c == 0);
        cmpop("ne", [](auto const& x, auto const& y) { return x != y; }, c != 0);
    };

    for (BigW const& a : VA) {
        if (!vf::my_row()) continue;
        bool a_in_vb = cfg.k == 1 || in_vb(a);
        for (BigW const& b : VB) {
            do_pair(a, b, false, 0);
            if (!a_in_vb) do_pair(b, a, false, 0);
        }
    }
    // the extremes of each type's own storage, against themselves and a few common operands
    each_limb<D, S>([&](auto Lc) {
        constexpr int L = decltype(Lc)::value;
        if constexpr (!c10_is_bad(D, S, L)) {
            std::vector<BigW> ex = storage_extremes<D, S, L>();
            std::vector<BigW> other = ex;
            for (int v : {0, 1, 2, 3, 10, 255, 256}) other.push_back(BigW(v));
            if (S)
                for (int v : {-1, -2, -3, -256}) other.push_back(BigW(v));
            other.push_back(BigW::pow2(D) - BigW(1));
            other.push_back(BigW::pow2(D / 2) + BigW(1));
            if (S) other.push_back(-BigW::pow2(D));
            for (BigW const& a : ex) {
                if (!vf::my_row()) continue;
                for (BigW const& b : other) {
                    do_pair(a, b, true, L);
                    bool dup = false;
                    for (BigW const& e2 : ex) dup = dup || (e2 == b);
                    if (!dup) do_pair(b, a, true, L);
                }
            }
        }
    });
}

// ---------------------------------------------------------------------------------------------
// unary operators, shifts, conversions, text, numeric_limits

#if defined(CNL_INT128_ENABLED)
using WideToInts = types<bool, i8, u8, i16, u16, i32, u32, i64, u64, i128, u128>;
using WideFromInts = types<i8, u8, i16, u32, i64, u64, i128, u128>;
#else  // -std=c++20: __int128 is not an integer type to the library
using WideToInts = types<bool, i8, u8, i16, u16, i32, u32, i64, u64>;
using WideFromInts = types<i8, u8, i16, u32, i64, u64>;
#endif

template<int D, bool S>
[[gnu::noinline]] static void prog_wide_unary()
{
    std::string const pname = std::string("wide_unary<") + std::to_string(D) + (S ? ",signed>" : ",unsigned>");
    if (!vf::begin(pname, false)) return;
    WideCfg cfg = wide_cfg(D);
    std::vector<BigW> const VA = common_values(D + int(S), S, cfg.k, cfg.few_positions);
    std::vector<BigW> const VB = cfg.k == 1 ? VA : common_values(D + int(S), S, 1, cfg.few_positions);
    auto in_vb = [&](BigW const& x) { return std::binary_search(VB.begin(), VB.end(), x, BigWLess()); };
    constexpr int DB = D + int(S);
    std::vector<int> counts;
    for (int c : {0, 1, 2, 3, 7, 8, 9, 15, 16, 17, 31, 32, 33, 63, 64, 65, 127, 128, 129, D / 2, D - 1, D, D + 1, D + 7, D + 8, D + 15, D + 31, D + 63})
        if (c >= 0 && std::find(counts.begin(), counts.end(), c) == counts.end()) counts.push_back(c);
    std::sort(counts.begin(), counts.end());

    // ---- static facts: numeric_limits, operators that do not compile
    if (vf::my_row() && (!vf::replaying() || vf::case_selected("type"))) {
        report_uninstantiable<D, S>("unary");
#if !C10_HAVE_PUBLIC_NOT
        if (D > (S ? 127 : 128)) {
            vf::counted(true);
            vf::outcome("operator_does_not_compile");
            // not judged: an expression that does not compile is not a program (no execution can show a wrong value); see DESIGN.md sec. 15
        }
#endif
        if (!(S ? bool(C10_HAVE_TO_CHARS_SIGNED) : bool(C10_HAVE_TO_CHARS_UNSIGNED)) && D > (S ? 127 : 128)) {
            vf::counted(true);
            vf::outcome("operator_does_not_compile");
            // not judged: an expression that does not compile is not a program (no execution can show a wrong value); see DESIGN.md sec. 15
        }
        each_limb<D, S>([&](auto Lc) {
            constexpr int L = decltype(Lc)::value;
            if constexpr (!c10_is_bad(D, S, L)) {
                using W = WT<D, S, L>;
                using NL = std::numeric_limits<W>;
                vf::counted(true);
                auto lim = [&](const char* what, bool ok, std::string const& detail) {
                    vf::validated();
                    if (ok) vf::outcome("ok_numeric_limits");
                    else {
                        vf::outcome("wrong_value");
                        vf::violation(std::string("limits/") + what, "type", rname<W>() + " numeric_limits::" + what + " " + detail);
                    }
                };
                lim("digits", NL::digits == D, "= " + std::to_string(NL::digits));
                lim("is_signed", bool(NL::is_signed) == S, "= " + vf::to_s(bool(NL::is_signed)));
                lim("is_integer", NL::is_integer && NL::is_specialized, "flags");
                BigW emax = BigW::pow2(D) - BigW(1), elow = S ? -BigW::pow2(D) : BigW(0);
                W mx{}, lo{}, mn{};
                vf::Outcome o = vf::run([&] {
                    mx = NL::max();
                    lo = NL::lowest();
                    mn = NL::min();
                });
                lim("max", o.ok() && wread(mx) == emax, o.ok() ? "= " + wread(mx).str() + ", expected 2^" + std::to_string(D) + "-1" : o.str());
                lim("lowest", o.ok() && wread(lo) == elow, o.ok() ? "= " + wread(lo).str() + ", expected " + elow.str() : o.str());
                if (o.ok() && wread(mn) == BigW(1) && S) {
                    // CNL convention shared with elastic_integer (whose unit tests assert min() == 1): recorded, not judged
                    vf::validated();
                    vf::outcome("limits_min_is_one_cnl_convention_not_lowest");
                } else
                    lim("min", o.ok() && (wread(mn) == elow || wread(mn) == BigW(1)), o.ok() ? "= " + wread(mn).str() : o.str());
            }
        });
    }

    auto do_value = [&](BigW const& a, bool only, int only_L) {
        auto id = [&] { return hex(a); };
        if (vf::replaying() && !vf::case_selected(id())) return;
        bool const in_declared = fitsN(a, DB, S);
        bool const text_too = only || in_vb(a);
        vf::counted(a.bit_length() > 8 || a.neg);
        if (vf::want_sample()) vf::sample(id() + " -> -a, ~a, ++, --, shifts, conversions, text for limb types 8/16/32/64");
        const char* sg = a.neg ? "negative" : "nonneg";

        // f: W (by value) -> result; expect(N, S_of_result) -> BigW; ub_if_wrapped: single-word signed storage would overflow
        auto unop = [&](std::string const& op, std::string const& cls, auto f, auto expect, BigW const* exact_for_indep) {
            BigW got[4];
            bool have[4] = {false, false, false, false};
            int li = -1;
            each_limb<D, S>([&](auto Lc) {
                constexpr int L = decltype(Lc)::value;
                ++li;
                if constexpr (!c10_is_bad(D, S, L)) {
                    if (only && L != only_L) return;
                    using W = WT<D, S, L>;
                    using R = std::remove_cvref_t<decltype(f(std::declval<W>()))>;
                    using RI = rinfo<R>;
                    bool pre_ok = true, ub = false;
                    BigW e = expect(RI::N, RI::S, rinfo<W>::N, pre_ok, ub);
                    if (!pre_ok || (ub && !rinfo<W>::multi && rinfo<W>::S)) {
                        vf::skip_pre();
                        return;
                    }
                    W const A = wmake<W>(a);
                    R r{};
                    vf::Outcome o = vf::run([&] { r = f(A); });
                    vf::validated();
                    std::string ls = "/limb" + std::to_string(L);
                    if (!o.ok()) {
                        vf::outcome(vf::kind_name(o.kind));
                        vf::violation(op + "/" + vf::kind_name(o.kind) + "/" + cls + ls, id(), rname<W>() + " a=" + a.str() + ": " + op + " -> " + o.str() + ", expected " + e.str());
                        return;
                    }
                    got[li] = wread(r);
                    have[li] = true;
                    if (!(got[li] == e)) {
                        vf::outcome("wrong_value");
                        vf::violation(op + "/value/" + cls + ls, id(), rname<W>() + " a=" + a.str() + ": " + op + " = " + got[li].str() + ", expected " + e.str());
                    } else
                        vf::outcome("ok_" + op.substr(0, op.find('/')));
                }
            });
            if (!only && in_declared && exact_for_indep && fitsN(*exact_for_indep, DB, S)) {
                int first = -1;
                for (int i = 0; i < 4; ++i) {
                    if (!have[i]) continue;
                    if (first < 0) first = i;
                    else if (!(got[i] == got[first])) {
                        vf::violation("limb_dependence/" + op.substr(0, op.find('/')), id(), "wide_integer<" + std::to_string(D) + "> a=" + a.str() + ": " + op + " = " + got[first].str() + " with " + std::to_string(8 << first) + "-bit limbs but " + got[i].str() + " with " + std::to_string(8 << i) + "-bit limbs");
                        break;
                    }
                }
            }
        };
        auto wrap_of = [](BigW const& exact) {
            return [exact](int N, bool Sg, int, bool&, bool& ub) {
                BigW e = wrapN(exact, N, Sg);
                ub = !(e == exact);
                return e;
            };
        };
        // result is `ret`, but the object is stepped to `stepped`: overflow of a single-word signed rep is UB
        auto ret_of = [](BigW const& ret, BigW const& stepped) {
            return [ret, stepped](int N, bool Sg, int, bool&, bool& ub) {
                ub = !(wrapN(stepped, N, Sg) == stepped);
                return wrapN(ret, N, Sg);
            };
        };
        BigW const na = -a, ap1 = a + BigW(1), am1 = a - BigW(1);
        unop("neg", sg, [](auto t) { return -t; }, wrap_of(na), &na);
#if C10_HAVE_PUBLIC_NOT
        {
            BigW nota = -a - BigW(1);
            unop("not", sg, [](auto t) { return ~t; }, [&](int N, bool Sg, int, bool&, bool&) { return bitnot(a, N, Sg); }, S ? &nota : nullptr);
        }
#endif
        unop("preinc", sg, [](auto t) { return std::remove_cvref_t<decltype(t)>(++t); }, wrap_of(ap1), &ap1);
        unop("postinc_result", sg, [](auto t) { return std::remove_cvref_t<decltype(t)>(t++); }, ret_of(a, ap1), &a);
        unop("postinc_object", sg, [](auto t) { t++; return t; }, wrap_of(ap1), &ap1);
        unop("predec", sg, [](auto t) { return std::remove_cvref_t<decltype(t)>(--t); }, wrap_of(am1), &am1);
        unop("postdec_result", sg, [](auto t) { return std::remove_cvref_t<decltype(t)>(t--); }, ret_of(a, am1), &a);
        unop("postdec_object", sg, [](auto t) { t--; return t; }, wrap_of(am1), &am1);
        for (int c : counts) {
            std::string cs = std::to_string(c);
            BigW const sl = a.shl(c), sr = floor_shr(a, c);
            std::string cls = std::string(sg) + (c % 8 == 0 ? "/count_multiple_of_8" : "/count_with_bit_part");
            unop("shl/" + cs, cls, [c](auto t) { return t << c; }, [&](int N, bool Sg, int NW, bool& pre, bool& ub) {
                pre = c < NW;
                BigW e = wrapN(sl, N, Sg);
                ub = !(e == sl) || a.neg;
                return e; }, &sl);
            unop("shr/" + cs, cls, [c](auto t) { return t >> c; }, [&](int N, bool Sg, int NW, bool& pre, bool&) {
                pre = c < NW;
                return wrapN(sr, N, Sg); }, &sr);
        }
        // conversions to built-in integers: value preserved when representable, else reduced mod 2^k
        for_types(WideToInts{}, [&](auto ti) {
            using X = typename decltype(ti)::type;
            bool fits = std::is_same_v<X, bool> ? true : a.fits(int(sizeof(X) * 8), vals::is_signed_v<X>);
            unop("to_int/" + vf::tn<X>(), std::string(fits ? "in_range/" : "narrowing/") + sg, [](auto t) { return static_cast<X>(t); }, [&](int, bool, int, bool&, bool&) {
                if constexpr (std::is_same_v<X, bool>) return BigW(int(!a.is_zero()));
                else return wrapN(a, int(sizeof(X) * 8), vals::is_signed_v<X>); }, &a);
        });
        // to floating point
        for_types(types<float, double, long double>{}, [&](auto ti) {
            using F = typename decltype(ti)::type;
            FloatRef<F> e = big_to_float<F>(a);
            F const away = std::nextafter(e.toward_zero, a.neg ? -std::numeric_limits<F>::infinity() : std::numeric_limits<F>::infinity());
            F gotf[4];
            bool have[4] = {false, false, false, false};
            int li = -1;
            each_limb<D, S>([&](auto Lc) {
                constexpr int L = decltype(Lc)::value;
                ++li;
                if constexpr (!c10_is_bad(D, S, L)) {
                    if (only && L != only_L) return;
                    using W = WT<D, S, L>;
                    W const A = wmake<W>(a);
                    F g = 0;
                    vf::Outcome o = vf::run([&] { g = static_cast<F>(A); });
                    vf::validated();
                    std::string ls = "/limb" + std::to_string(L);
                    if (!o.ok()) {
                        vf::outcome(vf::kind_name(o.kind));
                        vf::violation("to_float/" + std::string(vf::kind_name(o.kind)) + "/" + vf::tn<F>() + ls, id(), rname<W>() + " a=" + a.str() + " static_cast<" + vf::tn<F>() + "> -> " + o.str());
                        return;
                    }
                    gotf[li] = g;
                    have[li] = true;
                    if (!(g == e.nearest)) {
                        vf::outcome("wrong_value");
                        const char* how = e.exact ? "exactly_representable" : (e.overflow ? "beyond_largest_finite" : (g == e.toward_zero ? "inexact/adjacent_toward_zero_instead_of_nearest" : (g == away ? "inexact/adjacent_away_from_zero_instead_of_nearest" : "inexact/not_adjacent")));
                        vf::violation(std::string("to_float/value/") + how + "/" + vf::tn<F>(), id(), rname<W>() + " a=" + hex(a) + " static_cast<" + vf::tn<F>() + "> = " + vf::to_s(g) + ", correctly rounded " + vf::to_s(e.nearest) + ", truncated " + vf::to_s(e.toward_zero));
                    } else
                        vf::outcome(e.exact ? "ok_to_float_exact" : (e.overflow ? "ok_to_float_overflows_to_inf" : "ok_to_float_correctly_rounded"));
                }
            });
            if (!only) {
                int first = -1;
                for (int i = 0; i < 4; ++i) {
                    if (!have[i]) continue;
                    if (first < 0) first = i;
                    else if (!(gotf[i] == gotf[first])) {
                        vf::violation("limb_dependence/to_float/" + vf::tn<F>(), id(), "wide_integer<" + std::to_string(D) + "> a=" + hex(a) + " static_cast<" + vf::tn<F>() + "> = " + vf::to_s(gotf[first]) + " with " + std::to_string(8 << first) + "-bit limbs but " + vf::to_s(gotf[i]) + " with " + std::to_string(8 << i) + "-bit limbs");
                        break;
                    }
                }
            }
        });
        // decimal text
        if (text_too) {
            std::string const expect = a.str();
            each_limb<D, S>([&](auto Lc) {
                constexpr int L = decltype(Lc)::value;
                if constexpr (!c10_is_bad(D, S, L)) {
                    if (only && L != only_L) return;
                    using W = WT<D, S, L>;
                    W const A = wmake<W>(a);
                    std::string ls = "/limb" + std::to_string(L);
                    if (!rinfo<W>::multi && S && a == -BigW::pow2(rinfo<W>::N - 1)) {
                        vf::skip_pre();  // single-word rep: text of the most negative built-in value is C13's subject (documented unsupported)
                    } else {
                        std::string got;
                        vf::Outcome o = vf::run([&] {
                            std::ostringstream os;
                            os << A;
                            got = os.str();
                        });
                        vf::validated();
                        if (!o.ok() || got != expect) {
                            vf::outcome(o.ok() ? "wrong_value" : vf::kind_name(o.kind));
                            vf::violation(std::string("text/ostream/") + (o.ok() ? "value" : vf::kind_name(o.kind)) + "/" + sg + ls, id(), rname<W>() + " a=" + expect + " operator<< " + (o.ok() ? "wrote \"" + got + "\"" : o.str()));
                        } else
                            vf::outcome("ok_text_ostream");
                    }
                    // cnl::to_chars: documented not to support values below -max
                    constexpr bool have_to_chars = S ? bool(C10_HAVE_TO_CHARS_SIGNED) : bool(C10_HAVE_TO_CHARS_UNSIGNED);
                    if constexpr (!have_to_chars) {
                    } else if (S && a < -(BigW::pow2(D) - BigW(1))) {
                        vf::skip_pre();
                    } else {
                        static char buf[1024];
                        std::string got;
                        bool ec_ok = false;
                        vf::Outcome o = vf::run([&] {
                            auto r = cnl::to_chars(buf, buf + sizeof buf - 1, A);
                            ec_ok = r.ec == std::errc{} && r.ptr != nullptr;
                            if (ec_ok) got.assign(buf, r.ptr);
                        });
                        vf::validated();
                        if (!o.ok() || !ec_ok || got != expect) {
                            vf::outcome(o.ok() ? "wrong_value" : vf::kind_name(o.kind));
                            vf::violation(std::string("text/to_chars/") + (o.ok() ? (ec_ok ? "value" : "error_code") : vf::kind_name(o.kind)) + "/" + sg + ls, id(), rname<W>() + " a=" + expect + " cnl::to_chars " + (o.ok() ? (ec_ok ? "wrote \"" + got + "\"" : "reported an error with a 1023-byte buffer") : o.str()));
                        } else
                            vf::outcome("ok_text_to_chars");
                    }
                }
            });
        }
    };

    for (BigW const& a : VA) {
        if (!vf::my_row()) continue;
        do_value(a, false, 0);
    }
    for (BigW const& a : float_hazards(DB, S)) {
        if (!vf::my_row()) continue;
        if (!std::binary_search(VA.begin(), VA.end(), a, BigWLess())) do_value(a, false, 0);
    }
    each_limb<D, S>([&](auto Lc) {
        constexpr int L = decltype(Lc)::value;
        if constexpr (!c10_is_bad(D, S, L)) {
            for (BigW const& a : storage_extremes<D, S, L>()) {
                if (!vf::my_row()) continue;
                do_value(a, true, L);
            }
        }
    });

    // ---- from built-in integers and floating point
    each_limb<D, S>([&](auto Lc) {
        constexpr int L = decltype(Lc)::value;
        if constexpr (!c10_is_bad(D, S, L)) {
            using W = WT<D, S, L>;
            using WI = rinfo<W>;
            for_types(WideFromInts{}, [&](auto ti) {
                using X = typename decltype(ti)::type;
                for (X v : vals::lattice<X>(4)) {
                    if (!vf::my_row()) continue;
                    std::string id = "from_" + vf::tn<X>() + ":" + vf::to_s(v) + ":limb" + std::to_string(L);
                    if (vf::replaying() && !vf::case_selected(id)) continue;
                    BigW bv = v < 0 ? -BigW(u128(0) - u128(v)) : BigW(u128(v));
                    BigW e = wrapN(bv, WI::N, WI::S);
                    bool fits = e == bv;
                    vf::counted(!fits || bv.neg);
                    W r{};
                    vf::Outcome o = vf::run([&] { r = W(v); });
                    vf::validated();
                    std::string cls = std::string(fits ? "in_range" : "narrowing") + (bv.neg ? "/negative" : "/nonneg") + "/limb" + std::to_string(L);
                    if (!o.ok() || !(wread(r) == e)) {
                        vf::outcome(o.ok() ? "wrong_value" : vf::kind_name(o.kind));
                        vf::violation(std::string("from_int/") + (o.ok() ? "value" : vf::kind_name(o.kind)) + "/" + cls, id, rname<W>() + "(" + vf::tn<X>() + " " + vf::to_s(v) + ") " + (o.ok() ? "= " + wread(r).str() : "-> " + o.str()) + ", expected " + e.str());
                    } else
                        vf::outcome(fits ? "ok_from_int_value_preserved" : "ok_from_int_reduced_mod_2^N");
                }
            });
            for_types(types<float, double, long double>{}, [&](auto ti) {
                using F = typename decltype(ti)::type;
                for (F x : float_probe_values<F>(WI::N)) {
                    if (!vf::my_row()) continue;
                    std::string id = "from_" + vf::tn<F>() + ":" + vf::to_s(x) + ":limb" + std::to_string(L);
                    if (vf::replaying() && !vf::case_selected(id)) continue;
                    bool is_int;
                    BigW t = float_trunc(x, is_int);
                    if (!t.fits(WI::N, WI::S) || (!WI::S && x < 0)) {
                        vf::skip_pre();
                        continue;
                    }
                    vf::counted(t.bit_length() > 64);
                    W r{};
                    vf::Outcome o = vf::run([&] { r = W(x); });
                    vf::validated();
                    std::string cls = std::string(is_int ? "integer_valued" : "fraction_truncates") + "/" + vf::tn<F>() + "/limb" + std::to_string(L);
                    if (!o.ok() || !(wread(r) == t)) {
                        vf::outcome(o.ok() ? "wrong_value" : vf::kind_name(o.kind));
                        vf::violation(std::string("from_float/") + (o.ok() ? "value" : vf::kind_name(o.kind)) + "/" + cls, id, rname<W>() + "(" + vf::tn<F>() + " " + vf::to_s(x) + ") " + (o.ok() ? "= " + wread(r).str() : "-> " + o.str()) + ", expected " + t.str());
                    } else
                        vf::outcome(is_int ? "ok_from_float_integer" : "ok_from_float_truncated");
                }
            });
        }
    });
}

// ---------------------------------------------------------------------------------------------
// mixed operands: wide_integer op built-in integer, wide_integer of different widths, conversions
// between widths and signedness. Result digits = max of the operand digits, signed if either is.

struct IllFormed {
    const char* name;
    const char* expr;
};
#if !defined(C10_ILL_FORMED)
#define C10_ILL_FORMED {"not", "~wide_integer<200,int>{}"},
#endif
constexpr IllFormed c10_ill_formed[] = {C10_ILL_FORMED{nullptr, nullptr}};

#if VF_PART == 30000
[[gnu::noinline]] static void prog_wide_mixed()
{
    if (!vf::begin("wide_mixed", false)) return;
    using W = cnl::wide_integer<200, int>;
    using U = cnl::wide_integer<200, unsigned>;
    using W100 = cnl::wide_integer<100, int>;  // single-word rep under gnu++20
    using W300 = cnl::wide_integer<300, int>;
    using U300 = cnl::wide_integer<300, unsigned>;
    std::set<std::string> type_reported;

    if (vf::my_row() && (!vf::replaying() || vf::case_selected("type"))) {
        for (auto const& f : c10_ill_formed) {
            if (!f.name) break;
            vf::counted(true);
            vf::outcome("expression_does_not_compile");
            // not judged: an expression that does not compile is not a program (no execution can show a wrong value); see DESIGN.md sec. 15
        }
    }

    auto check_type = [&](std::string const& op, auto tag, int digits, bool sg, std::string const& what) {
        using R = typename decltype(tag)::type;
        if constexpr (!std::is_same_v<R, bool>) {
            if (rinfo<R>::digits != digits || rinfo<R>::S != sg) {
                if (type_reported.insert(op + what).second) vf::violation("mixed/result_type/" + op, "type", what + ": result is " + rname<R>() + ", expected digits " + std::to_string(digits) + (sg ? " signed" : " unsigned"));
            }
        }
    };
    // kind: 0 arithmetic (exact given), 1 and, 2 or, 3 xor
    auto mix = [&](std::string const& op, std::string const& cls, std::string const& id, auto const& l, auto const& r, BigW const& lv, BigW const& rv, auto f, int kind, BigW const& exact, int digits, bool sg, std::string const& what) {
        using R = decltype(f(l, r));
        using RI = rinfo<R>;
        check_type(op, std::type_identity<R>{}, digits, sg, what);
        BigW e = kind == 0 ? wrapN(exact, RI::N, RI::S) : bitop(lv, rv, RI::N, RI::S, kind == 1 ? B_AND : kind == 2 ? B_OR : B_XOR);
        if (kind == 0 && !(e == exact) && !RI::multi && RI::S) {
            vf::skip_pre();
            return;
        }
        R g{};
        vf::Outcome o = vf::run([&] { g = f(l, r); });
        vf::validated();
        if (!o.ok() || !(wread(g) == e)) {
            vf::outcome(o.ok() ? "wrong_value" : vf::kind_name(o.kind));
            vf::violation("mixed/" + op + "/" + (o.ok() ? "value" : vf::kind_name(o.kind)) + "/" + cls, id, what + " l=" + lv.str() + " r=" + rv.str() + ": l " + op + " r " + (o.ok() ? "= " + wread(g).str() : "-> " + o.str()) + ", expected " + e.str());
        } else
            vf::outcome("ok_mixed_" + op);
    };
    auto mixcmp = [&](std::string const& cls, std::string const& id, auto const& l, auto const& r, BigW const& lv, BigW const& rv, std::string const& what, auto have_rel, auto have_eq) {
        int c = BigW::cmp(lv, rv);
        auto one = [&](const char* op, auto f, bool expect) {
            bool g = false;
            vf::Outcome o = vf::run([&] { g = f(l, r); });
            vf::validated();
            if (!o.ok() || g != expect) {
                vf::outcome(o.ok() ? "wrong_value" : vf::kind_name(o.kind));
                vf::violation(std::string("mixed/cmp_") + op + "/" + (o.ok() ? "value" : vf::kind_name(o.kind)) + "/" + cls, id, what + " l=" + lv.str() + " r=" + rv.str() + ": l " + op + " r " + (o.ok() ? "= " + vf::to_s(g) : "-> " + o.str()) + ", expected " + vf::to_s(expect));
            } else
                vf::outcome("ok_mixed_comparison");
        };
        if constexpr (decltype(have_rel)::value) {
            one("lt", [](auto const& x, auto const& y) { return x < y; }, c < 0);
            one("le", [](auto const& x, auto const& y) { return x <= y; }, c <= 0);
            one("gt", [](auto const& x, auto const& y) { return x > y; }, c > 0);
            one("ge", [](auto const& x, auto const& y) { return x >= y; }, c >= 0);
        }
        if constexpr (decltype(have_eq)::value) {
            one("eq", [](auto const& x, auto const& y) { return x == y; }, c == 0);
            one("ne", [](auto const& x, auto const& y) { return x != y; }, c != 0);
        }
    };

    auto with_builtin = [&](auto wtag, const char* wname, std::vector<BigW> const& VW) {
        using WW = typename decltype(wtag)::type;
        constexpr bool WS = rinfo<WW>::S;
        for (BigW const& a : VW) {
            if (!vf::my_row()) continue;
            WW const A = wmake<WW>(a);
            for_types(types<int, unsigned, long, unsigned long>{}, [&](auto ti) {
                using X = typename decltype(ti)::type;
                for (X x : vals::lattice<X>(8)) {
                    std::string id = std::string(wname) + ":" + hex(a) + "," + vf::tn<X>() + ":" + vf::to_s(x);
                    if (vf::replaying() && !vf::case_selected(id)) continue;
                    BigW xv = x < 0 ? -BigW(u128(0) - u128(x)) : BigW(u128(x));
                    vf::counted(!a.is_zero() && x != 0);
                    constexpr int dg = 200;
                    constexpr bool sg = WS || vals::is_signed_v<X>;
                    std::string what = std::string(wname) + " op " + vf::tn<X>();
                    std::string cls = std::string(WS ? "wide_signed" : "wide_unsigned") + (vals::is_signed_v<X> ? "/builtin_signed" : "/builtin_unsigned") + (a.neg ? "/wide_negative" : "") + (xv.neg ? "/builtin_negative" : "");
                    // a negative operand entering an unsigned result is outside "common signedness"
                    if (!sg && (a.neg || xv.neg)) {
                        vf::skip_pre();
                        continue;
                    }
                    mix("add", cls, id, A, x, a, xv, [](auto const& p, auto const& q) { return p + q; }, 0, a + xv, dg, sg, what);
                    mix("sub", cls, id, A, x, a, xv, [](auto const& p, auto const& q) { return p - q; }, 0, a - xv, dg, sg, what);
                    mix("mul", cls, id, A, x, a, xv, [](auto const& p, auto const& q) { return p * q; }, 0, a * xv, dg, sg, what);
                    mix("and", cls, id, A, x, a, xv, [](auto const& p, auto const& q) { return p & q; }, 1, BigW(0), dg, sg, what);
#if C10_HAVE_OR_XOR_BUILTIN
                    mix("or", cls, id, A, x, a, xv, [](auto const& p, auto const& q) { return p | q; }, 2, BigW(0), dg, sg, what);
                    mix("xor", cls, id, A, x, a, xv, [](auto const& p, auto const& q) { return p ^ q; }, 3, BigW(0), dg, sg, what);
#endif
                    mix("rsub", cls, id, x, A, xv, a, [](auto const& p, auto const& q) { return p - q; }, 0, xv - a, dg, sg, std::string(vf::tn<X>()) + " op " + wname);
                    mix("radd", cls, id, x, A, xv, a, [](auto const& p, auto const& q) { return p + q; }, 0, xv + a, dg, sg, std::string(vf::tn<X>()) + " op " + wname);
                    if (x != 0) {
                        BigW qv, rv;
                        BigW::divmod(a, xv, qv, rv);
                        mix("div", cls, id, A, x, a, xv, [](auto const& p, auto const& q) { return p / q; }, 0, qv, dg, sg, what);
                        mix("mod", cls + (sizeof(X) <= 4 && !vals::is_signed_v<X> ? "/divisor_type_not_wider_than_limb" : ""), id, A, x, a, xv, [](auto const& p, auto const& q) { return p % q; }, 0, rv, dg, sg, what);
                    } else
                        vf::skip_pre();
                    if (!a.is_zero()) {
                        BigW qv, rv;
                        BigW::divmod(xv, a, qv, rv);
                        mix("rdiv", cls, id, x, A, xv, a, [](auto const& p, auto const& q) { return p / q; }, 0, qv, dg, sg, std::string(vf::tn<X>()) + " op " + wname);
                        mix("rmod", cls, id, x, A, xv, a, [](auto const& p, auto const& q) { return p % q; }, 0, rv, dg, sg, std::string(vf::tn<X>()) + " op " + wname);
                    }
                    // comparison of mathematical values only where both have the common signedness
                    if (WS == vals::is_signed_v<X>) {
                        mixcmp(cls, id, A, x, a, xv, what, std::true_type{}, std::true_type{});
                        mixcmp(cls, id, x, A, xv, a, std::string(vf::tn<X>()) + " cmp " + wname, std::true_type{}, std::true_type{});
                    }
                }
            });
        }
    };
    std::vector<BigW> const VS = common_values(201, true, 1, true), VU = common_values(200, false, 1, true);
    with_builtin(std::type_identity<W>{}, "wide_integer<200,int>", VS);
    with_builtin(std::type_identity<U>{}, "wide_integer<200,unsigned>", VU);

    // wide_integer<100> (single word) with wide_integer<200>; wide_integer<200> with wide_integer<300>
    std::vector<BigW> const V100 = common_values(101, true, 1, true), V300 = common_values(301, true, 1, true);
    for (BigW const& a : VS) {
        if (!vf::my_row()) continue;
        W const A = wmake<W>(a);
        for (BigW const& b : V100) {
            std::string id = "w200:" + hex(a) + ",w100:" + hex(b);
            if (vf::replaying() && !vf::case_selected(id)) continue;
            W100 const B = wmake<W100>(b);
            vf::counted(!a.is_zero() && !b.is_zero());
            std::string cls = "wide200_wide100";
            std::string what = "wide_integer<200> op wide_integer<100>", rwhat = "wide_integer<100> op wide_integer<200>";
            mix("add", cls, id, A, B, a, b, [](auto const& p, auto const& q) { return p + q; }, 0, a + b, 200, true, what);
            mix("sub", cls, id, A, B, a, b, [](auto const& p, auto const& q) { return p - q; }, 0, a - b, 200, true, what);
            mix("rsub", cls, id, B, A, b, a, [](auto const& p, auto const& q) { return p - q; }, 0, b - a, 200, true, rwhat);
            mix("mul", cls, id, A, B, a, b, [](auto const& p, auto const& q) { return p * q; }, 0, a * b, 200, true, what);
            mix("rmul", cls, id, B, A, b, a, [](auto const& p, auto const& q) { return p * q; }, 0, a * b, 200, true, rwhat);
            mix("and", cls, id, A, B, a, b, [](auto const& p, auto const& q) { return p & q; }, 1, BigW(0), 200, true, what);
            if (!b.is_zero()) {
                BigW qv, rv;
                BigW::divmod(a, b, qv, rv);
                mix("div", cls, id, A, B, a, b, [](auto const& p, auto const& q) { return p / q; }, 0, qv, 200, true, what);
                mix("mod", cls, id, A, B, a, b, [](auto const& p, auto const& q) { return p % q; }, 0, rv, 200, true, what);
            }
            if (!a.is_zero()) {
                BigW qv, rv;
                BigW::divmod(b, a, qv, rv);
                mix("rdiv", cls, id, B, A, b, a, [](auto const& p, auto const& q) { return p / q; }, 0, qv, 200, true, rwhat);
                mix("rmod", cls, id, B, A, b, a, [](auto const& p, auto const& q) { return p % q; }, 0, rv, 200, true, rwhat);
            }
            mixcmp(cls, id, A, B, a, b, "wide_integer<200> cmp wide_integer<100>", std::true_type{}, std::true_type{});
            mixcmp(cls, id, B, A, b, a, "wide_integer<100> cmp wide_integer<200>", std::true_type{}, std::true_type{});
        }
        for (BigW const& b : V300) {
            std::string id = "w200:" + hex(a) + ",w300:" + hex(b);
            if (vf::replaying() && !vf::case_selected(id)) continue;
            W300 const B = wmake<W300>(b);
            vf::counted(true);
            std::string cls = std::string("wide200_wide300/") + (fitsN(b, 224, true) ? "wider_operand_fits_narrower_storage" : "wider_operand_exceeds_narrower_storage");
            mixcmp(cls, id, A, B, a, b, "wide_integer<200> cmp wide_integer<300>", std::bool_constant<bool(C10_HAVE_MIXED_WIDTH_CMP_REL)>{}, std::bool_constant<bool(C10_HAVE_MIXED_WIDTH_CMP_EQ)>{});
            mixcmp(cls, id, B, A, b, a, "wide_integer<300> cmp wide_integer<200>", std::bool_constant<bool(C10_HAVE_MIXED_WIDTH_CMP_REL)>{}, std::bool_constant<bool(C10_HAVE_MIXED_WIDTH_CMP_EQ)>{});
#if C10_HAVE_MIXED_WIDTH_ARITH
            mix("add", cls, id, A, B, a, b, [](auto const& p, auto const& q) { return p + q; }, 0, a + b, 300, true, "wide_integer<200> op wide_integer<300>");
            mix("rsub", cls, id, B, A, b, a, [](auto const& p, auto const& q) { return p - q; }, 0, b - a, 300, true, "wide_integer<300> op wide_integer<200>");
            mix("mul", cls, id, A, B, a, b, [](auto const& p, auto const& q) { return p * q; }, 0, a * b, 300, true, "wide_integer<200> op wide_integer<300>");
#endif
        }
    }
#if C10_HAVE_MIXED_SIGN_ARITH
    for (BigW const& a : VS) {
        if (!vf::my_row()) continue;
        W const A = wmake<W>(a);
        for (BigW const& b : VU) {
            std::string id = "w200:" + hex(a) + ",u200:" + hex(b);
            if (vf::replaying() && !vf::case_selected(id)) continue;
            U const B = wmake<U>(b);
            vf::counted(true);
            mix("add", "signed_unsigned", id, A, B, a, b, [](auto const& p, auto const& q) { return p + q; }, 0, a + b, 200, true, "wide_integer<200,int> op wide_integer<200,unsigned>");
            mix("mul", "signed_unsigned", id, A, B, a, b, [](auto const& p, auto const& q) { return p * q; }, 0, a * b, 200, true, "wide_integer<200,int> op wide_integer<200,unsigned>");
        }
    }
#endif

    // single-word wide_integers of DIFFERENT signedness (reps are built-in integers of different signedness): the result has
    // max digits and is signed; it must hold the arithmetic result by value, not the result of the built-in operator on the
    // two raw reps (which converts the signed operand to unsigned first)
    auto single_word_mixed = [&](auto ut, auto st, int ubits, int sbits, const char* uname, const char* sname) {
        using UW = typename decltype(ut)::type;
        using SW = typename decltype(st)::type;
        std::vector<BigW> const VUu = common_values(ubits, false, 1, true);
        std::vector<BigW> const VSs = common_values(sbits + 1, true, 1, true);
        int const dg = std::max(ubits, sbits);
        for (BigW const& a : VUu) {
            if (!vf::my_row()) continue;
            UW const A = wmake<UW>(a);
            for (BigW const& b : VSs) {
                std::string id = std::string(uname) + ":" + hex(a) + "," + sname + ":" + hex(b);
                if (vf::replaying() && !vf::case_selected(id)) continue;
                SW const B = wmake<SW>(b);
                vf::counted(b.neg);
                std::string const cls = std::string("single_word_mixed_signedness/") + (b.neg ? "signed_negative" : "signed_nonnegative");
                std::string const what = std::string(uname) + " op " + sname, rwhat = std::string(sname) + " op " + uname;
                mix("add", cls, id, A, B, a, b, [](auto const& p, auto const& q) { return p + q; }, 0, a + b, dg, true, what);
                mix("radd", cls, id, B, A, b, a, [](auto const& p, auto const& q) { return p + q; }, 0, a + b, dg, true, rwhat);
                mix("sub", cls, id, A, B, a, b, [](auto const& p, auto const& q) { return p - q; }, 0, a - b, dg, true, what);
                mix("rsub", cls, id, B, A, b, a, [](auto const& p, auto const& q) { return p - q; }, 0, b - a, dg, true, rwhat);
                mix("mul", cls, id, A, B, a, b, [](auto const& p, auto const& q) { return p * q; }, 0, a * b, dg, true, what);
                mixcmp(cls, id, A, B, a, b, what, std::true_type{}, std::true_type{});
            }
        }
    };
    single_word_mixed(std::type_identity<cnl::wide_integer<32, unsigned>>{}, std::type_identity<cnl::wide_integer<31, int>>{}, 32, 31, "wide_integer<32,unsigned>", "wide_integer<31,int>");
    single_word_mixed(std::type_identity<cnl::wide_integer<8, std::uint8_t>>{}, std::type_identity<cnl::wide_integer<7, std::int8_t>>{}, 8, 7, "wide_integer<8,uint8_t>", "wide_integer<7,int8_t>");
    single_word_mixed(std::type_identity<cnl::wide_integer<64, unsigned>>{}, std::type_identity<cnl::wide_integer<40, int>>{}, 64, 40, "wide_integer<64,unsigned>", "wide_integer<40,int>");
    single_word_mixed(std::type_identity<cnl::wide_integer<20, unsigned>>{}, std::type_identity<cnl::wide_integer<50, int>>{}, 20, 50, "wide_integer<20,unsigned>", "wide_integer<50,int>");

    // conversions between widths and signedness: value reduced to the target's storage
    auto conv = [&](auto from_tag, auto to_tag, std::vector<BigW> const& V, const char* what) {
        using Fm = typename decltype(from_tag)::type;
        using To = typename decltype(to_tag)::type;
        for (BigW const& a : V) {
            if (!vf::my_row()) continue;
            std::string id = std::string(what) + ":" + hex(a);
            if (vf::replaying() && !vf::case_selected(id)) continue;
            Fm const A = wmake<Fm>(a);
            BigW e = wrapN(a, rinfo<To>::N, rinfo<To>::S);
            bool fits = e == a;
            if (!fits && !rinfo<To>::multi) {
                // narrowing into a single-word rep: static_cast of the limb class to the built-in, modular
            }
            vf::counted(!fits);
            To g{};
            vf::Outcome o = vf::run([&] { g = static_cast<To>(A); });
            vf::validated();
            std::string cls = std::string(fits ? "value_preserved" : "reduced") + (a.neg ? "/negative" : "/nonneg");
            if (!o.ok() || !(wread(g) == e)) {
                vf::outcome(o.ok() ? "wrong_value" : vf::kind_name(o.kind));
                vf::violation(std::string("mixed/convert/") + what + "/" + (o.ok() ? "value" : vf::kind_name(o.kind)) + "/" + cls, id, std::string(what) + " a=" + a.str() + (o.ok() ? " = " + wread(g).str() : " -> " + o.str()) + ", expected " + e.str());
            } else
                vf::outcome(fits ? "ok_convert_value_preserved" : "ok_convert_reduced_mod_2^N");
        }
    };
    conv(std::type_identity<W>{}, std::type_identity<W300>{}, VS, "wide200s_to_wide300s");
    conv(std::type_identity<W300>{}, std::type_identity<W>{}, V300, "wide300s_to_wide200s");
    conv(std::type_identity<W>{}, std::type_identity<U>{}, VS, "wide200s_to_wide200u");
    conv(std::type_identity<U>{}, std::type_identity<W>{}, VU, "wide200u_to_wide200s");
    conv(std::type_identity<W>{}, std::type_identity<U300>{}, VS, "wide200s_to_wide300u");
    conv(std::type_identity<U300>{}, std::type_identity<W>{}, common_values(300, false, 1, true), "wide300u_to_wide200s");
    conv(std::type_identity<W100>{}, std::type_identity<W>{}, V100, "wide100s_to_wide200s");
    conv(std::type_identity<W>{}, std::type_identity<W100>{}, VS, "wide200s_to_wide100s");
}
#endif

#if VF_PART >= 10000 && VF_PART < 20000
static void gB() { prog_wide_binary<(VF_PART - 10000) / 2, ((VF_PART - 10000) % 2) != 0>(); }
VF_GROUP(gB);
#elif VF_PART >= 20000 && VF_PART < 30000
static void gU() { prog_wide_unary<(VF_PART - 20000) / 2, ((VF_PART - 20000) % 2) != 0>(); }
VF_GROUP(gU);
#elif VF_PART == 30000
static void gM() { prog_wide_mixed(); }
VF_GROUP(gM);
#endif
