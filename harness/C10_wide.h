// C10_wide.h — part (B): the public type cnl::wide_integer<Digits, Narrowest>. Included by C10.cpp.
#pragma once

template<int L, bool S>
struct narrowest_for;
template<> struct narrowest_for<8, true> { using type = std::int8_t; };
template<> struct narrowest_for<8, false> { using type = std::uint8_t; };
template<> struct narrowest_for<16, true> { using type = std::int16_t; };
template<> struct narrowest_for<16, false> { using type = std::uint16_t; };
template<> struct narrowest_for<32, true> { using type = std::int32_t; };
template<> struct narrowest_for<32, false> { using type = std::uint32_t; };
template<> struct narrowest_for<64, true> { using type = std::int64_t; };
template<> struct narrowest_for<64, false> { using type = std::uint64_t; };

template<int D, bool S, int L>
struct lazy_wide {
    using type = cnl::wide_integer<D, typename narrowest_for<L, S>::type>;
};
struct no_such_type {
};
// the public type, or a placeholder where the tree under test cannot instantiate it
template<int D, bool S, int L>
using WT = typename std::conditional_t<c10_is_bad(D, S, L), std::type_identity<no_such_type>, lazy_wide<D, S, L>>::type;

// storage facts of any result type (wrapper over multi-limb or built-in rep, or a built-in)
template<class R>
struct rinfo {
    static constexpr bool wrapper = false, multi = false;
    static constexpr int N = int(sizeof(R) * 8);
    static constexpr bool S = vals::is_signed_v<R>;
    static constexpr int digits = N - int(S);
    static constexpr int lbits = N;
};
template<>
struct rinfo<bool> {
    static constexpr bool wrapper = false, multi = false;
    static constexpr int N = 1;
    static constexpr bool S = false;
    static constexpr int digits = 1;
    static constexpr int lbits = 1;
};
template<class Rep, class Tag>
struct rinfo<cnl::_impl::wrapper<Rep, Tag>> {
    using Wr = cnl::_impl::wrapper<Rep, Tag>;
    static constexpr bool wrapper = true;
    static constexpr bool multi = cnl::_impl::is_uintwide_v<Rep>;
    static constexpr int N = [] {
        if constexpr (cnl::_impl::is_uintwide_v<Rep>) return uw<Rep>::width;
        else return int(sizeof(Rep) * 8);
    }();
    static constexpr int lbits = [] {
        if constexpr (cnl::_impl::is_uintwide_v<Rep>) return uw<Rep>::lbits;
        else return int(sizeof(Rep) * 8);
    }();
    static constexpr bool S = cnl::numbers::signedness_v<Wr>;
    static constexpr bool rep_S = cnl::numbers::signedness_v<Rep>;
    static constexpr int digits = cnl::digits_v<Wr>;
};

// write the limbs of the storage directly (no arithmetic of the library is used)
template<class W>
static W wmake(BigW const& v)
{
    using Rep = cnl::_impl::rep_of_t<W>;
    if constexpr (cnl::_impl::is_uintwide_v<Rep>) {
        Rep r;
        Words t = to_twos(v, uw<Rep>::width);
        auto& lim = r.representation();
        constexpr int lb = uw<Rep>::lbits;
        for (int i = 0; i < uw<Rep>::nlimbs; ++i) {
            unsigned long long x = 0;
            for (int j = 0; j < lb; j += 32) {
                int wi_ = (i * lb + j) / 32;
                unsigned long long word = wi_ < t.nwords() ? t.w[wi_] : 0u;
                if (lb < 32) word = (word >> ((i * lb) % 32)) & ((1ull << lb) - 1ull);
                x |= word << j;
            }
            lim[unsigned(i)] = typename uw<Rep>::limb(x);
        }
        return cnl::_impl::from_rep<W>(r);
    } else {
        return cnl::_impl::from_rep<W>(Rep(v.low128()));
    }
}
template<class R>
static BigW wread(R const& x)
{
    if constexpr (std::is_same_v<R, bool>) {
        return BigW(int(x));
    } else if constexpr (vals::is_int_v<R>) {
        return BigW(x);
    } else {
        using Rep = cnl::_impl::rep_of_t<R>;
        auto const& r = cnl::_impl::to_rep(x);
        if constexpr (cnl::_impl::is_uintwide_v<Rep>) {
            Words t;
            t.nbits = uw<Rep>::width;
            for (int i = 0; i < t.nwords(); ++i) t.w[i] = 0;
            auto const& lim = r.crepresentation();
            constexpr int lb = uw<Rep>::lbits;
            for (int i = 0; i < uw<Rep>::nlimbs; ++i) {
                unsigned long long x64 = lim[unsigned(i)];
                for (int j = 0; j < lb; j += 32) {
                    int bitpos = i * lb + j;
                    uint32_t part = uint32_t(x64 >> j);
                    if (lb < 32) part &= (1u << lb) - 1u;
                    t.w[bitpos / 32] |= part << (bitpos % 32);
                }
            }
            return from_twos(t, uw<Rep>::is_signed);
        } else {
            return BigW(r);
        }
    }
}

template<class R>
static std::string rname()
{
    using I = rinfo<R>;
    if constexpr (!I::wrapper) return vf::tn<R>();
    else return std::string("wide_integer<") + std::to_string(I::digits) + (I::S ? ",int" : ",uint") + std::to_string(I::lbits) + "_t>" + (I::multi ? "" : "[single-word rep]");
}

template<int D, bool S, class F>
static void each_limb(F&& f)
{
    f(std::integral_constant<int, 8>{});
    f(std::integral_constant<int, 16>{});
    f(std::integral_constant<int, 32>{});
    f(std::integral_constant<int, 64>{});
}

template<int D, bool S>
struct Operands {
    WT<D, S, 8> a8, b8;
    WT<D, S, 16> a16, b16;
    WT<D, S, 32> a32, b32;
    WT<D, S, 64> a64, b64;
    template<int L>
    auto& A()
    {
        if constexpr (L == 8) return a8;
        else if constexpr (L == 16) return a16;
        else if constexpr (L == 32) return a32;
        else return a64;
    }
    template<int L>
    auto& B()
    {
        if constexpr (L == 8) return b8;
        else if constexpr (L == 16) return b16;
        else if constexpr (L == 32) return b32;
        else return b64;
    }
};

static inline const char* bquad(bool S, BigW const& a, BigW const& b)
{
    if (!S) return "u";
    return a.neg ? (b.neg ? "nn" : "np") : (b.neg ? "pn" : "pp");
}

struct WideCfg {
    int k;  // max foreground limbs of the A-set
    bool few_positions;
};
static WideCfg wide_cfg(int D)
{
    if (!VF_TIER) return WideCfg{1, D > 600};
    return WideCfg{2, D > 600};
}

// values outside the declared range [-2^D, 2^D) that the storage of limb type L can still hold
template<int D, bool S, int L>
static std::vector<BigW> storage_extremes()
{
    std::vector<BigW> v;
    if constexpr (!c10_is_bad(D, S, L)) {
        using W = WT<D, S, L>;
        constexpr int N = rinfo<W>::N;
        BigW hi = S ? BigW::pow2(N - 1) - BigW(1) : BigW::pow2(N) - BigW(1);
        BigW lo = S ? -BigW::pow2(N - 1) : BigW(0);
        for (int d = 0; d < 2; ++d) {
            v.push_back(hi - BigW(d));
            v.push_back(lo + BigW(d));
        }
        if (N - int(S) > D) {
            v.push_back(BigW::pow2(D));
            v.push_back(BigW::pow2(D) + BigW(1));
            v.push_back(BigW::pow2(N - int(S) - 1));
            if (S) {
                v.push_back(-BigW::pow2(D) - BigW(1));
                v.push_back(-BigW::pow2(N - 2));
            }
        }
    }
    return v;
}

template<int D, bool S>
static void report_uninstantiable(const char* prog)
{
    each_limb<D, S>([&](auto Lc) {
        constexpr int L = decltype(Lc)::value;
        if constexpr (c10_is_bad(D, S, L)) {
            vf::counted(true);
            vf::outcome("type_does_not_instantiate");
            vf::violation("instantiate/static_assert_in_vendored_class", "type", std::string("cnl::wide_integer<") + std::to_string(D) + (S ? ",int" : ",uint") + std::to_string(L) + "_t> cannot be instantiated (" + prog + "): the try-compile of `wide_integer<...> x{1}; x = x * x;` fails");
        }
    });
}

// ---------------------------------------------------------------------------------------------
// binary operators and comparisons, all four limb types on the same mathematical operands

template<int D, bool S>
[[gnu::noinline]] static void prog_wide_binary()
{
    std::string const pname = std::string("wide_binary<") + std::to_string(D) + (S ? ",signed>" : ",unsigned>");
    if (!vf::begin(pname, false)) return;
    WideCfg cfg = wide_cfg(D);
    std::vector<BigW> const VA = common_values(D + int(S), S, cfg.k, cfg.few_positions);
    std::vector<BigW> const VB = cfg.k == 1 ? VA : common_values(D + int(S), S, 1, cfg.few_positions);
    auto in_vb = [&](BigW const& x) { return std::binary_search(VB.begin(), VB.end(), x, BigWLess()); };
    constexpr int DB = D + int(S);

    if (vf::my_row() && (!vf::replaying() || vf::case_selected("type"))) {
        report_uninstantiable<D, S>("binary");
        // result types: same digits, same signedness, same narrowest
        each_limb<D, S>([&](auto Lc) {
            constexpr int L = decltype(Lc)::value;
            if constexpr (!c10_is_bad(D, S, L)) {
                using W = WT<D, S, L>;
                auto ty = [&](const char* op, auto tag) {
                    using R = typename decltype(tag)::type;
                    vf::validated();
                    if (!std::is_same_v<R, W>) vf::violation(std::string("result_type/") + op, "type", rname<W>() + " " + op + " same type gives " + rname<R>());
                    else
                        vf::outcome("ok_result_type");
                };
                ty("add", std::type_identity<decltype(std::declval<W>() + std::declval<W>())>{});
                ty("sub", std::type_identity<decltype(std::declval<W>() - std::declval<W>())>{});
                ty("mul", std::type_identity<decltype(std::declval<W>() * std::declval<W>())>{});
                ty("div", std::type_identity<decltype(std::declval<W>() / std::declval<W>())>{});
                ty("mod", std::type_identity<decltype(std::declval<W>() % std::declval<W>())>{});
                ty("and", std::type_identity<decltype(std::declval<W>() & std::declval<W>())>{});
                ty("or", std::type_identity<decltype(std::declval<W>() | std::declval<W>())>{});
                ty("xor", std::type_identity<decltype(std::declval<W>() ^ std::declval<W>())>{});
                vf::validated();
                if (!std::is_same_v<decltype(std::declval<W>() < std::declval<W>()), bool>) vf::violation("result_type/lt", "type", rname<W>() + " < gives a non-bool");
            }
        });
    }

    auto do_pair = [&](BigW const& a, BigW const& b, bool extremes_only_L, int only_L) {
        auto id = [&] { return hex(a) + "," + hex(b); };
        if (vf::replaying() && !vf::case_selected(id())) return;
        Operands<D, S> ops;
        each_limb<D, S>([&](auto Lc) {
            constexpr int L = decltype(Lc)::value;
            if constexpr (!c10_is_bad(D, S, L)) {
                if (extremes_only_L && L != only_L) return;
                ops.template A<L>() = wmake<WT<D, S, L>>(a);
                ops.template B<L>() = wmake<WT<D, S, L>>(b);
            }
        });
        bool const in_declared = fitsN(a, DB, S) && fitsN(b, DB, S);
        vf::counted(!a.is_zero() && !b.is_zero() && (a.bit_length() > 7 || a.neg) && (b.bit_length() > 7 || b.neg));
        const char* q = bquad(S, a, b);
        if (vf::want_sample()) vf::sample(id() + " -> a*b mod 2^N, a/b, ... for limb types 8/16/32/64");

        auto binop = [&](const char* op, auto f, BigW const& exact, bool is_bitop, BitOp bop) {
            BigW got[4];
            bool have[4] = {false, false, false, false};
            int li = -1;
            each_limb<D, S>([&](auto Lc) {
                constexpr int L = decltype(Lc)::value;
                ++li;
                if constexpr (!c10_is_bad(D, S, L)) {
                    if (extremes_only_L && L != only_L) return;
                    using W = WT<D, S, L>;
                    auto const& A = ops.template A<L>();
                    auto const& B = ops.template B<L>();
                    using R = decltype(f(A, B));
                    using RI = rinfo<R>;
                    BigW e = is_bitop ? bitop(a, b, RI::N, RI::S, bop) : wrapN(exact, RI::N, RI::S);
                    bool wrapped = !is_bitop && !(e == exact);
                    if (wrapped && !RI::multi && RI::S) {
                        vf::skip_pre();  // single-word signed storage: overflow is UB of the built-in type, outside the property
                        return;
                    }
                    R r{};
                    vf::Outcome o = vf::run([&] { r = f(A, B); });
                    vf::validated();
                    std::string ls = "/limb" + std::to_string(L);
                    if (!o.ok()) {
                        vf::outcome(vf::kind_name(o.kind));
                        vf::violation(std::string(op) + "/" + vf::kind_name(o.kind) + "/" + q + ls, id(), rname<W>() + " a=" + a.str() + " b=" + b.str() + ": a " + op + " b -> " + o.str() + ", expected " + e.str());
                        return;
                    }
                    got[li] = wread(r);
                    have[li] = true;
                    if (!(got[li] == e)) {
                        vf::outcome("wrong_value");
                        vf::violation(std::string(op) + "/value/" + q + ls, id(), rname<W>() + " a=" + a.str() + " b=" + b.str() + ": a " + op + " b = " + got[li].str() + ", expected " + e.str());
                    } else
                        vf::outcome(wrapped ? "ok_binary_reduced_mod_2^N" : "ok_binary_exact_in_range");
                }
            });
            // limb independence: wherever the exact result lies in the declared range all limb types agree
            if (!extremes_only_L && in_declared && (is_bitop || fitsN(exact, DB, S))) {
                int first = -1;
                for (int i = 0; i < 4; ++i) {
                    if (!have[i]) continue;
                    if (first < 0) first = i;
                    else if (!(got[i] == got[first])) {
                        vf::violation(std::string("limb_dependence/") + op, id(), "wide_integer<" + std::to_string(D) + "> a=" + a.str() + " b=" + b.str() + ": a " + op + " b = " + got[first].str() + " with " + std::to_string(8 << first) + "-bit limbs but " + got[i].str() + " with " + std::to_string(8 << i) + "-bit limbs");
                        break;
                    }
                }
            }
        };
        binop("add", [](auto const& x, auto const& y) { return x + y; }, a + b, false, B_AND);
        binop("sub", [](auto const& x, auto const& y) { return x - y; }, a - b, false, B_AND);
        binop("mul", [](auto const& x, auto const& y) { return x * y; }, a * b, false, B_AND);
        binop("and", [](auto const& x, auto const& y) { return x & y; }, BigW(0), true, B_AND);
        binop("or", [](auto const& x, auto const& y) { return x | y; }, BigW(0), true, B_OR);
        binop("xor", [](auto const& x, auto const& y) { return x ^ y; }, BigW(0), true, B_XOR);

        // division: the quotient is the unique q with a = q*b + r, |r| < |b|, sign(r) in {0, sign(a)}
        if (b.is_zero()) {
            vf::skip_pre();
        } else {
            bool have_qr = false;
            BigW qt, rt;
            auto ensure = [&](BigW const* cand) {
                if (have_qr) return;
                if (cand) {
                    BigW rr = a - (*cand) * b;
                    if ((rr.is_zero() || rr.neg == a.neg) && BigW::cmp_mag(rr, b) < 0) {
                        qt = *cand;
                        rt = rr;
                        have_qr = true;
                        return;
                    }
                }
                BigW::divmod(a, b, qt, rt);
                have_qr = true;
            };
            const char* dcls = b.abs().bit_length() <= 8 ? "divisor_fits_8_bits" : (b.abs().bit_length() <= 64 ? "divisor_fits_64_bits" : "divisor_multi_limb");
            each_limb<D, S>([&](auto Lc) {
                constexpr int L = decltype(Lc)::value;
                if constexpr (!c10_is_bad(D, S, L)) {
                    if (extremes_only_L && L != only_L) return;
                    using W = WT<D, S, L>;
                    using RI = rinfo<W>;
                    auto const& A = ops.template A<L>();
                    auto const& B = ops.template B<L>();
                    bool lowest_by_m1 = RI::S && b == BigW(-1) && a == -BigW::pow2(RI::N - 1);
                    if (lowest_by_m1 && !RI::multi) {
                        vf::skip_pre();
                        return;
                    }
                    W qg{}, rg{};
                    vf::Outcome o1 = vf::run([&] { qg = A / B; });
                    vf::Outcome o2 = vf::run([&] { rg = A % B; });
                    vf::validated(2);
                    std::string ls = "/limb" + std::to_string(L);
                    std::string ctx = rname<W>() + " a=" + a.str() + " b=" + b.str();
                    BigW qv, rv;
                    if (o1.ok()) {
                        qv = wread(qg);
                        ensure(&qv);
                    } else
                        ensure(nullptr);
                    BigW qe = wrapN(qt, RI::N, RI::S);
                    if (!o1.ok()) {
                        vf::outcome(vf::kind_name(o1.kind));
                        vf::violation(std::string("div/") + vf::kind_name(o1.kind) + "/" + q + "/" + dcls + ls, id(), ctx + ": a / b -> " + o1.str() + ", expected " + qe.str());
                    } else if (!(qv == qe)) {
                        vf::outcome("wrong_value");
                        vf::violation(std::string("div/value/") + q + "/" + dcls + ls, id(), ctx + ": a / b = " + qv.str() + ", expected " + qe.str());
                    } else
                        vf::outcome(lowest_by_m1 ? "ok_div_lowest_by_minus_one_wraps" : (BigW::cmp_mag(a, b) < 0 ? "ok_div_small_numerator" : "ok_div"));
                    if (!o2.ok()) {
                        vf::outcome(vf::kind_name(o2.kind));
                        vf::violation(std::string("mod/") + vf::kind_name(o2.kind) + "/" + q + "/" + dcls + ls, id(), ctx + ": a % b -> " + o2.str() + ", expected " + rt.str());
                    } else {
                        rv = wread(rg);
                        if (!(rv == rt)) {
                            vf::outcome("wrong_value");
                            vf::violation(std::string("mod/value/") + q + "/" + dcls + ls, id(), ctx + ": a % b = " + rv.str() + ", expected " + rt.str());
                        } else
                            vf::outcome(rt.is_zero() ? "ok_mod_zero" : "ok_mod");
                    }
                }
            });
        }

        // comparisons
        int c = BigW::cmp(a, b);
        auto cmpop = [&](const char* op, auto f, bool expect) {
            each_limb<D, S>([&](auto Lc) {
                constexpr int L = decltype(Lc)::value;
                if constexpr (!c10_is_bad(D, S, L)) {
                    if (extremes_only_L && L != only_L) return;
                    using W = WT<D, S, L>;
                    bool g = false;
                    vf::Outcome o = vf::run([&] { g = f(ops.template A<L>(), ops.template B<L>()); });
                    vf::validated();
                    if (!o.ok() || g != expect) {
                        vf::outcome(o.ok() ? "wrong_value" : vf::kind_name(o.kind));
                        vf::violation(std::string("cmp_") + op + "/" + (o.ok() ? "value" : vf::kind_name(o.kind)) + "/" + q + "/limb" + std::to_string(L), id(), rname<W>() + " a=" + a.str() + " b=" + b.str() + ": a " + op + " b -> " + (o.ok() ? vf::to_s(g) : o.str()));
                    } else
                        vf::outcome("ok_comparison");
                }
            });
        };
        cmpop("lt", [](auto const& x, auto const& y) { return x < y; }, c < 0);
        cmpop("le", [](auto const& x, auto const& y) { return x <= y; }, c <= 0);
        cmpop("gt", [](auto const& x, auto const& y) { return x > y; }, c > 0);
        cmpop("ge", [](auto const& x, auto const& y) { return x >= y; }, c >= 0);
        cmpop("eq", [](auto const& x, auto const& y) { return x == y; }, c == 0);
        cmpop("ne", [](auto const& x, auto const& y) { return x != y; }, c != 0);
    };

    for (BigW const& a : VA) {
        if (!vf::my_row()) continue;
        bool a_in_vb = cfg.k == 1 || in_vb(a);
        for (BigW const& b : VB) {
            do_pair(a, b, false, 0);
            if (!a_in_vb) do_pair(b, a, false, 0);
        }
    }
    // the extremes of each type's own storage, against themselves and a few common operands
    each_limb<D, S>([&](auto Lc) {
        constexpr int L = decltype(Lc)::value;
        if constexpr (!c10_is_bad(D, S, L)) {
            std::vector<BigW> ex = storage_extremes<D, S, L>();
            std::vector<BigW> other = ex;
            for (int v : {0, 1, 2, 3, 10, 255, 256}) other.push_back(BigW(v));
            if (S)
                for (int v : {-1, -2, -3, -256}) other.push_back(BigW(v));
            other.push_back(BigW::pow2(D) - BigW(1));
            other.push_back(BigW::pow2(D / 2) + BigW(1));
            if (S) other.push_back(-BigW::pow2(D));
            for (BigW const& a : ex) {
                if (!vf::my_row()) continue;
                for (BigW const& b : other) {
                    do_pair(a, b, true, L);
                    bool dup = false;
                    for (BigW const& e2 : ex) dup = dup || (e2 == b);
                    if (!dup) do_pair(b, a, true, L);
                }
            }
        }
    });
}

#if VF_PART >= 10000 && VF_PART < 20000
static void gB() { prog_wide_binary<(VF_PART - 10000) / 2, ((VF_PART - 10000) % 2) != 0>(); }
VF_GROUP(gB);
#endif
