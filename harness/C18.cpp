// C18 — bit utilities: countl_zero, countl_one, countr_zero, countr_one, popcount, rotl, rotr, ispow2,
// ceil2, floor2, log2p1 agree with std::countl_zero ... std::bit_width (documented deviation:
// ceil2(0) == 0); countl_rsb, countl_rb, countr_used, used_digits, leading_bits, trailing_bits return
// the documented counts; no undefined behaviour anywhere.
//
// State space: (function, operand type, value[, rotation count]).
//   unary<U>     : the 9 unary functions for one value of U. Every value of u8/u16/u32 (u32: a stated
//                  2^27 sub-lattice + the pattern lattice where the tier cannot afford 2^32, see
//                  C18.py); u64/unsigned long long/u128 over the pattern lattice P(U).
//   rotl/rotr<U> : every value x every count 0..2w for u8/u16; P(U) x every count 0..2w for wider U.
//   counts<T>    : countl_rsb (signed T only), countl_rb, countr_used, trailing_bits (counts_bit) and
//                  cnl::used_digits, cnl::_impl::used_digits, leading_bits (counts_numeric); every
//                  value of the 8/16(/32)-bit types, P(U) reinterpreted as T for the wide ones (P is
//                  closed under ~, i.e. under v -> -v-1, "mirrored").
//   P(U) = all runs of ones (bits i..j), all single bits, all pairs of bits, B0(U), B0(signed U),
//          and the complement of each.
// Oracle: std <bit> (<= 64 bits, hot loops) and naive bit loops (all widths; cross-checked against
// std outside the hot loops). Independent of CNL code.
// Precondition (decided before CNL runs): ceil2(x) only for x <= 2^(w-1) (std::bit_ceil is undefined
// otherwise); rotation counts only 0..2w.
// One vf::run guards all functions of one value (batch); on a trap or a mismatch every function is
// re-run in its own vf::run to attribute the violation.
#include "common.h"

#include <bit>

#include <cnl/_impl/used_digits.h>
#include <cnl/bit.h>
#include <cnl/numeric.h>
#include <cnl/elastic_integer.h>
#include <cnl/overflow_integer.h>
#include <cnl/rounding_integer.h>

// the driver's config string does not contain -D defines: programs of the units built with
// CNL_USE_GCC_INTRINSICS=0 carry a name prefix so that reports, replays and known-finding patterns can
// tell the generic definitions from the intrinsic specialisations
#if defined(CNL_USE_GCC_INTRINSICS) && !CNL_USE_GCC_INTRINSICS
#define C18_PREFIX "generic:"
#else
#define C18_PREFIX ""
#endif

using ll64 = long long;
using ull64 = unsigned long long;

template<class T>
struct counterpart;
#define C18_CP(U, S) \
    template<> \
    struct counterpart<U> { \
        using uns = U; \
        using sgn = S; \
    }; \
    template<> \
    struct counterpart<S> { \
        using uns = U; \
        using sgn = S; \
    };
C18_CP(u8, i8)
C18_CP(u16, i16)
C18_CP(u32, i32)
C18_CP(u64, i64)
C18_CP(ull64, ll64)
C18_CP(u128, i128)
#undef C18_CP
template<class T>
using uns_t = typename counterpart<T>::uns;
template<class T>
using sgn_t = typename counterpart<T>::sgn;

[[noreturn]] static void harness_fault(const char* what)
{
    fprintf(stderr, "VF-HARNESS-FAULT: C18 oracle self-check failed: %s\n", what);
    _exit(70);
}

// ---------------------------------------------------------------------------------------------
// naive oracle: bit loops over the low w bits of a 128-bit word
namespace nv {
    inline bool bit(u128 x, int i) { return ((x >> i) & 1) != 0; }
    inline int clz(u128 x, int w)
    {
        int n = 0;
        for (int i = w - 1; i >= 0 && !bit(x, i); --i) ++n;
        return n;
    }
    inline int clo(u128 x, int w)
    {
        int n = 0;
        for (int i = w - 1; i >= 0 && bit(x, i); --i) ++n;
        return n;
    }
    inline int ctz(u128 x, int w)
    {
        int n = 0;
        for (int i = 0; i < w && !bit(x, i); ++i) ++n;
        return n;
    }
    inline int cto(u128 x, int w)
    {
        int n = 0;
        for (int i = 0; i < w && bit(x, i); ++i) ++n;
        return n;
    }
    inline int pop(u128 x, int w)
    {
        int n = 0;
        for (int i = 0; i < w; ++i) n += bit(x, i) ? 1 : 0;
        return n;
    }
    inline int bitlen(u128 x, int w)
    {
        int n = 0;
        for (int i = 0; i < w; ++i)
            if (bit(x, i)) n = i + 1;
        return n;
    }
    // leading bits equal to the sign bit, not counting the sign bit itself
    inline int rsb(u128 x, int w)
    {
        bool s = bit(x, w - 1);
        int n = 0;
        for (int i = w - 2; i >= 0 && bit(x, i) == s; --i) ++n;
        return n;
    }
    inline u128 mask(int w) { return w == 128 ? ~u128(0) : ((u128(1) << w) - 1); }
    inline u128 rotl(u128 x, int s, int w)
    {
        u128 r = 0;
        for (int i = 0; i < w; ++i)
            if (bit(x, i)) r |= u128(1) << ((i + s) % w);
        return r;
    }
    inline u128 rotr(u128 x, int s, int w)
    {
        u128 r = 0;
        for (int i = 0; i < w; ++i)
            if (bit(x, (i + s) % w)) r |= u128(1) << i;
        return r;
    }
}

// ---------------------------------------------------------------------------------------------
// value spaces. A space has rows (the sharding unit) of cells.

template<class U>
struct FullSpace {  // every value of an 8/16/32-bit type
    static constexpr int w = vals::bits_v<U>;
    static constexpr int rb = w / 2;
    bool full() const { return true; }
    uint64_t rows() const { return uint64_t(1) << (w - rb); }
    uint64_t rowlen() const { return uint64_t(1) << rb; }
    U at(uint64_t r, uint64_t i) const { return U((r << rb) | i); }
    bool contains(U) const { return true; }
    std::string tag() const { return ""; }
};

// 2^27 values of a 32-bit word: every high 12 bits x every low 12 bits x 8 middle bytes
struct Sub32 {
    static constexpr int nm = 8;
    static constexpr unsigned mids[nm] = {0x00, 0xFF, 0x01, 0x80, 0x55, 0xAA, 0x7F, 0xFE};
    bool full() const { return false; }
    uint64_t rows() const { return uint64_t(4096) * nm; }
    uint64_t rowlen() const { return 4096; }
    u32 at(uint64_t r, uint64_t i) const { return u32(((r / nm) << 20) | (uint64_t(mids[r % nm]) << 12) | i); }
    bool contains(u32 x) const
    {
        unsigned m = (x >> 12) & 0xFF;
        for (unsigned k : mids)
            if (k == m) return true;
        return false;
    }
    std::string tag() const { return ",sub27"; }
};

template<class U>
struct VecSpace {
    std::vector<U> v;
    std::string t;
    bool full() const { return false; }
    uint64_t rows() const { return v.size(); }
    uint64_t rowlen() const { return 1; }
    U at(uint64_t r, uint64_t) const { return v[size_t(r)]; }
    bool contains(U x) const { return std::binary_search(v.begin(), v.end(), x); }
    std::string tag() const { return t; }
};

// P(U)
template<class U>
VecSpace<U> patterns()
{
    constexpr int w = vals::bits_v<U>;
    VecSpace<U> s;
    auto add = [&](u128 x) {
        s.v.push_back(U(x));
        s.v.push_back(U(~x));
    };
    add(0);
    for (int i = 0; i < w; ++i)
        for (int j = i; j < w; ++j) add(nv::mask(j - i + 1) << i);
    for (int i = 0; i < w; ++i)
        for (int j = i + 1; j < w; ++j) add((u128(1) << i) | (u128(1) << j));
    for (U x : vals::lattice<U>()) add(u128(x));
    for (sgn_t<U> x : vals::lattice<sgn_t<U>>()) add(u128(U(x)));
    vals::sort_unique(s.v);
    s.t = ",patterns";
    return s;
}

// decimal text -> T (exact round trip required)
template<class T>
bool parse_int(std::string const& s, T& out)
{
    size_t i = 0;
    bool neg = false;
    if (!s.empty() && s[0] == '-') {
        neg = true;
        i = 1;
    }
    if (i >= s.size()) return false;
    u128 m = 0;
    for (; i < s.size(); ++i) {
        if (s[i] < '0' || s[i] > '9') return false;
        m = m * 10 + u128(s[i] - '0');
    }
    out = T(neg ? u128(0) - m : m);
    return vf::to_s(out) == s;
}

static void flush_outcome(const char* name, uint64_t n)
{
    if (n) vf::g.cur->outcomes[name] += n;
}

template<class Got, class Want>
void type_check(const char* fn)
{
    if (!std::is_same_v<Got, Want>) vf::violation(std::string("result_type/") + fn, "-", std::string(fn) + " returns a different type than documented");
}

// ---------------------------------------------------------------------------------------------
// unary functions of unsigned values

enum { V_ZERO, V_ALLONES, V_POW2, V_RUN, V_GENERAL, V_N };
static const char* const vclass_ok[V_N] = {"ok_zero", "ok_allones", "ok_single_bit", "ok_run_of_ones", "ok_general"};

template<class U>
inline int classify_u(U x)
{
    if (x == 0) return V_ZERO;
    if (x == U(~U(0))) return V_ALLONES;
    if ((x & U(x - 1)) == 0) return V_POW2;
    U y = x;
    while (!(y & 1)) y = U(y >> 1);
    if ((y & U(y + 1)) == 0) return V_RUN;
    return V_GENERAL;
}
inline const char* key_class_u(int c) { return c == V_ZERO ? "zero" : (c == V_ALLONES ? "allones" : "other"); }

enum { F_CLZ, F_CLO, F_CTZ, F_CTO, F_POP, F_ISPOW2, F_CEIL2, F_FLOOR2, F_LOG2P1, F_NU };
static const char* const ufn_name[F_NU] = {"countl_zero", "countl_one", "countr_zero", "countr_one", "popcount", "ispow2", "ceil2", "floor2", "log2p1"};

template<class U>
struct UVals {
    int clz = 0, clo = 0, ctz = 0, cto = 0, pop = 0, l2 = 0;
    bool p2 = false;
    U c2 = 0, f2 = 0;
    bool c2_defined = true;
    bool same(UVals const& o) const
    {
        return clz == o.clz && clo == o.clo && ctz == o.ctz && cto == o.cto && pop == o.pop && l2 == o.l2 && p2 == o.p2 && f2 == o.f2 && (!c2_defined || c2 == o.c2);
    }
    u128 get(int fn) const
    {
        switch (fn) {
        case F_CLZ: return u128(i128(clz));
        case F_CLO: return u128(i128(clo));
        case F_CTZ: return u128(i128(ctz));
        case F_CTO: return u128(i128(cto));
        case F_POP: return u128(i128(pop));
        case F_ISPOW2: return p2 ? 1 : 0;
        case F_CEIL2: return u128(c2);
        case F_FLOOR2: return u128(f2);
        case F_LOG2P1: return u128(i128(l2));
        }
        return 0;
    }
};
inline std::string show_u(int fn, u128 v)
{
    if (fn == F_CEIL2 || fn == F_FLOOR2) return vf::to_s(v);
    if (fn == F_ISPOW2) return v ? "true" : "false";
    return vf::to_s(i128(v));
}

template<class U>
inline UVals<U> expect_std(U x)
{
    constexpr int w = vals::bits_v<U>;
    static_assert(w <= 64);
    UVals<U> e;
    e.clz = std::countl_zero(x);
    e.clo = std::countl_one(x);
    e.ctz = std::countr_zero(x);
    e.cto = std::countr_one(x);
    e.pop = std::popcount(x);
    e.l2 = int(std::bit_width(x));
    e.p2 = std::has_single_bit(x);
    e.f2 = std::bit_floor(x);
    e.c2_defined = x <= U(U(1) << (w - 1));
    e.c2 = x == 0 ? U(0) : (e.c2_defined ? std::bit_ceil(x) : U(0));  // documented deviation: ceil2(0) == 0
    return e;
}
template<class U>
UVals<U> expect_naive(U x)
{
    constexpr int w = vals::bits_v<U>;
    UVals<U> e;
    u128 X = u128(x);
    e.clz = nv::clz(X, w);
    e.clo = nv::clo(X, w);
    e.ctz = nv::ctz(X, w);
    e.cto = nv::cto(X, w);
    e.pop = nv::pop(X, w);
    e.l2 = nv::bitlen(X, w);
    e.p2 = e.pop == 1;
    e.f2 = x == 0 ? U(0) : U(u128(1) << (e.l2 - 1));
    e.c2_defined = X <= (u128(1) << (w - 1));
    e.c2 = 0;
    if (x != 0 && e.c2_defined) {
        u128 p = 1;
        while (p < X) p <<= 1;
        e.c2 = U(p);
    }
    if constexpr (w <= 64) {
        UVals<U> s = expect_std(x);
        if (!(s.same(e) && e.same(s) && s.c2_defined == e.c2_defined)) harness_fault("std <bit> and the naive bit loops disagree");
    }
    return e;
}

template<class U>
[[gnu::noinline]] void cnl_unary_batch(U x, bool with_ceil2, UVals<U>& g)
{
    g.clz = static_cast<int>(cnl::countl_zero(x));
    g.clo = static_cast<int>(cnl::countl_one(x));
    g.ctz = static_cast<int>(cnl::countr_zero(x));
    g.cto = static_cast<int>(cnl::countr_one(x));
    g.pop = static_cast<int>(cnl::popcount(x));
    g.p2 = static_cast<bool>(cnl::ispow2(x));
    g.f2 = static_cast<U>(cnl::floor2(x));
    g.l2 = static_cast<int>(cnl::log2p1(x));
    if (with_ceil2) g.c2 = static_cast<U>(cnl::ceil2(x));
}
template<class U>
[[gnu::noinline]] u128 cnl_unary_one(int fn, U x)
{
    switch (fn) {
    case F_CLZ: return u128(i128(cnl::countl_zero(x)));
    case F_CLO: return u128(i128(cnl::countl_one(x)));
    case F_CTZ: return u128(i128(cnl::countr_zero(x)));
    case F_CTO: return u128(i128(cnl::countr_one(x)));
    case F_POP: return u128(i128(cnl::popcount(x)));
    case F_ISPOW2: return cnl::ispow2(x) ? 1 : 0;
    case F_CEIL2: return u128(static_cast<U>(cnl::ceil2(x)));
    case F_FLOOR2: return u128(static_cast<U>(cnl::floor2(x)));
    case F_LOG2P1: return u128(i128(cnl::log2p1(x)));
    }
    return 0;
}

template<class U, bool Hot, class Space>
[[gnu::noinline]] void prog_unary(Space const& sp)
{
    std::string name = std::string(C18_PREFIX) + "unary<" + vf::tn<U>() + sp.tag() + ">";
    if (!vf::begin(name, sp.full())) return;
    type_check<decltype(cnl::countl_zero(U{})), int>("countl_zero");
    type_check<decltype(cnl::countl_one(U{})), int>("countl_one");
    type_check<decltype(cnl::countr_zero(U{})), int>("countr_zero");
    type_check<decltype(cnl::countr_one(U{})), int>("countr_one");
    type_check<decltype(cnl::popcount(U{})), int>("popcount");
    type_check<decltype(cnl::ispow2(U{})), bool>("ispow2");
    type_check<decltype(cnl::ceil2(U{})), U>("ceil2");
    type_check<decltype(cnl::floor2(U{})), U>("floor2");
    type_check<decltype(cnl::log2p1(U{})), int>("log2p1");
    uint64_t okc[V_N] = {};
    auto slow = [&](U x, UVals<U> const& e, vf::Outcome const& batch, int vc) {
        std::string id = vf::to_s(x);
        bool any = false;
        for (int fn = 0; fn < F_NU; ++fn) {
            if (fn == F_CEIL2 && !e.c2_defined) continue;
            u128 r = 0;
            vf::Outcome o = vf::run([&] { r = cnl_unary_one<U>(fn, x); });
            if (!o.ok()) {
                any = true;
                vf::outcome(o.str());
                vf::violation(std::string(vf::kind_name(o.kind)) + "/" + ufn_name[fn] + "/" + key_class_u(vc), id,
                              std::string(ufn_name[fn]) + "(" + vf::tn<U>() + " " + id + "): expected " + show_u(fn, e.get(fn)) + ", got " + o.str());
            } else if (r != e.get(fn)) {
                any = true;
                vf::outcome("wrong_value");
                vf::violation(std::string("value/") + ufn_name[fn] + "/" + key_class_u(vc), id,
                              std::string(ufn_name[fn]) + "(" + vf::tn<U>() + " " + id + "): expected " + show_u(fn, e.get(fn)) + ", got " + show_u(fn, r));
            }
        }
        if (!any) {
            vf::outcome("unattributed");
            vf::violation(std::string("unattributed/batch/") + key_class_u(vc), id, "batch of unary functions on " + id + " failed (" + batch.str() + ") but no single function did");
        }
    };
    auto do_case = [&](U x) {
        UVals<U> e;
        if constexpr (Hot) e = expect_std(x);
        else e = expect_naive(x);
        UVals<U> g;
        g.c2_defined = e.c2_defined;
        bool wc = e.c2_defined;
        vf::Outcome o = vf::run([&] { cnl_unary_batch<U>(x, wc, g); });
        if (!wc) vf::skip_pre();
        vf::validated(wc ? 9 : 8);
        int vc = classify_u(x);
        vf::counted(vc >= V_POW2);
        if (vf::want_sample())
            vf::sample(vf::to_s(x) + " -> countl_zero " + vf::to_s(g.clz) + " countr_zero " + vf::to_s(g.ctz) + " popcount " + vf::to_s(g.pop) + " floor2 " + vf::to_s(g.f2) + " log2p1 " + vf::to_s(g.l2) + (o.ok() ? "" : " [" + o.str() + "]"));
        if (o.ok() && g.same(e)) {
            okc[vc]++;
            return;
        }
        slow(x, e, o, vc);
    };
    if (vf::replaying()) {
        U x;
        if (parse_int(vf::g.replay_case, x) && sp.contains(x)) do_case(x);
    } else {
        uint64_t R = sp.rows(), L = sp.rowlen();
        for (uint64_t r = 0; r < R; ++r) {
            if (!vf::my_row()) continue;
            for (uint64_t i = 0; i < L; ++i) do_case(sp.at(r, i));
        }
    }
    for (int c = 0; c < V_N; ++c) flush_outcome(vclass_ok[c], okc[c]);
}

// ---------------------------------------------------------------------------------------------
// rotations

enum { R_ZERO, R_W, R_2W, R_LT, R_GT, R_N };
static const char* const rclass_ok[R_N] = {"ok_rot_count_0", "ok_rot_count_width", "ok_rot_count_2width", "ok_rot_count_lt_width", "ok_rot_count_gt_width"};

template<bool Left, class U>
[[gnu::noinline]] U cnl_rot(U x, unsigned s)
{
    if constexpr (Left) return static_cast<U>(cnl::rotl(x, s));
    else return static_cast<U>(cnl::rotr(x, s));
}

template<bool Left, class U, class Space>
[[gnu::noinline]] void prog_rot(Space const& sp)
{
    constexpr int w = vals::bits_v<U>;
    const char* fname = Left ? "rotl" : "rotr";
    std::string name = std::string(C18_PREFIX) + fname + "<" + vf::tn<U>() + sp.tag() + ">";
    if (!vf::begin(name, sp.full())) return;
    if constexpr (Left) type_check<decltype(cnl::rotl(U{}, 0u)), U>("rotl");
    else type_check<decltype(cnl::rotr(U{}, 0u)), U>("rotr");
    uint64_t okc[R_N] = {};
    auto do_case = [&](U x, unsigned s) {
        U e;
        if constexpr (w <= 64) {
            e = Left ? std::rotl(x, int(s)) : std::rotr(x, int(s));
            if (sp.rowlen() == 1 || (x & 0x3F) == 0x2D) {
                U n = U(Left ? nv::rotl(u128(x), int(s), w) : nv::rotr(u128(x), int(s), w));
                if (n != e) harness_fault("std::rotl/rotr and the naive rotation disagree");
            }
        } else
            e = U(Left ? nv::rotl(u128(x), int(s), w) : nv::rotr(u128(x), int(s), w));
        U got{};
        vf::Outcome o = vf::run([&] { got = cnl_rot<Left, U>(x, s); });
        vf::validated();
        int vc = classify_u(x);
        bool mult = s % unsigned(w) == 0;
        vf::counted(!mult && vc >= V_POW2);
        int rc = s == 0 ? R_ZERO : (s == unsigned(w) ? R_W : (s == 2u * unsigned(w) ? R_2W : (s < unsigned(w) ? R_LT : R_GT)));
        if (vf::want_sample()) vf::sample(std::string(fname) + "(" + vf::to_s(x) + "," + vf::to_s(s) + ") -> " + (o.ok() ? vf::to_s(got) : o.str()) + " expected " + vf::to_s(e));
        if (o.ok() && got == e) {
            okc[rc]++;
            return;
        }
        std::string id = vf::to_s(x) + "," + vf::to_s(s);
        const char* kc = mult ? "count_multiple_of_width" : key_class_u(vc);
        std::string call = std::string(fname) + "(" + vf::tn<U>() + " " + vf::to_s(x) + ", " + vf::to_s(s) + ")";
        if (!o.ok()) {
            vf::outcome(o.str());
            vf::violation(std::string(vf::kind_name(o.kind)) + "/" + fname + "/" + kc, id, call + ": expected " + vf::to_s(e) + ", got " + o.str());
        } else {
            vf::outcome("wrong_value");
            vf::violation(std::string("value/") + fname + "/" + kc, id, call + ": expected " + vf::to_s(e) + ", got " + vf::to_s(got));
        }
    };
    if (vf::replaying()) {
        std::string const& c = vf::g.replay_case;
        size_t k = c.find(',');
        U x;
        unsigned s;
        if (k != std::string::npos && parse_int(c.substr(0, k), x) && parse_int(c.substr(k + 1), s) && s <= 2u * unsigned(w) && sp.contains(x)) do_case(x, s);
    } else {
        uint64_t R = sp.rows(), L = sp.rowlen();
        for (uint64_t r = 0; r < R; ++r) {
            if (!vf::my_row()) continue;
            for (uint64_t i = 0; i < L; ++i) {
                U x = sp.at(r, i);
                for (unsigned s = 0; s <= 2u * unsigned(w); ++s) do_case(x, s);
            }
        }
    }
    for (int c = 0; c < R_N; ++c) flush_outcome(rclass_ok[c], okc[c]);
}

// ---------------------------------------------------------------------------------------------
// digit-count functions (signed and unsigned operands)

enum { D_RSB, D_RB, D_USED, D_UD, D_IUD, D_LB, D_TB, D_N };
static const char* const dfn_name[D_N] = {"countl_rsb", "countl_rb", "countr_used", "used_digits", "_impl::used_digits", "leading_bits", "trailing_bits"};

// function sets: the bit.h functions (differ with CNL_USE_GCC_INTRINSICS), the numeric.h /
// used_digits.h functions (do not), or all of them
enum { SET_BIT = 0, SET_NUMERIC = 1, SET_ALL = 2 };
constexpr unsigned set_mask(int set, bool sg)
{
    unsigned bit = (sg ? 1u << D_RSB : 0u) | 1u << D_RB | 1u << D_USED | 1u << D_TB;
    unsigned num = 1u << D_UD | 1u << D_IUD | 1u << D_LB;
    return set == SET_BIT ? bit : (set == SET_NUMERIC ? num : (bit | num));
}
static const char* const set_name[3] = {"counts_bit", "counts_numeric", "counts"};

struct DVals {
    int v[D_N] = {};
    bool same(DVals const& o) const
    {
        for (int i = 0; i < D_N; ++i)
            if (v[i] != o.v[i]) return false;
        return true;
    }
};

enum { S_ZERO, S_MINUS1, S_MIN, S_MAX, S_NEG, S_POS, S_N };
static const char* const sclass_ok[S_N] = {"ok_signed_zero", "ok_signed_minus_one", "ok_signed_min", "ok_signed_max", "ok_signed_negative", "ok_signed_positive"};
static const char* const sclass_key[S_N] = {"zero", "allones", "min", "max", "other", "other"};
static const char* const uclass_ok[V_N] = {"ok_unsigned_zero", "ok_unsigned_allones", "ok_unsigned_single_bit", "ok_unsigned_run_of_ones", "ok_unsigned_general"};

template<class T, bool Hot>
inline DVals expect_digits(T v)
{
    using U = uns_t<T>;
    constexpr int w = vals::bits_v<T>;
    constexpr bool sg = vals::is_signed_v<T>;
    constexpr int digits = w - (sg ? 1 : 0);
    U u = U(v);
    U m = (sg && v < 0) ? U(~u) : u;  // -v-1 == ~v: the value bits of the two's-complement form
    int bl, tz;
    if constexpr (Hot) {
        bl = int(std::bit_width(m));
        tz = u ? std::countr_zero(u) : 0;
    } else {
        bl = nv::bitlen(u128(m), w);
        tz = u ? nv::ctz(u128(u), w) : 0;
        if constexpr (sg) {
            if (nv::rsb(u128(u), w) != digits - bl) harness_fault("sign-bit run and bit length disagree");
        } else {
            if (nv::clz(u128(u), w) != digits - bl) harness_fault("leading zeros and bit length disagree");
        }
        if constexpr (w <= 64) {
            if (bl != int(std::bit_width(m))) harness_fault("std::bit_width and naive bit length disagree");
        }
    }
    DVals e;
    e.v[D_RSB] = sg ? digits - bl : 0;
    e.v[D_RB] = digits - bl;
    e.v[D_USED] = bl;
    e.v[D_UD] = bl;
    e.v[D_IUD] = bl;
    e.v[D_LB] = digits - bl;
    e.v[D_TB] = tz;
    return e;
}

template<class T, int Set>
[[gnu::noinline]] void cnl_digits_batch(T v, DVals& g)
{
    constexpr unsigned M = set_mask(Set, vals::is_signed_v<T>);
    if constexpr (vals::is_signed_v<T> && (M >> D_RSB & 1)) g.v[D_RSB] = static_cast<int>(cnl::countl_rsb(v));
    if constexpr (M >> D_RB & 1) g.v[D_RB] = static_cast<int>(cnl::countl_rb(v));
    if constexpr (M >> D_USED & 1) g.v[D_USED] = static_cast<int>(cnl::countr_used(v));
    if constexpr (M >> D_UD & 1) g.v[D_UD] = static_cast<int>(cnl::used_digits(v));
    if constexpr (M >> D_IUD & 1) g.v[D_IUD] = static_cast<int>(cnl::_impl::used_digits(v));
    if constexpr (M >> D_LB & 1) g.v[D_LB] = static_cast<int>(cnl::leading_bits(v));
    if constexpr (M >> D_TB & 1) g.v[D_TB] = static_cast<int>(cnl::trailing_bits(v));
}
template<class T>
[[gnu::noinline]] int cnl_digits_one(int fn, T v)
{
    switch (fn) {
    case D_RSB:
        if constexpr (vals::is_signed_v<T>) return static_cast<int>(cnl::countl_rsb(v));
        else return 0;
    case D_RB: return static_cast<int>(cnl::countl_rb(v));
    case D_USED: return static_cast<int>(cnl::countr_used(v));
    case D_UD: return static_cast<int>(cnl::used_digits(v));
    case D_IUD: return static_cast<int>(cnl::_impl::used_digits(v));
    case D_LB: return static_cast<int>(cnl::leading_bits(v));
    case D_TB: return static_cast<int>(cnl::trailing_bits(v));
    }
    return 0;
}

template<class T, bool Hot, int Set, class Space>
[[gnu::noinline]] void prog_digits(Space const& sp)
{
    using U = uns_t<T>;
    constexpr bool sg = vals::is_signed_v<T>;
    constexpr unsigned M = set_mask(Set, sg);
    constexpr int NF = std::popcount(M);
    std::string name = std::string(C18_PREFIX) + set_name[Set] + "<" + vf::tn<T>() + sp.tag() + ">";
    if (!vf::begin(name, sp.full())) return;
    if constexpr (sg && (M >> D_RSB & 1)) type_check<decltype(cnl::countl_rsb(T{})), int>("countl_rsb");
    if constexpr (M >> D_RB & 1) type_check<decltype(cnl::countl_rb(T{})), int>("countl_rb");
    if constexpr (M >> D_USED & 1) type_check<decltype(cnl::countr_used(T{})), int>("countr_used");
    if constexpr (M >> D_UD & 1) type_check<decltype(cnl::used_digits(T{})), int>("used_digits");
    if constexpr (M >> D_IUD & 1) type_check<decltype(cnl::_impl::used_digits(T{})), int>("_impl::used_digits");
    if constexpr (M >> D_LB & 1) type_check<decltype(cnl::leading_bits(T{})), int>("leading_bits");
    if constexpr (M >> D_TB & 1) type_check<decltype(cnl::trailing_bits(T{})), int>("trailing_bits");
    constexpr int NC = sg ? int(S_N) : int(V_N);
    uint64_t okc[NC] = {};
    auto classify = [](T v) -> int {
        if constexpr (sg) {
            if (v == 0) return S_ZERO;
            if (v == T(-1)) return S_MINUS1;
            if (v == vals::min_v<T>()) return S_MIN;
            if (v == vals::max_v<T>()) return S_MAX;
            return v < 0 ? S_NEG : S_POS;
        } else
            return classify_u(v);
    };
    auto keyc = [](int c) -> const char* {
        if constexpr (sg) return sclass_key[c];
        else return key_class_u(c);
    };
    auto slow = [&](T v, DVals const& e, vf::Outcome const& batch, int vc) {
        std::string id = vf::to_s(v);
        bool any = false;
        for (int fn = 0; fn < D_N; ++fn) {
            if (!(M >> fn & 1)) continue;
            int r = 0;
            vf::Outcome o = vf::run([&] { r = cnl_digits_one<T>(fn, v); });
            if (!o.ok()) {
                any = true;
                vf::outcome(o.str());
                vf::violation(std::string(vf::kind_name(o.kind)) + "/" + dfn_name[fn] + "/" + keyc(vc), id,
                              std::string(dfn_name[fn]) + "(" + vf::tn<T>() + " " + id + "): expected " + vf::to_s(e.v[fn]) + ", got " + o.str());
            } else if (r != e.v[fn]) {
                any = true;
                vf::outcome("wrong_value");
                vf::violation(std::string("value/") + dfn_name[fn] + "/" + keyc(vc), id,
                              std::string(dfn_name[fn]) + "(" + vf::tn<T>() + " " + id + "): expected " + vf::to_s(e.v[fn]) + ", got " + vf::to_s(r));
            }
        }
        if (!any) {
            vf::outcome("unattributed");
            vf::violation(std::string("unattributed/batch/") + keyc(vc), id, "batch of digit functions on " + id + " failed (" + batch.str() + ") but no single function did");
        }
    };
    auto do_case = [&](T v) {
        DVals e = expect_digits<T, Hot>(v);
        for (int fn = 0; fn < D_N; ++fn)
            if (!(M >> fn & 1)) e.v[fn] = 0;
        DVals g;
        vf::Outcome o = vf::run([&] { cnl_digits_batch<T, Set>(v, g); });
        vf::validated(NF);
        int vc = classify(v);
        vf::counted(sg ? (vc != S_ZERO && vc != S_MINUS1) : vc >= V_POW2);
        if (vf::want_sample())
        {
            std::string t = vf::to_s(v) + " ->";
            for (int fn = 0; fn < D_N; ++fn)
                if (M >> fn & 1) t += std::string(" ") + dfn_name[fn] + " " + vf::to_s(g.v[fn]);
            vf::sample(t + (o.ok() ? "" : " [" + o.str() + "]"));
        }
        if (o.ok() && g.same(e)) {
            okc[vc]++;
            return;
        }
        slow(v, e, o, vc);
    };
    if (vf::replaying()) {
        T v;
        if (parse_int(vf::g.replay_case, v) && sp.contains(U(v))) do_case(v);
    } else {
        uint64_t R = sp.rows(), L = sp.rowlen();
        for (uint64_t r = 0; r < R; ++r) {
            if (!vf::my_row()) continue;
            for (uint64_t i = 0; i < L; ++i) do_case(T(sp.at(r, i)));
        }
    }
    for (int c = 0; c < NC; ++c) flush_outcome(sg ? sclass_ok[c] : uclass_ok[c], okc[c]);
}

// ---------------------------------------------------------------------------------------------
// program list. C18_FULL32_* (0/1) are set per unit by checks/C18.py: whether the unit can afford
// all 2^32 values of the 32-bit types for that function set in this tier; otherwise the 2^27
// sub-lattice plus P(u32) is enumerated.
#ifndef C18_FULL32_UNARY
#define C18_FULL32_UNARY 0
#endif
#ifndef C18_FULL32_SBIT
#define C18_FULL32_SBIT 0
#endif
#ifndef C18_FULL32_SNUM
#define C18_FULL32_SNUM 0
#endif
#ifndef C18_FULL32_UNUM
#define C18_FULL32_UNUM 0
#endif

template<class U>
void wide_group()
{
    auto const P = patterns<U>();
    prog_unary<U, false>(P);
    prog_rot<true, U>(P);
    prog_rot<false, U>(P);
    prog_digits<sgn_t<U>, false, SET_ALL>(P);
    prog_digits<U, false, SET_ALL>(P);
}

// ---- used_digits / leading_bits of CNL number types (the library applies them to its own wrappers): the counts are those
// of the held value, with digits_v of the wrapper as the width
template<class W>
[[gnu::noinline]] void prog_wrapper_digits(const char* wname, long long lo, long long hi)
{
    if (!vf::begin(std::string("wrapper_digits<") + wname + ">", true)) return;
    constexpr int digits = cnl::digits_v<W>;
    for (long long v = lo; v <= hi; ++v) {
        if (!vf::my_row()) continue;
        std::string const id = std::to_string(v);
        if (vf::replaying() && !vf::case_selected(id)) continue;
        unsigned long long m = v < 0 ? ~static_cast<unsigned long long>(v) : static_cast<unsigned long long>(v);
        int const bl = int(std::bit_width(m));
        int ud = -1, lb = -1;
        W w(v);
        vf::Outcome o = vf::run([&] {
            ud = static_cast<int>(cnl::used_digits(w));
            lb = static_cast<int>(cnl::leading_bits(w));
        });
        vf::validated(2);
        vf::counted(v < 0);
        const char* cls = v < 0 ? "negative" : (v == 0 ? "zero" : "positive");
        if (!o.ok()) vf::violation(std::string("wrapper_digits/") + o.str() + "/" + cls, id, std::string(wname) + "{" + id + "}: " + o.str());
        else if (ud != bl)
            vf::violation(std::string("value/used_digits/wrapper/") + cls, id, std::string("used_digits(") + wname + "{" + id + "}): expected " + std::to_string(bl) + ", got " + std::to_string(ud));
        else if (lb != digits - bl)
            vf::violation(std::string("value/leading_bits/wrapper/") + cls, id, std::string("leading_bits(") + wname + "{" + id + "}): expected " + std::to_string(digits - bl) + ", got " + std::to_string(lb));
        else
            vf::outcome(std::string("ok_wrapper_digits_") + cls);
    }
}

// ---- _impl::used_digits(value, radix) for a radix other than two (numeric_limits<>::radix is only the default argument):
// the number of base-radix digits of the value, of -1 - value when it is negative
template<class T>
[[gnu::noinline]] void prog_radix_digits(const char* tname, std::vector<long long> const& values, bool full)
{
    if (!vf::begin(std::string("radix_digits<") + tname + ">", full)) return;
    static const int radices[] = {2, 3, 4, 5, 7, 8, 9, 10, 11, 12, 13, 14, 15, 16, 17, 36, 100, 127, 128, 255, 256, 1000};
    for (long long v : values) {
        if (!vf::my_row()) continue;
        for (int r : radices) {
            std::string const id = std::to_string(v) + ",r" + std::to_string(r);
            if (vf::replaying() && !vf::case_selected(id)) continue;
            unsigned long long const m = v < 0 ? ~static_cast<unsigned long long>(v) : static_cast<unsigned long long>(v);
            int expect = 0;
            for (unsigned long long x = m; x > 0; x /= static_cast<unsigned>(r)) ++expect;
            int got = -1;
            T const t = static_cast<T>(v);
            vf::Outcome o = vf::run([&] { got = static_cast<int>(cnl::_impl::used_digits(t, r)); });
            vf::validated(1);
            vf::counted(r != 2);
            const char* cls = v < 0 ? "negative" : (v == 0 ? "zero" : "positive");
            if (!o.ok()) vf::violation(std::string("radix_digits/") + o.str() + "/" + cls, id, std::string("_impl::used_digits(") + tname + "{" + std::to_string(v) + "}, " + std::to_string(r) + "): " + o.str());
            else if (got != expect)
                vf::violation(std::string("value/used_digits/radix/") + cls, id, std::string("_impl::used_digits(") + tname + "{" + std::to_string(v) + "}, " + std::to_string(r) + "): expected " + std::to_string(expect) + ", got " + std::to_string(got));
            else
                vf::outcome(std::string("ok_radix_digits_") + cls);
        }
    }
}

template<class T>
std::vector<long long> radix_values(bool full)
{
    std::vector<long long> out;
    long long const lo = static_cast<long long>(std::numeric_limits<T>::lowest());
    long long const hi = sizeof(T) == 8 && !std::is_signed_v<T> ? std::numeric_limits<long long>::max() : static_cast<long long>(std::numeric_limits<T>::max());
    if (full) {
        for (long long v = lo; v <= hi; ++v) out.push_back(v);
        return out;
    }
    auto add = [&](long long v) { if (v >= lo && v <= hi) out.push_back(v); };
    for (long long v = -300; v <= 300; ++v) add(v);
    for (long long b : {2ll, 3ll, 7ll, 10ll, 12ll, 16ll, 100ll, 255ll, 256ll, 1000ll})
        for (long long p = b; p > 0 && p <= hi / b; p *= b)
            for (long long d = -1; d <= 1; ++d) { add(p + d); add(-(p + d)); add(-(p + d) - 1); }
    for (long long d = 0; d < 3; ++d) { add(hi - d); add(lo + d); }
    return out;
}

static void g_narrow()
{
    prog_radix_digits<i8>("int8_t", radix_values<i8>(true), true);
    prog_radix_digits<u8>("uint8_t", radix_values<u8>(true), true);
    prog_radix_digits<i16>("int16_t", radix_values<i16>(true), true);
    prog_radix_digits<u16>("uint16_t", radix_values<u16>(true), true);
    prog_radix_digits<int>("int", radix_values<int>(false), false);
    prog_radix_digits<u32>("uint32_t", radix_values<u32>(false), false);
    prog_radix_digits<long long>("long long", radix_values<long long>(false), false);
    prog_radix_digits<ull64>("unsigned long long", radix_values<ull64>(false), false);
    prog_unary<u8, false>(FullSpace<u8>{});
    prog_unary<u16, false>(FullSpace<u16>{});
    prog_rot<true, u8>(FullSpace<u8>{});
    prog_rot<false, u8>(FullSpace<u8>{});
    prog_rot<true, u16>(FullSpace<u16>{});
    prog_rot<false, u16>(FullSpace<u16>{});
    prog_digits<i8, false, SET_ALL>(FullSpace<u8>{});
    prog_digits<i16, false, SET_ALL>(FullSpace<u16>{});
    prog_digits<u8, false, SET_ALL>(FullSpace<u8>{});
    prog_digits<u16, false, SET_ALL>(FullSpace<u16>{});
    prog_wrapper_digits<cnl::elastic_integer<7>>("elastic_integer<7>", -127, 127);
    prog_wrapper_digits<cnl::elastic_integer<20>>("elastic_integer<20>", -70000, 70000);
    prog_wrapper_digits<cnl::elastic_integer<8, unsigned>>("elastic_integer<8,unsigned>", 0, 255);
    prog_wrapper_digits<cnl::overflow_integer<int>>("overflow_integer<int>", -70000, 70000);
    prog_wrapper_digits<cnl::rounding_integer<int>>("rounding_integer<int>", -70000, 70000);
    prog_wrapper_digits<cnl::overflow_integer<cnl::elastic_integer<12>>>("overflow_integer<elastic_integer<12>>", -4095, 4095);
}
VF_GROUP(g_narrow);

static void g_wide()
{
    wide_group<u64>();
    wide_group<ull64>();
    wide_group<u128>();
}
VF_GROUP(g_wide);

static void g_32()
{
    auto const P = patterns<u32>();
    prog_rot<true, u32>(P);
    prog_rot<false, u32>(P);
    prog_unary<u32, false>(P);
    prog_digits<i32, false, SET_ALL>(P);
    prog_digits<u32, false, SET_ALL>(P);
#if C18_FULL32_UNARY
    prog_unary<u32, true>(FullSpace<u32>{});
#else
    prog_unary<u32, true>(Sub32{});
#endif
#if C18_FULL32_SBIT
    prog_digits<i32, true, SET_BIT>(FullSpace<u32>{});
#else
    prog_digits<i32, true, SET_BIT>(Sub32{});
#endif
#if C18_FULL32_SNUM
    prog_digits<i32, true, SET_NUMERIC>(FullSpace<u32>{});
#else
    prog_digits<i32, true, SET_NUMERIC>(Sub32{});
#endif
    prog_digits<u32, true, SET_BIT>(Sub32{});
#if C18_FULL32_UNUM
    prog_digits<u32, true, SET_NUMERIC>(FullSpace<u32>{});
#else
    prog_digits<u32, true, SET_NUMERIC>(Sub32{});
#endif
}
VF_GROUP(g_32);

VF_MAIN()
