// C11 — static_integer and static_number are never silently wrong (histories of operations).
//
// (1) register machine: registers a, b of one type T = static_integer<D,R,O,int8_t> or
//     static_number<D,E,R,O,int8_t>; transitions a = T(a op b) for op in + - * /, a op= b, a = -a,
//     ++a, --a, a++, a--, comparisons (observers). Every register value is directly constructible, so every
//     state is initial and the complete transition relation (all states x all transitions) is executed.
// (2) expression trees: all trees with <= 2 (thorough: 3, left chains and balanced) operator nodes over
//     {+,-,*,/} and leaves a,b,c(,d); the compiler derives every intermediate type (they grow and are
//     never narrowed); all leaf values enumerated; the final result is also narrowed back to the leaf type.
// (3) storage boundaries: D in {7,8,15,16,31,32,63,64,100,200} with lattice leaves, depth 1-2.
// Oracle: exact rationals with the type's rounding at each '/' (at the result resolution read from the
// CNL node's type) and at each precision-losing narrowing; at each narrowing: in range -> equal, else the
// tag's signal (clamp / std::overflow_error / abort message with the right polarity).
// Division by zero anywhere in the tree -> state skipped.
#include "cnlval.h"

#include <tuple>

using cnl::power;
using cnl::scaled_integer;

using NEA = cnl::nearest_rounding_tag;
using TIE = cnl::tie_to_pos_inf_rounding_tag;
using NEG = cnl::neg_inf_rounding_tag;
using NAT = cnl::native_rounding_tag;
using SAT = cnl::saturated_overflow_tag;
using THR = cnl::_impl::throwing_overflow_tag;
using TRP = cnl::trapping_overflow_tag;
using UND = cnl::undefined_overflow_tag;

template<class R>
struct rmode;
template<>
struct rmode<NAT> {
    static constexpr int m = 0;
    static constexpr const char* n = "native";
};
template<>
struct rmode<NEA> {
    static constexpr int m = 1;
    static constexpr const char* n = "nearest";
};
template<>
struct rmode<TIE> {
    static constexpr int m = 2;
    static constexpr const char* n = "tie_to_pos_inf";
};
template<>
struct rmode<NEG> {
    static constexpr int m = 3;
    static constexpr const char* n = "neg_inf";
};
template<class O>
struct omode;
template<>
struct omode<SAT> {
    static constexpr int m = 0;
    static constexpr const char* n = "saturated";
};
template<>
struct omode<THR> {
    static constexpr int m = 1;
    static constexpr const char* n = "throwing";
};
template<>
struct omode<TRP> {
    static constexpr int m = 2;
    static constexpr const char* n = "trapping";
};
template<>
struct omode<UND> {
    static constexpr int m = 3;  // observable in CNL_DEBUG only (abort hook); same expectations as trapping
    static constexpr const char* n = "undefined";
};

static Big round_mode(Rat const& q, int mode)
{
    switch (mode) {
    case 0: return q.trunc();
    case 1: return q.round_half_away();
    case 2: return q.round_half_up();
    default: return q.floor();
    }
}

// exponent of any static_integer / static_number / intermediate type
template<class T>
constexpr int exp_of = cv::scale_of<T>::exponent;

template<class T>
Rat val(T const& x)
{
    using S = cv::scale_of<T>;
    if constexpr (S::scaled) return Rat::scaled(cv::int_value(cnl::_impl::to_rep(x)), 2, S::exponent);
    else return Rat(cv::int_value(x));
}

template<class T>
struct limits_of {
    using rep = typename cv::scale_of<T>::rep;
    static Rat hi() { return Rat::scaled(cv::max_of<rep>(), 2, exp_of<T>); }
    static Rat lo() { return Rat::scaled(cv::lowest_of<rep>(), 2, exp_of<T>); }
};

template<class T>
T make(Big const& repv)
{
    using S = cv::scale_of<T>;
    if constexpr (S::scaled) return cnl::_impl::from_rep<T>(cv::make_int<typename S::rep>(repv));
    else return cv::make_int<T>(repv);
}

// ---- expression trees ------------------------------------------------------------------------
template<int I>
struct Leaf {
};
template<char Op, class L, class R>
struct Bin {
};
template<class L>
struct Neg {
};

template<class L, class Vals>
auto cnl_eval(Neg<L>, Vals const& v);
template<int I, class Vals>
auto cnl_eval(Leaf<I>, Vals const& v)
{
    return std::get<I>(v);
}
template<char Op, class L, class R, class Vals>
auto cnl_eval(Bin<Op, L, R>, Vals const& v)
{
    auto l = cnl_eval(L{}, v);
    auto r = cnl_eval(R{}, v);
    if constexpr (Op == '+') return l + r;
    else if constexpr (Op == '-') return l - r;
    else if constexpr (Op == '*') return l * r;
    else return l / r;
}

template<class L, class Vals>
auto cnl_eval(Neg<L>, Vals const& v)
{
    return -cnl_eval(L{}, v);
}

struct RefVal {
    Rat v;
    bool div0 = false;
};
template<int Mode, class L, class Vals>
RefVal ref_eval(Neg<L>, Vals const& v, std::array<Rat, 4> const& ex);
template<int Mode, int I, class Vals>
RefVal ref_eval(Leaf<I>, Vals const&, std::array<Rat, 4> const& ex)
{
    return {ex[I], false};
}
template<int Mode, char Op, class L, class R, class Vals>
RefVal ref_eval(Bin<Op, L, R>, Vals const& v, std::array<Rat, 4> const& ex)
{
    RefVal l = ref_eval<Mode>(L{}, v, ex), r = ref_eval<Mode>(R{}, v, ex);
    if (l.div0 || r.div0) return {Rat(), true};
    if constexpr (Op == '+') return {l.v + r.v, false};
    else if constexpr (Op == '-') return {l.v - r.v, false};
    else if constexpr (Op == '*') return {l.v * r.v, false};
    else {
        if (r.v.n.is_zero()) return {Rat(), true};
        // quotient at the resolution of the CNL result type of this node
        using TN = decltype(cnl_eval(Bin<Op, L, R>{}, v));
        Rat unit = Rat::scaled(Big(1), 2, exp_of<TN>);
        Big q = round_mode((l.v / r.v) / unit, Mode);
        return {Rat(q) * unit, false};
    }
}

template<int Mode, class L, class Vals>
RefVal ref_eval(Neg<L>, Vals const& v, std::array<Rat, 4> const& ex)
{
    RefVal l = ref_eval<Mode>(L{}, v, ex);
    if (l.div0) return l;
    return {-l.v, false};
}

template<char Op, class L, class R>
std::string tree_str(Bin<Op, L, R>);
template<class L>
std::string tree_str(Neg<L>);
template<int I>
std::string tree_str(Leaf<I>)
{
    return std::string(1, char('a' + I));
}
template<char Op, class L, class R>
std::string tree_str(Bin<Op, L, R>)
{
    return "(" + tree_str(L{}) + Op + tree_str(R{}) + ")";
}

template<class L>
std::string tree_str(Neg<L>)
{
    return "-" + tree_str(L{});
}

// what narrowing `exact` into T must do
enum { N_VALUE, N_POS, N_NEG };
template<class T, int RMode>
int narrow_expect(Rat const& exact, Big& rep_out)
{
    Rat unit = Rat::scaled(Big(1), 2, exp_of<T>);
    Big q = round_mode(exact / unit, RMode);
    using rep = typename cv::scale_of<T>::rep;
    if (q > cv::max_of<rep>()) return N_POS;
    if (q < cv::lowest_of<rep>()) return N_NEG;
    rep_out = q;
    return N_VALUE;
}

// run `f` (which yields a T) and compare with the narrowing expectation under overflow mode OMode
template<class T, int OMode, class F>
void check_narrow(const char* what, int expect, Big const& want_rep, std::string const& id, std::string const& labels, F&& f)
{
    using rep = typename cv::scale_of<T>::rep;
    Big got;
    vf::Outcome o = vf::run([&] { got = cv::int_value(cnl::_impl::to_rep(f())); });
    vf::validated();
    int seen = -1;
    if (o.ok()) seen = N_VALUE;
    else if ((o.kind == vf::THROW_OVERFLOW && OMode == 1) || (o.kind == vf::ABORT_HOOK && (OMode == 2 || OMode == 3))) seen = o.msg == "positive overflow" ? N_POS : (o.msg == "negative overflow" ? N_NEG : -1);
    bool ok;
    if (OMode == 0) {
        Big want = expect == N_VALUE ? want_rep : (expect == N_POS ? cv::max_of<rep>() : cv::lowest_of<rep>());
        ok = o.ok() && got == want;
    } else
        ok = seen == expect && (expect != N_VALUE || got == want_rep);
    static const char* en[] = {"value", "pos", "neg"};
    if (!ok && OMode != 0 && expect == N_VALUE && seen > 0) {
        // an overflow signal although the exact result fits: not silent, so the property is not violated
        // ("either yields the exact result or signals overflow"); counted, not judged
        vf::outcome("spurious_signal_although_result_fits");
        return;
    }
    if (!ok) {
        std::string gs = o.ok() ? (expect == N_VALUE ? "wrong_value" : (OMode == 0 ? "not_clamped" : "no_signal")) : (seen >= 0 ? en[seen] : o.str());
        vf::outcome("bad_" + gs);
        vf::violation(std::string(what) + "/expected=" + en[expect] + "/got=" + gs + labels, id, id + " " + what + ": expected " + (expect == N_VALUE ? ("rep " + want_rep.str()) : std::string(en[expect]) + " overflow") + ", got " + (o.ok() ? ("rep " + got.str()) : o.str()));
    } else
        vf::outcome(std::string("ok_") + what + "_" + en[expect]);
}

template<class T, class RT, class OT, class Tree, int NLeaves>
void run_tree(std::string const& pname, std::vector<Big> const& space)
{
    constexpr int RM = rmode<RT>::m;
    constexpr int OM = omode<OT>::m;
    std::string tname = tree_str(Tree{});
    size_t n = space.size();
    size_t total = 1;
    for (int i = 0; i < NLeaves; ++i) total *= n;
    for (size_t idx = 0; idx < total; ++idx) {
        size_t k = idx;
        std::array<Big, 4> reps;
        for (int i = NLeaves - 1; i >= 0; --i) {
            reps[i] = space[k % n];
            k /= n;
        }
        // one row per value of the first leaf
        if (idx % (total / n) == 0 && !vf::my_row()) {
            idx += total / n - 1;
            continue;
        }
        auto id = [&] {
            std::string s = tname + ":";
            for (int i = 0; i < NLeaves; ++i) s += (i ? "," : "") + reps[i].str();
            return s;
        };
        if (vf::replaying() && !vf::case_selected(id())) continue;
        auto vals = std::make_tuple(make<T>(reps[0]), make<T>(reps[1]), make<T>(reps[NLeaves > 2 ? 2 : 0]), make<T>(reps[NLeaves > 3 ? 3 : 0]));
        std::array<Rat, 4> ex;
        Rat unit = Rat::scaled(Big(1), 2, exp_of<T>);
        for (int i = 0; i < 4; ++i) ex[i] = Rat(reps[i < NLeaves ? i : 0]) * unit;
        RefVal want = ref_eval<RM>(Tree{}, vals, ex);
        if (want.div0) {
            vf::skip_pre();
            continue;
        }
        using TR = decltype(cnl_eval(Tree{}, vals));
        // (a) the un-narrowed result: intermediate types grow, so it must be exact (or signal if it cannot fit)
        Rat got;
        vf::Outcome o = vf::run([&] { got = val(cnl_eval(Tree{}, vals)); });
        vf::validated();
        bool fits_tr = want.v <= limits_of<TR>::hi() && want.v >= limits_of<TR>::lo();
        vf::counted(true);
        if (vf::want_sample()) vf::sample(pname + " " + id() + " = " + want.v.str());
        if (!o.ok()) {
            bool intended = !fits_tr && ((o.kind == vf::THROW_OVERFLOW && OM == 1) || (o.kind == vf::ABORT_HOOK && OM >= 2 && (o.msg == "positive overflow" || o.msg == "negative overflow")));
            // a signal raised inside the tree although the final value fits is still "not silent": accepted
            bool signalled = (o.kind == vf::THROW_OVERFLOW && OM == 1) || (o.kind == vf::ABORT_HOOK && OM >= 2 && (o.msg == "positive overflow" || o.msg == "negative overflow"));
            if (intended || signalled) {
                vf::outcome(intended ? "ok_tree_signal" : "tree_signal_although_result_fits");
            } else {
                vf::outcome(o.str());
                vf::violation("tree/" + o.str(), id(), id() + ": " + o.str() + ", expected " + want.v.str());
            }
            continue;
        }
        if (got != want.v) {
            // saturated: a clamped intermediate is a legitimate (signalled-by-clamping) outcome only if some node overflowed its type
            vf::outcome("wrong_tree_value");
            vf::violation(std::string("tree/value/") + (fits_tr ? "result_fits" : "result_exceeds_type"), id(), id() + ": got " + got.str() + ", expected " + want.v.str());
            continue;
        }
        vf::outcome("ok_tree_value");
        // (b) narrowing the result back to the leaf type
        Big want_rep;
        int expect = narrow_expect<T, RM>(want.v, want_rep);
        std::string labels = (exp_of<TR> < exp_of<T>) ? "/precision_losing" : "/same_resolution";
        if constexpr (exp_of<TR> < exp_of<T>) {
            // semantic label: adding half a destination unit to the source rep leaves the source type's range
            using rtr = typename cv::scale_of<TR>::rep;
            Big srep = (want.v / Rat::scaled(Big(1), 2, exp_of<TR>)).trunc();
            // (nearest / tie_to_pos_inf add half a unit; neg_inf reaches the floor through a bias of one unit minus one source step)
            Big const bias = RM == 3 ? Big::pow2(exp_of<T> - exp_of<TR>) - Big(1) : Big::pow2(exp_of<T> - exp_of<TR> - 1);
            if (srep.abs() + bias > cv::max_of<rtr>()) labels += "/bias_overflows_source";
        }
        check_narrow<T, OM>("narrow", expect, want_rep, id(), labels, [&] { return T(cnl_eval(Tree{}, vals)); });
    }
}

template<class T, class RT, class OT>
[[gnu::noinline]] void prog_trees(const char* tn, int depth, int fullbits, int step)
{
    using rep = typename cv::scale_of<T>::rep;
    bool full = cv::space_is_full<rep>(fullbits);
    std::string pname = std::string("trees<") + tn + "," + rmode<RT>::n + "," + omode<OT>::n + ">";
    if (!vf::begin(pname, full)) return;
    auto const space = cv::space<rep>(fullbits, step);
    using A = Leaf<0>;
    using B = Leaf<1>;
    using C = Leaf<2>;
    using D = Leaf<3>;
#define T1(o) run_tree<T, RT, OT, Bin<o, A, B>, 2>(pname, space);
    T1('+') T1('-') T1('*') T1('/')
#undef T1
    if (depth >= 2) {
#define T2(o1, o2) \
    run_tree<T, RT, OT, Bin<o2, Bin<o1, A, B>, C>, 3>(pname, space); \
    run_tree<T, RT, OT, Bin<o1, A, Bin<o2, B, C>>, 3>(pname, space);
#define T2R(o1) T2(o1, '+') T2(o1, '-') T2(o1, '*') T2(o1, '/')
        T2R('+') T2R('-') T2R('*') T2R('/')
#undef T2R
#undef T2
    }
    if (depth >= 2) {
        run_tree<T, RT, OT, Neg<Bin<'+', A, B>>, 2>(pname, space);
        run_tree<T, RT, OT, Bin<'*', Neg<A>, B>, 2>(pname, space);
        run_tree<T, RT, OT, Bin<'-', A, Neg<Bin<'*', B, C>>>, 3>(pname, space);
        run_tree<T, RT, OT, Bin<'/', Neg<A>, B>, 2>(pname, space);
    }
    if (depth >= 3) {
#define T3(o1, o2, o3) \
    run_tree<T, RT, OT, Bin<o3, Bin<o2, Bin<o1, A, B>, C>, D>, 4>(pname, space); \
    run_tree<T, RT, OT, Bin<o2, Bin<o1, A, B>, Bin<o3, C, D>>, 4>(pname, space);
        T3('+', '*', '-') T3('*', '+', '/') T3('/', '-', '*') T3('-', '/', '+') T3('*', '*', '*') T3('/', '/', '/') T3('+', '+', '+') T3('-', '*', '/')
#undef T3
    }
}

// ---- conversions into T and arithmetic with built-in operands -------------------------------------------
// sources: every int in [-K,K] (explicit construction and assignment), doubles k/16, plain scaled_integer<int,
// power<E-3>> reps (three more fractional digits than T), and for every register value a: a op k, k op a for
// built-in k (exact in the grown result type; '/' rounded by the mode at the result type's resolution), a <=> k.
template<class T, class RT, class OT>
[[gnu::noinline]] void prog_convert(const char* tn)
{
    using rep = typename cv::scale_of<T>::rep;
    constexpr int RM = rmode<RT>::m;
    constexpr int OM = omode<OT>::m;
    constexpr int E = exp_of<T>;
    std::string pname = std::string("convert<") + tn + "," + rmode<RT>::n + "," + omode<OT>::n + ">";
    if (!vf::begin(pname, true)) return;
    Rat const unit = Rat::scaled(Big(1), 2, E);
    Big const maxrep = cv::max_of<rep>();
    long const K = 4 * maxrep.low128() + 40;
    auto in_band = [&](Rat const& exact) {
        // source beyond the extreme values of T although its rounding is inside: left open (the overflow test sees the source)
        return exact.abs() > Rat(maxrep) * unit;
    };
    for (long k = -K; k <= K; ++k) {
        if (!vf::my_row()) continue;
        vf::counted(true);
        // (a) built-in int
        {
            auto id = [&] { return "int:" + std::to_string(k); };
            if (!(vf::replaying() && !vf::case_selected(id()))) {
                Rat exact{Big(k)};
                Big want_rep;
                int expect = narrow_expect<T, RM>(exact, want_rep);
                std::string lab = E > 0 ? "/precision_losing/from_int" : "/same_resolution/from_int";
                if (!(expect == N_VALUE && in_band(exact))) {
                    check_narrow<T, OM>("construct", expect, want_rep, id(), lab, [&] { return T(int(k)); });
                    check_narrow<T, OM>("assign", expect, want_rep, id(), lab, [&] { T x = make<T>(Big(0)); x = int(k); return x; });
                } else
                    vf::skip_pre();
            }
        }
        // (b) double k/16
        {
            auto id = [&] { return "f64:" + std::to_string(k) + "/16"; };
            if (!(vf::replaying() && !vf::case_selected(id()))) {
                double x = double(k) / 16.0;
                Rat exact = Rat(Big(k), Big(16));
                Big want_rep;
                int expect = narrow_expect<T, RM>(exact, want_rep);
                if (!(expect == N_VALUE && in_band(exact))) {
                    check_narrow<T, OM>("construct", expect, want_rep, id(), "/precision_losing/from_double", [&] { return T(x); });
                    check_narrow<T, OM>("assign", expect, want_rep, id(), "/precision_losing/from_double", [&] { T y = make<T>(Big(0)); y = x; return y; });
                } else
                    vf::skip_pre();
            }
        }
        // (c) plain scaled_integer with three more fractional digits (static_number destinations: static_integer has no
        // constructor from a fractional scaled_integer under nearest_rounding_tag — not a program)
        if constexpr (cv::scale_of<T>::scaled) {
            using P = scaled_integer<int, power<E - 3>>;
            auto id = [&] { return "scaled<int," + std::to_string(E - 3) + ">:" + std::to_string(k); };
            if (!(vf::replaying() && !vf::case_selected(id()))) {
                P s = cnl::_impl::from_rep<P>(int(k));
                Rat exact = Rat::scaled(Big(k), 2, E - 3);
                Big want_rep;
                int expect = narrow_expect<T, RM>(exact, want_rep);
                if (!(expect == N_VALUE && in_band(exact))) check_narrow<T, OM>("construct", expect, want_rep, id(), "/precision_losing/from_plain_scaled", [&] { return T(s); });
                else
                    vf::skip_pre();
            }
        }
    }
    // (e) narrowing from a finer static_number of the same tags: SrcDigits - shift == digits of T ("just fits") and one more;
    // every source value. Rounding can carry the value past T's limit: that must be signalled, not wrapped or clamped silently
    if constexpr (cv::scale_of<T>::scaled) {
        constexpr int D = cnl::digits_v<rep>;
        auto from_static = [&](auto src_proto, const char* sname) {
            using Src = decltype(src_proto);
            using srep = typename cv::scale_of<Src>::rep;
            constexpr int SD = cnl::digits_v<srep>;
            constexpr int SE = exp_of<Src>;
            constexpr int shift = E - SE;
            for (auto const& r : cv::space<srep>(16, 1)) {
                if (!vf::my_row()) continue;
                std::string const id = std::string(sname) + ":" + r.str();
                if (vf::replaying() && !vf::case_selected(id)) continue;
                Src sv = make<Src>(r);
                Rat exact = Rat::scaled(r, 2, SE);
                Big want_rep;
                int expect = narrow_expect<T, RM>(exact, want_rep);
                std::string lab = "/precision_losing/from_static_number";
                Big q = round_mode(exact / unit, RM);
                if (q.abs() >= Big::pow2(SD - shift)) lab += "/rounding_carries_past_source_digits_minus_shift";
                vf::counted(true);
                check_narrow<T, OM>("construct", expect, want_rep, id, lab, [&] { return T(sv); });
                check_narrow<T, OM>("assign", expect, want_rep, id, lab, [&] { T y = make<T>(Big(0)); y = sv; return y; });
            }
        };
        from_static(cnl::static_number<D + 1, E - 1, RT, OT, i8>{}, "static_number<D+1,E-1>");
        from_static(cnl::static_number<D + 2, E - 2, RT, OT, i8>{}, "static_number<D+2,E-2>");
        from_static(cnl::static_number<D + 3, E - 2, RT, OT, i8>{}, "static_number<D+3,E-2>");
        from_static(cnl::static_number<D + 4, E - 4, RT, OT, i8>{}, "static_number<D+4,E-4>");
        from_static(cnl::static_number<D + 1, E - 2, RT, OT, i8>{}, "static_number<D+1,E-2>");  // intermediate narrower than T
    }
    // (d) built-in operands
    auto const space = cv::space<rep>(16, 1);
    for (auto const& ra : space) {
        if (!vf::my_row()) continue;
        T a = make<T>(ra);
        Rat va = Rat(ra) * unit;
        for (int k : {-7, -3, -1, 0, 1, 2, 5, 100, std::numeric_limits<int>::max(), std::numeric_limits<int>::min()}) {
            auto id = [&] { return ra.str() + " op " + std::to_string(k); };
            if (vf::replaying() && !vf::case_selected(id())) continue;
            Rat vk{Big(k)};
            std::string const kreg = (k == std::numeric_limits<int>::max() || k == std::numeric_limits<int>::min()) ? "/builtin_extreme" : "";
            auto exact_op = [&](const char* op, Rat const& want, auto&& f) {
                using TR = decltype(f());
                Rat got;
                vf::Outcome o = vf::run([&] { got = val(f()); });
                vf::validated();
                bool fits = want <= limits_of<TR>::hi() && want >= limits_of<TR>::lo();
                bool signalled = (o.kind == vf::THROW_OVERFLOW && OM == 1) || (o.kind == vf::ABORT_HOOK && OM >= 2 && (o.msg == "positive overflow" || o.msg == "negative overflow"));
                if (!o.ok()) {
                    if (signalled) vf::outcome(fits ? "builtin_signal_although_result_fits" : "ok_builtin_signal");
                    else
                        vf::violation(std::string("builtin/") + op + "/" + o.str() + kreg, id(), id() + " " + op + ": " + o.str() + ", expected " + want.str());
                } else if (got != want)
                    vf::violation(std::string("builtin/") + op + "/value/" + (fits ? "result_fits" : "result_exceeds_type") + kreg, id(), id() + " " + op + ": got " + got.str() + ", expected " + want.str());
                else
                    vf::outcome(std::string("ok_builtin_") + op);
            };
            exact_op("a+k", va + vk, [&] { return a + k; });
            exact_op("k+a", vk + va, [&] { return k + a; });
            exact_op("a-k", va - vk, [&] { return a - k; });
            exact_op("k-a", vk - va, [&] { return k - a; });
            exact_op("a*k", va * vk, [&] { return a * k; });
            exact_op("k*a", vk * va, [&] { return k * a; });
            if (k != 0) {
                using TQ = decltype(a / k);
                Rat uq = Rat::scaled(Big(1), 2, exp_of<TQ>);
                exact_op("a/k", Rat(round_mode((va / vk) / uq, RM)) * uq, [&] { return a / k; });
            }
            if (!ra.is_zero()) {
                using TQ = decltype(k / a);
                Rat uq = Rat::scaled(Big(1), 2, exp_of<TQ>);
                exact_op("k/a", Rat(round_mode((vk / va) / uq, RM)) * uq, [&] { return k / a; });
            }
            int c = va < vk ? -1 : (va == vk ? 0 : 1);
            bool lt = false, eq = false, gt = false, rlt = false;
            vf::Outcome o = vf::run([&] {
                lt = a < k;
                eq = a == k;
                gt = a > k;
                rlt = k < a;
            });
            vf::validated(4);
            if (!o.ok() || lt != (c < 0) || eq != (c == 0) || gt != (c > 0) || rlt != (c > 0)) vf::violation(std::string("builtin/compare/") + (o.ok() ? "value" : o.str()) + kreg, id(), id() + ": comparisons with the built-in disagree with the values");
            else
                vf::outcome("ok_builtin_compare");
        }
    }
}

// ---- register machine ------------------------------------------------------------------------
template<class T, class RT, class OT>
[[gnu::noinline]] void prog_machine(const char* tn)
{
    using rep = typename cv::scale_of<T>::rep;
    constexpr int RM = rmode<RT>::m;
    constexpr int OM = omode<OT>::m;
    std::string pname = std::string("machine<") + tn + "," + rmode<RT>::n + "," + omode<OT>::n + ">";
    if (!vf::begin(pname, true)) return;
    auto const space = cv::space<rep>(16, 1);
    Rat const unit = Rat::scaled(Big(1), 2, exp_of<T>);
    for (auto const& ra : space) {
        if (!vf::my_row()) continue;
        for (auto const& rb : space) {
            auto id = [&] { return ra.str() + "," + rb.str(); };
            if (vf::replaying() && !vf::case_selected(id())) continue;
            T a = make<T>(ra), b = make<T>(rb);
            Rat va = Rat(ra) * unit, vb = Rat(rb) * unit;
            vf::counted(true);
            if (vf::want_sample()) vf::sample(pname + " state " + id());
            auto step = [&](const char* op, Rat const& exact, bool prec_loss, auto&& f, bool bias_over = false) {
                Big want_rep;
                int expect = narrow_expect<T, RM>(exact, want_rep);
                check_narrow<T, OM>(op, expect, want_rep, id(), std::string(prec_loss ? "/precision_losing" : "/same_resolution") + (bias_over ? "/bias_overflows_source" : ""), f);
            };
            step("a=a+b", va + vb, false, [&] { T x = a; x = T(x + b); return x; });
            step("a=a-b", va - vb, false, [&] { T x = a; x = T(x - b); return x; });
            bool mul_bias_over = false;
            if constexpr (exp_of<T> < 0) {
                using TM = decltype(a * b);
                using rtm = typename cv::scale_of<TM>::rep;
                Big const bias = RM == 3 ? Big::pow2(exp_of<T> - exp_of<TM>) - Big(1) : Big::pow2(exp_of<T> - exp_of<TM> - 1);
                mul_bias_over = (ra * rb).abs() + bias > cv::max_of<rtm>();
            }
            step("a=a*b", va * vb, exp_of<T> < 0, [&] { T x = a; x = T(x * b); return x; }, mul_bias_over);
            step("a+=b", va + vb, false, [&] { T x = a; x += b; return x; });
            step("a-=b", va - vb, false, [&] { T x = a; x -= b; return x; });
            step("a*=b", va * vb, exp_of<T> < 0, [&] { T x = a; x *= b; return x; }, mul_bias_over);
            if (!rb.is_zero()) {
                // a/b at the resolution of decltype(a/b), then narrowed
                using TQ = decltype(a / b);
                Rat uq = Rat::scaled(Big(1), 2, exp_of<TQ>);
                Rat q = Rat(round_mode((va / vb) / uq, RM)) * uq;
                bool bias_over = false;
                if constexpr (exp_of<TQ> < exp_of<T>) {
                    using rtq = typename cv::scale_of<TQ>::rep;
                    Big const bias = RM == 3 ? Big::pow2(exp_of<T> - exp_of<TQ>) - Big(1) : Big::pow2(exp_of<T> - exp_of<TQ> - 1);
                    bias_over = (q / uq).trunc().abs() + bias > cv::max_of<rtq>();
                }
                step("a=a/b", q, exp_of<TQ> < exp_of<T>, [&] { T x = a; x = T(x / b); return x; }, bias_over);
                step("a/=b", q, exp_of<TQ> < exp_of<T>, [&] { T x = a; x /= b; return x; }, bias_over);
            } else
                vf::skip_pre();
            // observers
            int c = Rat::cmp(va, vb);
            bool lt = false, eq = false, gt = false, le = false, ge = false, ne = false;
            vf::Outcome o = vf::run([&] {
                lt = a < b;
                eq = a == b;
                gt = a > b;
                le = a <= b;
                ge = a >= b;
                ne = a != b;
            });
            vf::validated(6);
            if (!o.ok() || lt != (c < 0) || eq != (c == 0) || gt != (c > 0) || le != (c <= 0) || ge != (c >= 0) || ne != (c != 0)) vf::violation(std::string("compare/") + (o.ok() ? "value" : o.str()), id(), id() + ": comparisons disagree with the values");
            else
                vf::outcome("ok_compare");
        }
        // unary transitions
        {
            auto id = [&] { return ra.str(); };
            if (vf::replaying() && !vf::case_selected(id())) continue;
            T a = make<T>(ra);
            Rat va = Rat(ra) * unit;
            auto step = [&](const char* op, Rat const& exact, auto&& f) {
                Big want_rep;
                int expect = narrow_expect<T, RM>(exact, want_rep);
                check_narrow<T, OM>(op, expect, want_rep, id(), "/same_resolution", f);
            };
            step("a=-a", -va, [&] { T x = a; x = T(-x); return x; });
            if constexpr (exp_of<T> <= 0) {
                step("++a", va + Rat(Big(1)), [&] { T x = a; ++x; return x; });
                step("--a", va - Rat(Big(1)), [&] { T x = a; --x; return x; });
                step("a++", va + Rat(Big(1)), [&] { T x = a; x++; return x; });
                step("a--", va - Rat(Big(1)), [&] { T x = a; x--; return x; });
            }
        }
    }
}

template<int D, class R, class O, class N = i8>
using SInt = cnl::_impl::static_integer<D, R, O, N>;
template<int D, int E, class R, class O, class N = i8>
using SNum = cnl::static_number<D, E, R, O, N>;

static void group()
{
    constexpr int DEPTH = VF_TIER ? 3 : 2;
#include "programs.inc"
}
VF_GROUP(group);
VF_MAIN()
