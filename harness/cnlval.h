// cnlval.h — reading CNL numbers exactly into the reference domain (Big / Rat), and building them.
#pragma once
#include "common.h"

#include <cnl/all.h>

namespace cv {

template<class T>
inline constexpr bool is_builtin_int = vals::is_int_v<T>;

// exact integer value of any CNL integer-like object (built-in, elastic/overflow/rounding wrapper,
// wide_integer). For scaled_integer this is the value of the *rep* (the caller applies the scale).
template<class T>
Big int_value(T const& v)
{
    if constexpr (is_builtin_int<T>) {
        return Big(v);
    } else if constexpr (cnl::_impl::is_wrapper<T>) {
        using rep = cnl::_impl::rep_of_t<T>;
        if constexpr (is_builtin_int<rep> || cnl::_impl::is_wrapper<rep>) {
            return int_value(cnl::_impl::to_rep(v));
        } else {
            // wide_integer over the multi-limb class: peel 32-bit chunks with its own operators
            bool neg = v < T{0};
            T m = neg ? T(-v) : v;
            // the most negative value negates to itself: handle through +1
            bool lowest = neg && m < T{0};
            if (lowest) m = T(-(v + T{1}));
            Big out(0);
            int sh = 0;
            while (m != T{0}) {
                auto chunk = static_cast<unsigned long long>(T(m & T{0xffffffffull}));
                out = out + Big(chunk).shl(sh);
                m = T(m >> 32);
                sh += 32;
            }
            if (lowest) out = out + Big(1);
            return neg ? -out : out;
        }
    } else {
        static_assert(sizeof(T) == 0, "int_value: unsupported type");
    }
}

// construct an integer-like CNL object of type T holding the value v (must fit)
template<class T>
T make_int(Big const& v)
{
    if constexpr (is_builtin_int<T>) {
        return v.template to<T>();
    } else {
        using rep = cnl::_impl::rep_of_t<T>;
        if constexpr (is_builtin_int<rep> || cnl::_impl::is_wrapper<rep>) {
            return cnl::_impl::from_rep<T>(make_int<rep>(v));
        } else {
            T r{0};
            Big m = v.abs();
            for (int i = (m.bit_length() + 31) / 32 - 1; i >= 0; --i) {
                r = T(r << 32);
                r = T(r | T{static_cast<unsigned long long>(m.shr_trunc(32 * i).low128() & 0xffffffffull)});
            }
            if (v.neg) r = T(-r);
            return r;
        }
    }
}

template<class T>
Big lowest_of()
{
    if constexpr (is_builtin_int<T>) return Big(vals::min_v<T>());
    else return int_value(std::numeric_limits<T>::lowest());
}
template<class T>
Big max_of()
{
    if constexpr (is_builtin_int<T>) return Big(vals::max_v<T>());
    else return int_value(std::numeric_limits<T>::max());
}
template<class T>
bool fits(Big const& v)
{
    return v >= lowest_of<T>() && v <= max_of<T>();
}

// exponent / radix of a number type: built-in and non-scaled wrappers have exponent 0
template<class T>
struct scale_of {
    static constexpr int exponent = 0;
    static constexpr int radix = 2;
    static constexpr bool scaled = false;
    using rep = T;
};
template<class Rep, int E, int R>
struct scale_of<cnl::scaled_integer<Rep, cnl::power<E, R>>> {
    static constexpr int exponent = E;
    static constexpr int radix = R;
    static constexpr bool scaled = true;
    using rep = Rep;
};

// exact rational value of a scaled_integer (or any integer-like object, exponent 0)
template<class T>
Rat value(T const& x)
{
    using S = scale_of<T>;
    if constexpr (S::scaled) return Rat::scaled(int_value(cnl::_impl::to_rep(x)), S::radix, S::exponent);
    else return Rat(int_value(x));
}

template<class T>
std::string rep_name()
{
    if constexpr (is_builtin_int<T>) {
        return vf::tn<T>();
    } else if constexpr (cnl::_impl::is_wrapper<T>) {
        using tag = cnl::_impl::tag_of_t<T>;
        using rep = cnl::_impl::rep_of_t<T>;
        if constexpr (scale_of<T>::scaled) return "scaled<" + rep_name<rep>() + "," + std::to_string(scale_of<T>::exponent) + (scale_of<T>::radix == 2 ? "" : ("r" + std::to_string(scale_of<T>::radix))) + ">";
        else if constexpr (cnl::_impl::is_overflow_tag<tag>::value) return "overflow<" + rep_name<rep>() + ">";
        else if constexpr (cnl::_impl::is_rounding_tag<tag>::value) return "rounding<" + rep_name<rep>() + ">";
        else if constexpr (is_builtin_int<rep> || cnl::_impl::is_wrapper<rep>) return std::string("elastic<") + std::to_string(cnl::digits_v<T>) + (cnl::numbers::signedness_v<T> ? "s" : "u") + ">";
        else return std::string("wide<") + std::to_string(cnl::digits_v<T>) + (cnl::numbers::signedness_v<T> ? "s" : "u") + ">";
    } else
        return "?";
}

// value space of an integer-like type: full for <=8-bit built-ins (or as asked), lattice otherwise,
// clipped to the type's own range (elastic types are narrower than their storage)
template<class T>
std::vector<Big> space(int fullbits, int step)
{
    std::vector<Big> out;
    if constexpr (is_builtin_int<T>) {
        for (auto v : vals::space<T>(fullbits, step)) out.push_back(Big(v));
    } else {
        Big lo = lowest_of<T>(), hi = max_of<T>();
        int bits = hi.bit_length();
        if (bits <= fullbits && bits <= 16) {
            for (Big v = lo; v <= hi; v = v + Big(1)) out.push_back(v);
            return out;
        }
        std::set<Big, BigLess> s;
        auto add = [&](Big const& b) {
            if (b >= lo && b <= hi) s.insert(b);
        };
        for (int d = 0; d <= 3; ++d) {
            add(Big(d));
            add(-Big(d));
            add(hi - Big(d));
            add(lo + Big(d));
        }
        add(hi / Big(2));
        add(lo / Big(2));
        for (int k = 1; k <= bits; k += step)
            for (int d = -1; d <= 1; ++d) {
                add(Big::pow2(k) + Big(d));
                add(-(Big::pow2(k) + Big(d)));
            }
        Big pat(0);
        for (int i = 0; i < bits; i += 2) pat = pat + Big::pow2(i);
        add(pat);
        add(-pat);
        for (auto const& b : s) out.push_back(b);
    }
    return out;
}
template<class T>
bool space_is_full(int fullbits)
{
    if constexpr (is_builtin_int<T>) return vals::is_full<T>(fullbits);
    else return max_of<T>().bit_length() <= fullbits && max_of<T>().bit_length() <= 16;
}

}  // namespace cv
