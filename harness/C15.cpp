// C15 — literals, run-time parse() and constant/value-driven deduction yield exactly the written
// value, in a type wide enough, with the digits/exponent the documentation promises.
//
// Five kinds of translation unit, selected by -DC15_MODE (see checks/C15.py):
//   1  run-time cnl::_impl::parse<T>(char const*): one program per (T, base, short|long), T at least 64 bits
//      wide (narrower T make parse() ill-formed: brace-narrowing of a non-constant; Clang rejects it).
//      short = EVERY token `[+-]? prefix digit (digit | ' digit)*` whose body is at most 6 (quick 5)
//      characters over the reduced digit alphabets (thorough: all decimal and octal digits, 9 hex
//      digits); long = every digit count up to the widest T (+2), first x fill x last digit and the
//      alphabet in rotation, x separator layout x sign x zero padding.
//      Oracle: own token reader + Big (decimal/hex/octal/binary positional value).
//      Precondition (exact, before CNL runs): the value lies in [lowest(T), max(T)].
//   2  literals _c / _cnl / _cnl2 / _wide: generated lines L("token", negate, expression); the object
//      is read back exactly (rep x radix^exponent, radix and exponent from the TYPE) and compared
//      with the rational the token text denotes; the type must be wide enough (digits >= used
//      digits) and, for _cnl/_cnl2, normalised as the unit tests show (trailing zero digits of the
//      token's radix / trailing zero bits moved into the exponent, digits == used digits).
//   3  deduction from cnl::constant<V>: generated lines V("text", expression), each line through
//      make_elastic_integer, make_elastic_scaled_integer, make_static_integer, make_static_number,
//      make_scaled_integer and (g++ only: alias CTAD) elastic_integer{...}, scaled_integer{...}.
//   4  deduction from run-time values of every built-in integer type over vals::lattice.
//   5  the descale() step of _cnl/_cnl2 at run time, for token shapes that cannot be compiled as literals.
// UB traps, CNL aborts and hangs inside CNL are outcomes with their own violation classes.
#include "cnlval.h"

#include <memory>

#ifndef C15_MODE
#define C15_MODE 1
#endif
#ifndef C15_PART
#define C15_PART 0  // index of the generated list this unit holds (part of the program name: names stay unique)
#endif
static std::string part_suffix() { return "#" + std::to_string(C15_PART); }

using namespace cnl::literals;

// ---------------------------------------------------------------------------------------------
// the reference reading of a numeric token (independent of CNL)

struct TokenValue {
    Big digits_value;  // value of all digits read as one integer (sign applied)
    int base = 10;
    int frac_digits = 0;
    int ndigits = 0;
    bool has_sep = false;
    bool neg = false;
    Rat value() const { return Rat::scaled(digits_value, base, -frac_digits); }
};

static TokenValue read_token(std::string const& t)
{
    TokenValue r;
    size_t i = 0;
    if (i < t.size() && (t[i] == '+' || t[i] == '-')) {
        r.neg = t[i] == '-';
        ++i;
    }
    std::string s;
    for (; i < t.size(); ++i) {
        if (t[i] == '\'') r.has_sep = true;
        else s += t[i];
    }
    bool const has_point = s.find('.') != std::string::npos;
    size_t start = 0;
    if (!has_point && s.size() >= 2 && s[0] == '0') {
        if (s[1] == 'x' || s[1] == 'X') {
            r.base = 16;
            start = 2;
        } else if (s[1] == 'b' || s[1] == 'B') {
            r.base = 2;
            start = 2;
        } else {
            r.base = 8;
            start = 1;
        }
    }
    std::string digits;
    bool seen = false;
    for (size_t k = start; k < s.size(); ++k) {
        if (s[k] == '.') {
            seen = true;
            continue;
        }
        digits += s[k];
        if (seen) ++r.frac_digits;
    }
    r.ndigits = int(digits.size());
    r.digits_value = digits.empty() ? Big(0) : Big::parse(digits.c_str(), r.base);
    if (r.neg) r.digits_value = -r.digits_value;
    return r;
}

static const char* base_name(int b)
{
    return b == 10 ? "dec" : b == 16 ? "hex" : b == 8 ? "oct" : "bin";
}

static int trailing_zero_bits(Big const& v)
{
    if (v.is_zero()) return 0;
    int n = 0;
    while (!v.bit(n)) ++n;
    return n;
}

// what was read back from a CNL object
struct Props {
    Big rep;
    int digits = -1;
    int exponent = 0;
    int radix = 2;
    bool flag = true;
};

template<class T>
Props extract_any(T const& x)
{
    Props p;
    using S = cv::scale_of<T>;
    if constexpr (S::scaled) p.rep = cv::int_value(cnl::_impl::to_rep(x));
    else p.rep = cv::int_value(x);
    p.digits = cnl::digits_v<T>;
    p.exponent = S::exponent;
    p.radix = S::radix;
    return p;
}

static std::string props_str(Props const& p)
{
    return "rep " + p.rep.str() + " x " + std::to_string(p.radix) + "^" + std::to_string(p.exponent) + ", digits " + std::to_string(p.digits);
}

// does a type with `digits` value digits (two's complement when the value is negative) hold v?
static bool holds(Big const& v, int digits)
{
    if (!v.neg) return v.bit_length() <= digits;
    return v >= -Big::pow2(digits);
}

// =============================================================================================
#if C15_MODE == 1

template<class T>
struct tname {
    static std::string get() { return cv::rep_name<T>(); }
};

// token in the middle of a buffer of non-digit bytes: any over- or under-read meets an invalid digit
struct Guarded {
    std::unique_ptr<char[]> mem{new char[2048]};
    char* put(std::string const& s)
    {
        memset(mem.get(), 0x7f, 2048);
        char* p = mem.get() + 700;
        memcpy(p, s.c_str(), s.size() + 1);
        return p;
    }
};

template<class T>
[[gnu::noinline]] void check_token(std::string const& tok, const char* shape, Big const& lo, Big const& hi, int stride, Guarded& buf)
{
    if (vf::replaying() && !vf::case_selected(tok)) return;
    TokenValue tv = read_token(tok);
    Big const& expected = tv.digits_value;
    if (!(expected >= lo && expected <= hi)) {
        vf::skip_pre();
        return;
    }
    char const* p = buf.put(tok);
    Big got;
    vf::Outcome o = vf::run([&] { got = cv::int_value(cnl::_impl::parse<T>(p)); });
    vf::validated();
    bool const chunked = tv.ndigits > stride;
    vf::counted(chunked || tv.has_sep || tok[0] == '-' || tok[0] == '+');
    if (vf::want_sample()) vf::sample("parse<" + tname<T>::get() + ">(\"" + tok + "\") -> " + (o.ok() ? got.str() : o.str()) + ", token denotes " + expected.str());
    if (!o.ok()) {
        vf::outcome(o.str());
        vf::violation("parse/" + std::string(vf::kind_name(o.kind)) + "/" + base_name(tv.base) + "/" + shape, tok, "parse<" + tname<T>::get() + ">(\"" + tok + "\"): " + o.str() + ", token denotes " + expected.str());
        return;
    }
    if (got != expected) {
        vf::outcome("wrong_value");
        const char* sign = tok[0] == '-' ? "minus" : tok[0] == '+' ? "plus" : "unsigned";
        vf::violation(std::string("parse/value/") + base_name(tv.base) + "/" + shape + "/" + sign + (chunked ? "/multi_chunk" : "/one_chunk"), tok, "parse<" + tname<T>::get() + ">(\"" + tok + "\") == " + got.str() + ", token denotes " + expected.str());
        return;
    }
    vf::outcome(std::string("ok_") + base_name(tv.base) + (chunked ? "_multi_chunk" : "") + (tv.has_sep ? "_sep" : ""));
}

struct BaseSpec {
    int base;
    int stride;
    const char* alphabet;  // reduced digit alphabet (long tokens; short tokens in the quick tier)
    const char* alphabet_short;  // short tokens in the thorough tier: all decimal / octal digits, 9 hex digits
    std::vector<std::string> prefixes;
};
static std::vector<BaseSpec> const& bases()
{
    static std::vector<BaseSpec> b = {
            {10, 18, "01459", "0123456789", {""}},
            {16, 15, "0178fF", "01789aAfF", {"0x", "0X"}},
            {8, 21, "0347", "01234567", {"0"}},
            {2, 63, "01", "01", {"0b", "0B"}},
    };
    return b;
}
static const char* const signs[3] = {"", "+", "-"};

// every token whose body (digits and separators) has at most maxlen characters
template<class T>
[[gnu::noinline]] void prog_short(BaseSpec const& bs, int maxlen)
{
    std::string name = "parse_short<" + tname<T>::get() + "," + base_name(bs.base) + ">";
    if (!vf::begin(name, false)) return;
    Big const lo = cv::lowest_of<T>(), hi = cv::max_of<T>();
    Guarded buf;
    std::string const alpha = VF_TIER ? bs.alphabet_short : bs.alphabet;
    for (const char* sg : signs)
        for (auto const& pre : bs.prefixes)
            // the separator directly after the octal prefix (0'7) is a well-formed C++ token too
            for (int sep_first = 0; sep_first <= (bs.base == 8 ? 1 : 0); ++sep_first)
                for (char first : alpha) {
                    if (!vf::my_row()) continue;
                    const char* shape0 = sep_first ? "sep_after_octal_prefix" : nullptr;
                    std::string body;
                    // depth-first over the grammar automaton digit (digit | ' digit)*
                    auto rec = [&](auto&& self, bool any_sep) -> void {
                        // a decimal token does not start with 0 unless it is "0" (that would be octal)
                        bool const dec_leading_zero = bs.base == 10 && body.size() > 1 && body[0] == '0';
                        if (!dec_leading_zero) check_token<T>(std::string(sg) + pre + body, shape0 ? shape0 : (any_sep ? "sep" : "plain"), lo, hi, bs.stride, buf);
                        if (dec_leading_zero) return;
                        for (char c : alpha) {
                            if (int(body.size()) + 1 <= maxlen) {
                                body.push_back(c);
                                self(self, any_sep);
                                body.pop_back();
                            }
                            if (int(body.size()) + 2 <= maxlen) {
                                body.push_back('\'');
                                body.push_back(c);
                                self(self, true);
                                body.pop_back();
                                body.pop_back();
                            }
                        }
                    };
                    if (sep_first) {
                        if (maxlen < 2) continue;
                        body = std::string("'") + first;
                    } else
                        body = std::string(1, first);
                    rec(rec, sep_first != 0);
                }
}

static std::string with_separators(std::string const& digits, int layout)
{
    // 0 none, 1 every third digit from the right, 2 after the first digit, 3 between all digits
    std::string out;
    int const n = int(digits.size());
    for (int i = 0; i < n; ++i) {
        out += digits[i];
        if (i == n - 1) break;
        bool sep = false;
        if (layout == 1) sep = (n - 1 - i) % 3 == 0;
        else if (layout == 2) sep = i == 0;
        else if (layout == 3) sep = true;
        if (sep) out += '\'';
    }
    return out;
}

// every digit count up to the widest value of T (+2), first x fill x last digit
template<class T>
[[gnu::noinline]] void prog_long(BaseSpec const& bs)
{
    std::string name = "parse_long<" + tname<T>::get() + "," + base_name(bs.base) + ">";
    if (!vf::begin(name, false)) return;
    Big const lo = cv::lowest_of<T>(), hi = cv::max_of<T>();
    Guarded buf;
    std::string const alpha = bs.alphabet;
    // digits of the widest magnitude of T in this base
    int maxdigits = 0;
    {
        Big m = hi > lo.abs() ? hi : lo.abs();
        Big b(bs.base);
        while (!m.is_zero()) {
            m = m / b;
            ++maxdigits;
        }
    }
    for (int n = 1; n <= maxdigits + 2; ++n) {
        if (!vf::my_row()) continue;
        // the alphabet in rotation (mixed digits in every chunk), from every starting offset
        for (size_t off = 0; off < alpha.size(); ++off) {
            std::string digits;
            for (int i = 0; i < n; ++i) digits += alpha[(size_t(i) + off) % alpha.size()];
            if (bs.base == 10 && n > 1 && digits[0] == '0') digits[0] = '9';
            for (int layout = 0; layout < 3; ++layout) {
                if (layout && n < 2) continue;
                std::string const body = with_separators(digits, layout);
                for (const char* sg : signs) check_token<T>(std::string(sg) + bs.prefixes[0] + body, layout ? "long_sep" : "long_plain", lo, hi, bs.stride, buf);
            }
        }
        for (char first : alpha)
            for (char fill : alpha)
                for (char last : alpha) {
                    if (n == 1 && (fill != alpha[0] || last != alpha[0])) continue;
                    if (n == 2 && fill != alpha[0]) continue;
                    std::string digits(size_t(n), fill);
                    digits[0] = first;
                    if (n > 1) digits[size_t(n) - 1] = last;
                    if (bs.base == 10 && n > 1 && first == '0') continue;  // would be an octal token
                    for (int layout = 0; layout < 4; ++layout) {
                        if (layout && n < 2) continue;
                        if (layout == 3 && n > 40 && n % 9) continue;
                        std::string const body = with_separators(digits, layout);
                        for (const char* sg : signs)
                            for (auto const& pre : bs.prefixes) check_token<T>(std::string(sg) + pre + body, layout ? "long_sep" : "long_plain", lo, hi, bs.stride, buf);
                    }
                    // leading zeros in front (not for decimal: a leading 0 makes the token octal)
                    if (bs.base != 10)
                        for (int pad : {1, bs.stride - 1, bs.stride, bs.stride + 1}) {
                            std::string const body = std::string(size_t(pad), '0') + digits;
                            for (const char* sg : {"", "-"}) check_token<T>(std::string(sg) + bs.prefixes[0] + body, "long_zero_padded", lo, hi, bs.stride, buf);
                        }
                }
    }
}

template<class T>
void parse_programs()
{
    constexpr int maxlen = VF_TIER ? 6 : 5;
    for (auto const& bs : bases()) {
        prog_short<T>(bs, maxlen);
        prog_long<T>(bs);
    }
}

static void group()
{
#if VF_PART == 0
    // T narrower than 64 bits is not supported by parse(): Sum{sum * 1'000'000'000'000'000'000} / Sum{sum << 60}
    // narrow a non-constant (ill-formed; Clang rejects it, GCC accepts it with a warning) - out of scope
    parse_programs<i64>();
    parse_programs<u64>();
    parse_programs<i128>();
    parse_programs<u128>();
#elif VF_PART == 1
    parse_programs<cnl::wide_integer<128>>();
    parse_programs<cnl::wide_integer<200>>();
#else
    parse_programs<cnl::wide_integer<512>>();
    parse_programs<cnl::wide_integer<200, unsigned>>();
#endif
}
VF_GROUP(group);

// =============================================================================================
#elif C15_MODE == 2

enum Kind { K_C = 0, K_CNL = 1, K_CNL2 = 2, K_WIDE = 3 };
static const char* const kind_suffix[4] = {"_c", "_cnl", "_cnl2", "_wide"};

template<int K, class T>
Props extract_lit(T const& x)
{
    if constexpr (K == K_C) {
        Props p;
        p.rep = Big(T::value);
        p.digits = cnl::digits_v<typename T::value_type>;
        p.flag = std::is_same_v<typename T::value_type, cnl::intmax_t>;
        return p;
    } else {
        Props p = extract_any(x);
        if constexpr (K == K_WIDE) p.flag = cnl::numbers::signedness_v<T> && !cv::scale_of<T>::scaled;
        else p.flag = cv::scale_of<T>::scaled;
        return p;
    }
}

static void lit_check(int k, const char* text, bool negated, vf::Outcome const& o, Props const& p)
{
    std::string const lit = std::string(negated ? "-" : "") + text + kind_suffix[k];
    TokenValue tv = read_token(text);
    Rat want = tv.value();
    if (negated) want = -want;
    vf::validated();
    bool const frac = tv.frac_digits > 0;
    vf::counted(frac || tv.has_sep || tv.ndigits > 1 || negated);
    std::string cls = std::string(base_name(tv.base)) + (frac ? "/fraction" : "/integer");
    if (vf::want_sample()) vf::sample(lit + " -> " + (o.ok() ? props_str(p) : o.str()) + ", token denotes " + want.str());
    if (!o.ok()) {
        vf::outcome(o.str());
        vf::violation(std::string(kind_suffix[k]) + "/" + vf::kind_name(o.kind) + "/" + cls, lit, lit + ": " + o.str());
        return;
    }
    Rat const got = Rat::scaled(p.rep, p.radix, p.exponent);
    if (got != want) {
        vf::outcome("wrong_value");
        vf::violation(std::string(kind_suffix[k]) + "/value/" + cls, lit, lit + " is " + props_str(p) + " == " + got.str() + ", token denotes " + want.str());
        return;
    }
    int const used = p.rep.bit_length();
    if (!holds(p.rep, p.digits)) {
        vf::outcome("type_too_narrow");
        vf::violation(std::string(kind_suffix[k]) + "/type_too_narrow/" + cls, lit,
                      lit + " has a type of " + std::to_string(p.digits) + " digits but its value " + p.rep.str() + " needs " + std::to_string(used));
        return;
    }
    if (!p.flag) {
        vf::outcome("wrong_type_family");
        vf::violation(std::string(kind_suffix[k]) + "/type_family", lit,
                      lit + (k == K_C ? ": value_type is not cnl::intmax_t" : k == K_WIDE ? ": not a signed wide_integer" : ": not a scaled_integer"));
        return;
    }
    if (k == K_CNL || k == K_CNL2) {
        // promised by the unit tests (test/unit/scaled_int/elastic/elastic_scaled_int.cpp): the radix is
        // the radix of the token (_cnl) or 2 (_cnl2); trailing zero digits in that radix are moved into
        // the exponent; the digits are the used digits of what remains; zero is <0 digits, exponent 0>
        int const want_radix = k == K_CNL2 ? 2 : tv.base;
        Big m = tv.digits_value;
        int e = -tv.frac_digits;
        bool representable = true;
        if (want_radix != tv.base) {
            // re-express n / base^f as m x 2^e
            Rat r = want.abs();
            r.reduce();
            int dl = r.d.bit_length();
            representable = r.d == Big::pow2(dl - 1);
            m = r.n;
            e = -(dl - 1);
        } else
            m = m.abs();
        if (m.is_zero()) e = 0;
        else
            while ((m % Big(want_radix)).is_zero()) {
                m = m / Big(want_radix);
                ++e;
            }
        if (!representable) {
            vf::outcome("generated_token_not_binary");
            vf::violation("_cnl2/harness_generated_unrepresentable_token", lit, lit);
            return;
        }
        if (p.radix != want_radix || p.exponent != e || p.rep.abs() != m) {
            vf::outcome("not_normalised");
            vf::violation(std::string(kind_suffix[k]) + "/exponent/" + cls, lit,
                          lit + " is " + props_str(p) + ", tests promise " + m.str() + " x " + std::to_string(want_radix) + "^" + std::to_string(e));
            return;
        }
        if (p.digits != m.bit_length()) {
            vf::outcome("digits_not_used_digits");
            vf::violation(std::string(kind_suffix[k]) + "/digits/" + cls, lit, lit + " is " + props_str(p) + ", tests promise " + std::to_string(m.bit_length()) + " digits");
            return;
        }
    }
    vf::outcome(std::string("ok") + kind_suffix[k] + "_" + base_name(tv.base) + (frac ? "_fraction" : "") + (negated ? "_negated" : ""));
}

#define L(TEXT, NEG, EXPR) \
    if (vf::my_row()) { \
        std::string const id_ = std::string(NEG ? "-" : "") + TEXT + kind_suffix[KIND]; \
        if (!vf::replaying() || vf::case_selected(id_)) { \
            Props p_; \
            vf::Outcome o_ = vf::run([&] { p_ = extract_lit<KIND>(EXPR); }); \
            lit_check(KIND, TEXT, NEG, o_, p_); \
        } \
    }

[[gnu::noinline]] static void lits_c()
{
    if (!vf::begin("literal<_c>" + part_suffix(), false)) return;
#define KIND K_C
#include "lit_c.inc"
#undef KIND
}
[[gnu::noinline]] static void lits_cnl()
{
    if (!vf::begin("literal<_cnl>" + part_suffix(), false)) return;
#define KIND K_CNL
#include "lit_cnl.inc"
#undef KIND
}
[[gnu::noinline]] static void lits_cnl2()
{
    if (!vf::begin("literal<_cnl2>" + part_suffix(), false)) return;
#define KIND K_CNL2
#include "lit_cnl2.inc"
#undef KIND
}
[[gnu::noinline]] static void lits_wide()
{
    if (!vf::begin("literal<_wide>" + part_suffix(), false)) return;
#define KIND K_WIDE
#include "lit_wide.inc"
#undef KIND
}
static void group()
{
    lits_c();
    lits_cnl();
    lits_cnl2();
    lits_wide();
}
VF_GROUP(group);

// =============================================================================================
#elif C15_MODE == 5
// The step of _cnl/_cnl2 between the parsed significand and the object: make_from_udl calls
// descale<intmax_t, Radix, true>(significand, power<-F, 10>). Tokens for which this call does not
// return cannot be compiled as literals (so they cannot be in a mode-2 unit); here the same call
// is made at run time for EVERY token I.F with I from a boundary list and F every digit string of
// length 1..3 over {0,1,2,5}.
// Precondition: radix 2 needs a binary fraction (documented for _cnl2).

template<int OutRadix, int F>
[[gnu::noinline]] void descale_case(std::string const& tok, TokenValue const& tv)
{
    cnl::intmax_t const sig = tv.digits_value.template to<i128>();
    Rat const want = tv.value();
    bool const integer_valued = want.is_integer();
    if (OutRadix == 2) {
        Rat r = want;
        r.reduce();
        if (!(r.d == Big::pow2(r.d.bit_length() - 1))) {
            vf::skip_pre();
            return;
        }
    }
    Props p;
    p.radix = OutRadix;
    vf::Outcome o = vf::run([&] {
        auto d = cnl::_impl::descale<cnl::intmax_t, OutRadix, true>(sig, cnl::power<-F, 10>{});
        p.rep = Big(d.significand);
        p.exponent = d.exponent;
    });
    vf::validated();
    vf::counted(integer_valued || (sig % 10) == 0);
    std::string const what = "descale<intmax_t," + std::to_string(OutRadix) + ",true>(" + tv.digits_value.str() + ", power<-" + std::to_string(F) + ",10>) [token " + tok + (OutRadix == 2 ? "_cnl2]" : "_cnl]");
    if (vf::want_sample()) vf::sample(what + " -> " + (o.ok() ? props_str(p) : o.str()));
    const char* cls = tv.digits_value.is_zero() ? "zero" : integer_valued ? (((tv.digits_value / Big::pow(Big(10), F)) % Big(OutRadix)).is_zero() ? "integer_multiple_of_radix_written_with_fraction_digits" : "integer_written_with_fraction_digits") : "fraction";
    if (!o.ok()) {
        vf::outcome(o.str());
        vf::violation(std::string("udl_descale/") + vf::kind_name(o.kind) + "/" + cls, tok, what + ": " + o.str() + ", token denotes " + want.str());
        return;
    }
    Rat const got = Rat::scaled(p.rep, p.radix, p.exponent);
    if (got != want) {
        vf::outcome("wrong_value");
        vf::violation(std::string("udl_descale/value/") + cls, tok, what + " is " + props_str(p) + " == " + got.str() + ", token denotes " + want.str());
        return;
    }
    if (!p.rep.is_zero() && (p.rep % Big(OutRadix)).is_zero()) {
        vf::outcome("not_normalised");
        vf::violation(std::string("udl_descale/not_normalised/") + cls, tok, what + " is " + props_str(p) + ": significand still divisible by the radix");
        return;
    }
    vf::outcome(std::string("ok_descale_") + cls);
}

template<int OutRadix>
[[gnu::noinline]] void descale_program()
{
    if (!vf::begin("udl_descale<" + std::to_string(OutRadix) + ">", false)) return;
    for (const char* ip : {"0", "1", "2", "3", "4", "5", "6", "8", "9", "10", "12", "16", "20", "25", "50", "100", "128", "1000", "4096", "999999999999999999"}) {
        if (!vf::my_row()) continue;
        std::string const alpha = "0125";
        std::string f;
        auto rec = [&](auto&& self) -> void {
            if (!f.empty()) {
                std::string const tok = std::string(ip) + "." + f;
                if (!vf::replaying() || vf::case_selected(tok)) {
                    TokenValue tv = read_token(tok);
                    if (f.size() == 1) descale_case<OutRadix, 1>(tok, tv);
                    else if (f.size() == 2) descale_case<OutRadix, 2>(tok, tv);
                    else descale_case<OutRadix, 3>(tok, tv);
                }
            }
            if (f.size() == 3) return;
            for (char c : alpha) {
                f.push_back(c);
                self(self);
                f.pop_back();
            }
        };
        rec(rec);
    }
}
static void group()
{
    descale_program<10>();
    descale_program<2>();
}
VF_GROUP(group);

// =============================================================================================
#elif C15_MODE == 3 || C15_MODE == 4

enum Factory { F_MEI = 0, F_MESI, F_MSI, F_MSN, F_MKSI, F_CTAD_E, F_CTAD_S, F_COUNT };
static const char* const factory_name[F_COUNT] = {"make_elastic_integer", "make_elastic_scaled_integer", "make_static_integer", "make_static_number",
                                                  "make_scaled_integer", "ctad_elastic_integer", "ctad_scaled_integer"};

// from_constant: promised digits/exponent come from the constant's value (doc comments and unit tests:
// make_elastic_integer(constant<1000>) is elastic_integer<10>; make_elastic_scaled_integer(40_c) is <3, power<3>>,
// (-1_c) is <1, power<0>>; make_static_integer(7_c) is static_integer<3>; make_static_number(444_c) is
// static_number<7, 2>). from a run-time value: the digits of the source type, exponent 0
// (make_elastic_scaled_integer(123) is <31>, (123U) is <32,..,unsigned>; make_static_*(int16_t{7}) is <15>).
static void deduce_check(int f, std::string const& id, Big const& v, bool from_constant, int src_digits, vf::Outcome const& o, Props const& p, bool most_negative_of_source = false)
{
    vf::validated();
    int const ud = v.bit_length(), tz = trailing_zero_bits(v);
    bool const pow2 = !v.is_zero() && ud == tz + 1;
    vf::counted(!v.is_zero() && (v.neg || tz > 0 || ud > 31));
    std::string const what = std::string(factory_name[f]) + "(" + (from_constant ? "constant<" + id + ">" : id) + ")";
    std::string const vcls = most_negative_of_source ? "most_negative_value_of_source_type" : v.is_zero() ? "zero" : std::string(v.neg ? "negative" : "positive") + (pow2 ? "_power_of_two" : "");
    if (vf::want_sample()) vf::sample(what + " -> " + (o.ok() ? props_str(p) : o.str()));
    std::string const fam = std::string(from_constant ? "constant/" : "value/") + factory_name[f];
    if (!o.ok()) {
        vf::outcome(o.str());
        vf::violation(fam + "/" + vf::kind_name(o.kind) + "/" + vcls, id, what + ": " + o.str());
        return;
    }
    Rat const got = Rat::scaled(p.rep, p.radix, p.exponent);
    if (got != Rat(v)) {
        vf::outcome("wrong_value");
        vf::violation(fam + "/value" + (ud > 31 ? "/wider_than_int" : ""), id, what + " is " + props_str(p) + " == " + got.str() + ", initializer is " + v.str());
        return;
    }
    if (!holds(p.rep, p.digits)) {
        vf::outcome("type_too_narrow");
        vf::violation(fam + "/type_too_narrow", id, what + " is " + props_str(p) + ": the rep needs " + std::to_string(p.rep.bit_length()) + " digits");
        return;
    }
    int want_digits = -1, want_exp = 0;
    bool exact_digits = true;
    if (!from_constant) {
        want_digits = src_digits;
        if (f == F_CTAD_E || f == F_CTAD_S) exact_digits = false;  // nothing documented: only "wide enough for the source type"
    } else {
        switch (f) {
        case F_MEI:
        case F_MSI: want_digits = ud; break;
        case F_MESI:
            want_digits = ud - tz < 1 ? 1 : ud - tz;
            want_exp = tz;
            break;
        case F_MSN:
            want_digits = ud - tz;
            want_exp = tz;
            break;
        default:
            // make_scaled_integer / CTAD: documented only as "trailing bits move into the exponent", wide enough
            want_digits = ud - tz;
            want_exp = tz;
            exact_digits = false;
        }
        if (f == F_CTAD_E) want_exp = 0, want_digits = ud;
    }
    if (p.exponent != want_exp || p.radix != 2) {
        vf::outcome("wrong_exponent");
        vf::violation(fam + "/exponent", id, what + " is " + props_str(p) + ", promised exponent " + std::to_string(want_exp));
        return;
    }
    bool const zero_slack = from_constant && v.is_zero() && p.digits <= 1;  // 0 or 1 digit for the value 0
    if (!zero_slack && (exact_digits ? p.digits != want_digits : p.digits < want_digits)) {
        vf::outcome("wrong_digits");
        vf::violation(fam + "/digits", id, what + " is " + props_str(p) + ", promised " + std::to_string(want_digits) + " digits");
        return;
    }
    vf::outcome(std::string("ok_") + factory_name[f] + (want_exp ? "_exponent" : ""));
}

// Class template argument deduction for elastic_integer{...} / scaled_integer{...}: the tree declares no
// deduction guides for these alias templates (only cnl::fraction has CTAD, covered by C16/C17). g++ accepts
// the syntax through C++20 alias CTAD but merely picks the alias's default arguments; Clang 14 rejects it.
// It is not a deduction facility the library provides or documents, so it is not judged (an earlier version
// of this check did, and raised a false alarm: see DESIGN.md sec. 15).
#define C15_HAVE_ALIAS_CTAD 0

#if C15_MODE == 3

template<int F, class C>
auto apply_factory(C c)
{
    if constexpr (F == F_MEI) return cnl::make_elastic_integer(c);
    else if constexpr (F == F_MESI) return cnl::make_elastic_scaled_integer(c);
    else if constexpr (F == F_MSI) return cnl::make_static_integer(c);
    else if constexpr (F == F_MSN) return cnl::make_static_number(c);
    else if constexpr (F == F_MKSI) return cnl::make_scaled_integer(c);
#if C15_HAVE_ALIAS_CTAD
    else if constexpr (F == F_CTAD_E) return cnl::elastic_integer{c};
    else if constexpr (F == F_CTAD_S) return cnl::scaled_integer{c};
#endif
}

template<int F, auto Value>
[[gnu::noinline]] void const_case(const char* id)
{
    if (vf::replaying() && !vf::case_selected(id)) return;
    Props p;
    vf::Outcome o = vf::run([&] { p = extract_any(apply_factory<F>(cnl::constant<Value>{})); });
    deduce_check(F, id, Big(Value), true, 0, o, p);
}

#define V(TEXT, EXPR) \
    if (vf::my_row()) const_case<FACT, (EXPR)>(TEXT);

template<int F>
[[gnu::noinline]] void const_program()
{
    if (!vf::begin(std::string("deduce_constant<") + factory_name[F] + ">" + part_suffix(), false)) return;
#define FACT F
#include "constants.inc"
#undef FACT
}

static void group()
{
    const_program<F_MEI>();
    const_program<F_MESI>();
    const_program<F_MSI>();
    const_program<F_MSN>();
    const_program<F_MKSI>();
#if C15_HAVE_ALIAS_CTAD
    const_program<F_CTAD_E>();
    const_program<F_CTAD_S>();
#endif
}
VF_GROUP(group);

#else  // C15_MODE == 4

template<int F, class Src>
[[gnu::noinline]] void value_program()
{
    if (!vf::begin(std::string("deduce_value<") + factory_name[F] + "," + vf::tn<Src>() + ">", false)) return;
    for (Src v : vals::lattice<Src>(1)) {
        if (!vf::my_row()) continue;
        std::string const id = vf::to_s(v);
        if (vf::replaying() && !vf::case_selected(id)) continue;
        Props p;
        vf::Outcome o = vf::run([&] {
            if constexpr (F == F_MEI) p = extract_any(cnl::make_elastic_integer(v));
            else if constexpr (F == F_MESI) p = extract_any(cnl::make_elastic_scaled_integer(v));
            else if constexpr (F == F_MSI) p = extract_any(cnl::make_static_integer(v));
            else if constexpr (F == F_MSN) p = extract_any(cnl::make_static_number(v));
            else if constexpr (F == F_MKSI) p = extract_any(cnl::make_scaled_integer(v));
#if C15_HAVE_ALIAS_CTAD
            else if constexpr (F == F_CTAD_E) p = extract_any(cnl::elastic_integer{v});
            else if constexpr (F == F_CTAD_S) p = extract_any(cnl::scaled_integer{v});
#endif
        });
        deduce_check(F, id, Big(v), false, vals::bits_v<Src> - (vals::is_signed_v<Src> ? 1 : 0), o, p, vals::is_signed_v<Src> && v == vals::min_v<Src>());
    }
}

// make_elastic_scaled_integer(scaled_integer<Rep, power<E, Radix>>): "hold that initializer exactly" — value only
// (no digits/exponent are documented for this overload)
template<class Src>
[[gnu::noinline]] void scaled_value_program()
{
    using SS = cv::scale_of<Src>;
    using Rep = typename SS::rep;
    if (!vf::begin(std::string("deduce_value<make_elastic_scaled_integer,") + cv::rep_name<Src>() + ">", false)) return;
    for (Rep r : vals::lattice<Rep>(1)) {
        if (!vf::my_row()) continue;
        std::string const id = vf::to_s(r);
        if (vf::replaying() && !vf::case_selected(id)) continue;
        if (vals::is_signed_v<Rep> && r == vals::min_v<Rep>()) {
            vf::skip_pre();  // elastic types have a symmetric range
            continue;
        }
        Src v = cnl::_impl::from_rep<Src>(r);
        Props p;
        vf::Outcome o = vf::run([&] { p = extract_any(cnl::make_elastic_scaled_integer(v)); });
        vf::validated();
        Rat const want = Rat::scaled(Big(r), SS::radix, SS::exponent);
        vf::counted(!want.is_integer());
        std::string const what = std::string("make_elastic_scaled_integer(") + cv::rep_name<Src>() + " rep " + id + ")";
        if (vf::want_sample()) vf::sample(what + " -> " + (o.ok() ? props_str(p) : o.str()));
        std::string const cls = std::string(SS::radix == 2 ? "binary" : "non_binary") + (want.is_integer() ? "/integral" : "/fractional");
        if (!o.ok()) {
            vf::outcome(o.str());
            vf::violation("value/make_elastic_scaled_integer/from_scaled/" + std::string(vf::kind_name(o.kind)) + "/" + cls, id, what + ": " + o.str());
            continue;
        }
        Rat const got = Rat::scaled(p.rep, p.radix, p.exponent);
        if (got != want) {
            vf::outcome("wrong_value");
            vf::violation("value/make_elastic_scaled_integer/from_scaled/value/" + cls, id, what + " is " + props_str(p) + " == " + got.str() + ", initializer is " + want.str());
        } else if (!holds(p.rep, p.digits)) {
            vf::outcome("type_too_narrow");
            vf::violation("value/make_elastic_scaled_integer/from_scaled/type_too_narrow/" + cls, id, what + " is " + props_str(p) + ": the rep needs " + std::to_string(p.rep.bit_length()) + " digits");
        } else
            vf::outcome("ok_make_elastic_scaled_integer_from_scaled");
    }
}

// make_elastic_integer(v) for v of a CNL class type (elastic / wide / rounding / overflow integer): "hold that initializer
// exactly" — the value, and a type whose digits hold it
template<class Src>
[[gnu::noinline]] void class_value_program(const char* sname)
{
    if (!vf::begin(std::string("deduce_value<make_elastic_integer,") + sname + ">", false)) return;
    for (Big const& r : cv::space<Src>(8, 1)) {
        if (!vf::my_row()) continue;
        std::string const id = r.str();
        if (vf::replaying() && !vf::case_selected(id)) continue;
        if (r.neg && r.abs() > cv::max_of<Src>()) {
            vf::skip_pre();  // the most negative value of the source: elastic types have a symmetric range
            continue;
        }
        Src v = cv::make_int<Src>(r);
        Props p;
        vf::Outcome o = vf::run([&] { p = extract_any(cnl::make_elastic_integer(v)); });
        vf::validated();
        vf::counted(r.neg);
        std::string const what = std::string("make_elastic_integer(") + sname + "{" + id + "})";
        if (vf::want_sample()) vf::sample(what + " -> " + (o.ok() ? props_str(p) : o.str()));
        const char* cls = r.is_zero() ? "zero" : (r.neg ? "negative" : "positive");
        if (!o.ok()) {
            vf::outcome(o.str());
            vf::violation(std::string("value/make_elastic_integer/from_class/") + vf::kind_name(o.kind) + "/" + cls, id, what + ": " + o.str());
            continue;
        }
        Rat const got = Rat::scaled(p.rep, p.radix, p.exponent);
        if (got != Rat(r)) {
            vf::outcome("wrong_value");
            vf::violation(std::string("value/make_elastic_integer/from_class/value/") + cls, id, what + " is " + props_str(p) + " == " + got.str() + ", initializer is " + id);
        } else if (!holds(p.rep, p.digits)) {
            vf::outcome("type_too_narrow");
            vf::violation(std::string("value/make_elastic_integer/from_class/type_too_narrow/") + cls, id, what + " is " + props_str(p));
        } else
            vf::outcome("ok_make_elastic_integer_from_class");
    }
}

template<class Src>
void value_programs()
{
    value_program<F_MEI, Src>();
    value_program<F_MESI, Src>();
    value_program<F_MSI, Src>();
    value_program<F_MSN, Src>();
    value_program<F_MKSI, Src>();
#if C15_HAVE_ALIAS_CTAD
    value_program<F_CTAD_E, Src>();
    value_program<F_CTAD_S, Src>();
#endif
}

static void group()
{
#if VF_PART == 0
    value_programs<i8>();
    value_programs<u8>();
    value_programs<i16>();
    value_programs<u16>();
    value_programs<i32>();
    value_programs<u32>();
#elif VF_PART == 2
    scaled_value_program<cnl::scaled_integer<int, cnl::power<-2, 10>>>();
    scaled_value_program<cnl::scaled_integer<i16, cnl::power<-1, 10>>>();
    scaled_value_program<cnl::scaled_integer<int, cnl::power<2, 10>>>();
    scaled_value_program<cnl::scaled_integer<i8, cnl::power<-1, 16>>>();
#elif VF_PART == 3
    scaled_value_program<cnl::scaled_integer<int, cnl::power<-3>>>();
    scaled_value_program<cnl::scaled_integer<u8, cnl::power<-2>>>();
    scaled_value_program<cnl::scaled_integer<int, cnl::power<-2, 3>>>();
#elif VF_PART == 5
    class_value_program<cnl::elastic_integer<5>>("elastic_integer<5>");
    class_value_program<cnl::elastic_integer<40>>("elastic_integer<40>");
    class_value_program<cnl::elastic_integer<7, unsigned>>("elastic_integer<7,unsigned>");
    class_value_program<cnl::rounding_integer<int>>("rounding_integer<int>");
    class_value_program<cnl::overflow_integer<int, cnl::saturated_overflow_tag>>("overflow_integer<int,saturated>");
    class_value_program<cnl::wide_integer<40>>("wide_integer<40>");
    class_value_program<cnl::wide_integer<100>>("wide_integer<100>");
#elif VF_PART == 4
    scaled_value_program<cnl::scaled_integer<i64, cnl::power<-4, 10>>>();
    scaled_value_program<cnl::scaled_integer<i64, cnl::power<-20>>>();
#else
    value_programs<i64>();
    value_programs<u64>();
    value_programs<i128>();
    value_programs<u128>();
#endif
}
VF_GROUP(group);

#endif
#endif

VF_MAIN()
