// C09 — narrowing conversions under a rounding mode are correctly rounded.
// Programs (generated): convert<Tag, Dest>(src) and wrapper construction for
//   floating -> integer / scaled_integer, finer scaled_integer -> coarser scaled_integer / integer,
//   and loss-free conversions (must be exact under every mode), for the four rounding tags.
// Oracle: exact rational source value divided by the destination unit, rounded by the mode
//   (native: toward zero; nearest: ties away from zero; tie_to_pos_inf: floor(x+1/2); neg_inf: floor).
// Precondition: the rounded result is representable in the destination rep; floating sources finite.
#include "cnlval.h"

using cnl::power;
using cnl::scaled_integer;

template<class Tag>
struct tag_info;
template<>
struct tag_info<cnl::native_rounding_tag> {
    static constexpr const char* name = "native";
    static constexpr int mode = 0;
};
template<>
struct tag_info<cnl::nearest_rounding_tag> {
    static constexpr const char* name = "nearest";
    static constexpr int mode = 1;
};
template<>
struct tag_info<cnl::tie_to_pos_inf_rounding_tag> {
    static constexpr const char* name = "tie_to_pos_inf";
    static constexpr int mode = 2;
};
template<>
struct tag_info<cnl::neg_inf_rounding_tag> {
    static constexpr const char* name = "neg_inf";
    static constexpr int mode = 3;
};

static Big round_mode(Rat const& q, int mode)
{
    switch (mode) {
    case 0: return q.trunc();
    case 1: return q.round_half_away();
    case 2: return q.round_half_up();
    default: return q.floor();
    }
}

template<class T>
inline constexpr bool is_fp = std::is_floating_point_v<T>;
template<class T>
std::string tname()
{
    if constexpr (is_fp<T>) return vf::tn<T>();
    else return cv::rep_name<T>();
}
template<class T>
T build(Big const& repv)
{
    using S = cv::scale_of<T>;
    if constexpr (S::scaled) return cnl::_impl::from_rep<T>(cv::make_int<typename S::rep>(repv));
    else return cv::make_int<T>(repv);
}

template<class F>
std::vector<F> float_sources(int de, int digits)
{
    std::vector<F> v;
    for (int e = de - 3; e <= de + digits + 1; ++e)
        for (unsigned m : {0x20u, 0x21u, 0x2au, 0x30u, 0x3fu, 0x35u, 0x28u, 0x3eu, 0x31u})
            for (int s : {1, -1}) v.push_back(F(s) * std::ldexp(F(m), e - 5));
    F unit = std::ldexp(F(1), de);
    for (long long k : {0ll, 1ll, 2ll, 3ll, 4ll, 7ll, 8ll, 100ll, 126ll, 127ll, 128ll, 254ll, 255ll, 256ll, 32766ll, 32767ll, 32768ll, 65535ll, (1ll << 23) - 1, 1ll << 23, (1ll << 23) + 1, (1ll << 24) + 2, (1ll << 31) - 1,
                        (1ll << 52) + 1, (1ll << 53) - 1, (1ll << 62) + 1})
        for (F d : {F(0), F(0.5), F(0.25), F(0.75), F(0.499), F(0.501)})
            for (int s : {1, -1}) {
                F x = F(s) * (F(k) + d) * unit;
                v.push_back(x);
                v.push_back(std::nextafter(x, F(0)));
                v.push_back(std::nextafter(x, x * 2 + s));
            }
    for (F x : {F(0), -F(0), std::numeric_limits<F>::min(), std::numeric_limits<F>::denorm_min(), -std::numeric_limits<F>::denorm_min(), F(0.1), F(-0.1), F(-2.6), F(2.6), F(1e-3)}) v.push_back(x);
    std::sort(v.begin(), v.end());
    v.erase(std::unique(v.begin(), v.end()), v.end());
    return v;
}

// non-binary destination unit R^de: multiples, ties and near-ties of the unit, computed in F (the exact value of each
// source is read back from the float itself)
template<class F>
std::vector<F> float_sources_radix(int radix, int de)
{
    std::vector<F> v;
    F unit = std::pow(F(radix), F(de));
    for (long long k : {0ll, 1ll, 2ll, 3ll, 7ll, 12ll, 99ll, 100ll, 127ll, 1000ll, 32767ll, 123456ll})
        for (F f : {F(0), F(0.1), F(0.25), F(0.4), F(0.49), F(0.5), F(0.51), F(0.6), F(0.75), F(0.9)})
            for (int sg : {1, -1}) {
                F x = F(sg) * (F(k) + f) * unit;
                v.push_back(x);
                v.push_back(std::nextafter(x, F(0)));
                v.push_back(std::nextafter(x, x * 2 + sg));
            }
    std::sort(v.begin(), v.end());
    v.erase(std::unique(v.begin(), v.end()), v.end());
    return v;
}

enum How { VIA_CONVERT, VIA_CTOR, VIA_SN };

// Dest is the plain destination type (int or scaled_integer<Rep,power<E>>); with VIA_CTOR the value is
// constructed as scaled_integer<rounding_integer<Rep,Tag>,...> / rounding_integer<Dest,Tag> instead.
// VIA_SN: the destination is cnl::static_number<SND, exponent of Dest, Tag> (Dest only carries the exponent); the source may
// be floating, a plain scaled_integer or another static_number (whose own rounding tag must not matter).
template<class Src, class Dest, class Tag, How how, int SND = 0>
[[gnu::noinline]] void prog(int fullbits, int step, const char* srcname = nullptr)
{
    using SS = cv::scale_of<Src>;
    using SD = cv::scale_of<Dest>;
    constexpr int mode = tag_info<Tag>::mode;
    constexpr int de = SD::exponent;
    using RepD = typename SD::rep;
    std::string name = how == VIA_SN ? std::string("sn<") + tag_info<Tag>::name + ",static_number<" + std::to_string(SND) + "," + std::to_string(de) + "><-" + (srcname ? std::string(srcname) : tname<Src>()) + ">"
                                     : std::string(how == VIA_CTOR ? "ctor<" : "convert<") + tag_info<Tag>::name + "," + tname<Dest>() + "<-" + tname<Src>() + ">";
    auto fits_dest = [](Big const& v) {
        if constexpr (how == VIA_SN) return v.abs() < Big::pow2(SND);
        else return cv::fits<RepD>(v);
    };
    auto invoke = [](Src const& s) -> Big {
        if constexpr (how == VIA_SN) {
            cnl::static_number<SND, de, Tag> d(s);
            return cv::int_value(cnl::_impl::to_rep(d));
        } else if constexpr (how == VIA_CONVERT) {
            return cv::int_value(cnl::_impl::to_rep(cnl::convert<Tag, Dest>{}(s)));
        } else if constexpr (SD::scaled) {
            using RD = scaled_integer<cnl::rounding_integer<RepD, Tag>, power<SD::exponent, SD::radix>>;
            RD d(s);
            return cv::int_value(cnl::_impl::to_rep(d));
        } else {
            cnl::rounding_integer<Dest, Tag> d(s);
            return cv::int_value(d);
        }
    };
    constexpr int radix = SD::radix;  // fixed-point sources have the same radix (generated so)
    Rat const unit = Rat::scaled(Big(1), radix, de);
    if constexpr (is_fp<Src>) {
        if (!vf::begin(name, false)) return;
        int digits = how == VIA_SN ? SND : cv::max_of<RepD>().bit_length();
        for (Src x : (radix == 2 ? float_sources<Src>(de, digits) : float_sources_radix<Src>(radix, de))) {
            if (!vf::my_row()) continue;
            auto id = [&] { return vf::to_s(x); };
            if (vf::replaying() && !vf::case_selected(id())) continue;
            if (!std::isfinite(x) || (x != 0 && std::fabs(x) < Src(0x1p-300)) || std::fabs(x) > Src(0x1p300)) {
                vf::skip_pre();
                continue;
            }
            Rat q = ref::to_rat(x) / unit;
            Big want = round_mode(q, mode);
            if (!fits_dest(want)) {
                vf::skip_pre();
                continue;
            }
            if constexpr (how == VIA_SN) {
                // static_number carries an overflow layer that tests the source value itself: a source beyond the
                // destination's extreme values whose *rounded* result is inside is not judged here (the band C06 leaves open)
                if (q.abs() > Rat(Big::pow2(SND) - Big(1))) {
                    vf::skip_pre();
                    continue;
                }
            }
            Big got;
            vf::Outcome o = vf::run([&] { got = invoke(x); });
            vf::validated();
            Rat frac = q - Rat(q.floor());
            bool tie = frac == Rat(Big(1), Big(2));
            bool inexact = !q.is_integer();
            vf::counted(inexact);
            if (vf::want_sample()) vf::sample(name + " " + id() + " -> " + got.str() + " expected " + want.str());
            const char* cls = tie ? "tie" : (inexact ? "inexact" : "exact");
            const char* sg = q.sign() < 0 ? "neg" : "pos";
            // semantic labels (exact predicates): is x +- half a destination unit representable in the
            // source format / in long double? (adding the bias in floating point loses it otherwise)
            std::string labels;
            {
                Rat xr = ref::to_rat(x), half = unit * Rat(Big(1), Big(2));
                bool ov;
                bool src_inexact = ref::round_to_format<Src>(xr + half, ov) != xr + half || ref::round_to_format<Src>(xr - half, ov) != xr - half;
                bool ld_inexact = ref::round_to_format<long double>(xr + half, ov) != xr + half || ref::round_to_format<long double>(xr - half, ov) != xr - half;
                if (src_inexact) labels += "/half_sum_inexact_in_source";
                if (ld_inexact) labels += "/half_sum_inexact_in_long_double";
                // x / unit itself is not representable in the source format (underflow of a denormal scaled down)
                if (ref::round_to_format<Src>(xr / unit, ov) != xr / unit) labels += "/scaling_underflows_in_source";
            }
            std::string path = std::string(SD::scaled ? "from_float.to_scaled/" : "from_float.to_int/") + (radix != 2 ? "non_binary_radix/" : "");
            if (!o.ok()) {
                vf::outcome(o.str());
                vf::violation(path + o.str() + "/" + cls + "/" + sg + labels, id(), id() + ": " + o.str() + ", expected rep " + want.str());
            } else if (got != want) {
                vf::outcome("wrong_value");
                vf::violation(path + "value/" + cls + "/" + sg + labels, id(), id() + ": rep " + got.str() + ", expected " + want.str() + " (" + q.str() + " units)");
            } else
                vf::outcome(std::string("ok_") + cls + "_" + sg);
        }
    } else {
        constexpr int se = SS::exponent;
        using RepS = typename SS::rep;
        bool full = cv::space_is_full<RepS>(fullbits);
        if (!vf::begin(name, full)) return;
        auto As = cv::space<RepS>(fullbits, step);
        if (!full && radix != 2 && de > se && de - se < 18) {
            // closure under ties and thirds of a destination unit: k*R^s + {R^s/2, R^s/R, R^s - R^s/R} +- 1
            Big U(1);
            for (int i = 0; i < de - se; ++i) U = U * Big(radix);
            std::vector<Big> extra;
            for (auto const& a : As) {
                Big k = a / U;
                for (Big const& off : {U / Big(2), U / Big(radix), U - U / Big(radix), (U * Big(3)) / Big(4)})
                    for (int d = -1; d <= 1; ++d)
                        for (int sg : {1, -1}) {
                            Big c = k * U + Big(sg) * off + Big(d);
                            if (cv::fits<RepS>(c)) extra.push_back(c);
                        }
            }
            for (auto& e : extra) As.push_back(e);
        }
        if (!full && radix == 2 && de > se && de - se < 62) {
            // closure under ties: k*2^s +- 2^(s-1) +- 1
            int s = de - se;
            std::vector<Big> extra;
            for (auto const& a : As) {
                Big k = a.shr_trunc(s);
                for (int d = -1; d <= 1; ++d)
                    for (int h : {-1, 1}) {
                        Big c = k.shl(s) + Big(h) * Big::pow2(s - 1) + Big(d);
                        if (cv::fits<RepS>(c)) extra.push_back(c);
                    }
            }
            for (auto& e : extra) As.push_back(e);
        }
        for (auto const& a : As) {
            if (!vf::my_row()) continue;
            auto id = [&] { return a.str(); };
            if (vf::replaying() && !vf::case_selected(id())) continue;
            Rat q = Rat::scaled(a, radix, se) / unit;
            Big want = round_mode(q, mode);
            if (!fits_dest(want)) {
                vf::skip_pre();
                continue;
            }
            Src s = build<Src>(a);
            Big got;
            vf::Outcome o = vf::run([&] { got = invoke(s); });
            vf::validated();
            Rat frac = q - Rat(q.floor());
            bool tie = frac == Rat(Big(1), Big(2));
            bool inexact = !q.is_integer();
            vf::counted(inexact);
            if (vf::want_sample()) vf::sample(name + " " + id() + " -> " + got.str() + " expected " + want.str());
            const char* cls = tie ? "tie" : (inexact ? "inexact" : "exact");
            const char* sg = q.sign() < 0 ? "neg" : "pos";
            std::string path = std::string(de <= se ? "from_fixed.loss_free/" : "from_fixed.narrowing/") + (radix != 2 ? "non_binary_radix/" : "");
            std::string labels;
            if constexpr (cv::is_builtin_int<RepS> && radix != 2) {
                using Prom = decltype(+std::declval<std::conditional_t<cv::is_builtin_int<RepS>, RepS, int>>());
                if (de > se && de - se < 18) {
                    Big U(1);
                    for (int i = 0; i < de - se; ++i) U = U * Big(radix);
                    if (!cv::fits<Prom>(a.abs() + U / Big(2))) labels += "/bias_overflows_source";
                }
            }
            if constexpr (cv::is_builtin_int<RepS> && radix == 2) {
                using Prom = decltype(+std::declval<std::conditional_t<cv::is_builtin_int<RepS>, RepS, int>>());
                // adding half a destination unit overflows the promoted source rep
                if (de > se && de - se < 100 && !cv::fits<Prom>(a.abs() + Big::pow2(de - se - 1))) labels += "/bias_overflows_source";
                // (half) the destination unit is not representable in the source type
                if (de > se && de - se < 100 && !cv::fits<RepS>(Big::pow2(de - se))) labels += cv::fits<RepS>(Big::pow2(de - se - 1)) ? "/unit_exceeds_source" : "/half_unit_exceeds_source";
                // scaling up to a finer destination overflows the promoted source rep
                if (de < se && se - de < 100 && !cv::fits<Prom>(a * Big::pow2(se - de))) labels += "/scaling_overflows_source";
            }
            if constexpr (how == VIA_SN && !cv::is_builtin_int<RepS>) {
                // elastic source of SD digits divided by 2^s is given SD - s digits; rounding can carry into one more
                constexpr int SD = cnl::digits_v<RepS>;
                if (de - se > SD) labels += "/shift_exceeds_source_digits";  // the intermediate elastic type has a negative digit count
                else if (de > se && (de - se >= SD ? !want.is_zero() : want.abs() >= Big::pow2(SD - (de - se)))) labels += "/rounding_carries_past_source_digits_minus_shift";
            }
            if (!o.ok()) {
                vf::outcome(o.str());
                vf::violation(path + o.str() + "/" + cls + "/" + sg + labels, id(), id() + ": " + o.str() + ", expected rep " + want.str());
            } else if (got != want) {
                vf::outcome("wrong_value");
                vf::violation(path + "value/" + cls + "/" + sg + labels, id(), id() + ": rep " + got.str() + ", expected " + want.str() + " (" + q.str() + " units)");
            } else
                vf::outcome(std::string("ok_") + cls + "_" + sg);
        }
    }
}

// ---- the elastic-on-rounding nesting scaled_integer<elastic_integer<D, rounding_integer<int, Tag>>, power<E>> ----------
// (what elastic_scaled_integer with a rounding Narrowest is): narrowing to fewer fractional digits, also by as many or
// more bits than the source has digits, and conversion to a built-in integer; every source value
template<class Tag, int SD, int SE, int DD, int DE>
[[gnu::noinline]] void prog_er()
{
    constexpr int mode = tag_info<Tag>::mode;
    using RI = cnl::rounding_integer<int, Tag>;
    using Src = scaled_integer<cnl::elastic_integer<SD, RI>, power<SE>>;
    using Dst = scaled_integer<cnl::elastic_integer<DD, RI>, power<DE>>;
    std::string name = std::string("er<") + tag_info<Tag>::name + ",elastic_rounding<" + std::to_string(DD) + "," + std::to_string(DE) + "><-elastic_rounding<" + std::to_string(SD) + "," + std::to_string(SE) + ">>";
    if (!vf::begin(name, true)) return;
    Big const top = Big::pow2(SD) - Big(1);
    for (Big r = -top; r <= top; r = r + Big(1)) {
        if (!vf::my_row()) continue;
        std::string const id = r.str();
        if (vf::replaying() && !vf::case_selected(id)) continue;
        Src sv = build<Src>(r);
        const char* sg = r.neg ? "neg" : "pos";
        std::string const lab = (DE - SE >= SD) ? "/narrow_by_at_least_source_digits" : "";
        {
            Rat q = Rat::scaled(r, 2, SE - DE);
            Big want = round_mode(q, mode);
            if (want.abs() < Big::pow2(DD)) {
                Big got;
                vf::Outcome o = vf::run([&] {
                    Dst d(sv);
                    got = cv::int_value(cnl::_impl::to_rep(d));
                });
                vf::validated();
                vf::counted(!q.is_integer());
                const char* cls = q.is_integer() ? "exact" : ((q - Rat(q.floor())) == Rat(Big(1), Big(2)) ? "tie" : "inexact");
                if (!o.ok() || got != want) {
                    vf::outcome(o.ok() ? "wrong_value" : o.str());
                    vf::violation(std::string("er.narrowing/") + (o.ok() ? "value" : o.str()) + "/" + cls + "/" + sg + lab, id, id + ": " + (o.ok() ? "rep " + got.str() : o.str()) + ", expected " + want.str() + " (" + q.str() + " units)");
                } else
                    vf::outcome(std::string("ok_") + cls + "_" + sg);
            } else
                vf::skip_pre();
        }
        {
            Rat q = Rat::scaled(r, 2, SE);
            Big want = round_mode(q, mode);
            long long got = 0;
            vf::Outcome o = vf::run([&] { got = static_cast<long long>(sv); });
            vf::validated();
            const char* cls = q.is_integer() ? "exact" : ((q - Rat(q.floor())) == Rat(Big(1), Big(2)) ? "tie" : "inexact");
            if (!o.ok() || Big(got) != want) {
                vf::outcome(o.ok() ? "wrong_value" : o.str());
                vf::violation(std::string("er.to_integer/") + (o.ok() ? "value" : o.str()) + "/" + cls + "/" + sg + ((-SE >= SD) ? "/narrow_by_at_least_source_digits" : ""), id, id + ": static_cast<long long> gives " + (o.ok() ? std::to_string(got) : o.str()) + ", expected " + want.str());
            } else
                vf::outcome(std::string("ok_to_integer_") + cls);
        }
    }
}

template<class Rep, int E, int Radix = 2>
using SI = scaled_integer<Rep, power<E, Radix>>;
using E15 = cnl::elastic_integer<15>;
using E31 = cnl::elastic_integer<31>;
using OVS = cnl::overflow_integer<int, cnl::saturated_overflow_tag>;
using RNI = cnl::rounding_integer<int>;  // its own (nearest) rounding must not be applied on top of the conversion's
using W100 = cnl::wide_integer<100>;
using f32 = float;
using f64 = double;
using f80 = long double;
template<int D, int E, class Tag>
using SN = cnl::static_number<D, E, Tag>;
using NAT = cnl::native_rounding_tag;
using NEA = cnl::nearest_rounding_tag;
using TIE = cnl::tie_to_pos_inf_rounding_tag;
using NEG = cnl::neg_inf_rounding_tag;

static void group()
{
    constexpr int FB = VF_TIER ? 16 : 8;
    constexpr int ST = VF_TIER ? 1 : 2;
#include "programs.inc"
}
VF_GROUP(group);
VF_MAIN()
