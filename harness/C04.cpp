// C04 — conversions preserve the value or truncate toward zero at destination resolution.
// Programs (generated): (source type, destination type) over scaled_integer instantiations, built-in
// integers and float/double/long double. Oracle: exact source value v; if the destination can
// represent v the result equals v; otherwise the result is trunc(v / unit) * unit (unit = destination
// resolution). scaled -> floating must be the correctly rounded (nearest-even) value, bit-exact.
// Round trips through a floating type with enough significand digits, from_rep/to_rep and wrap/unwrap
// are identities. Precondition (exact): truncated value within the destination range; the scaling step
// fits the promoted source rep (integer sources); floating sources finite and within capacity.
#include "cnlval.h"

using cnl::power;
using cnl::scaled_integer;

template<class T>
inline constexpr bool is_fp = std::is_floating_point_v<T>;

template<class T>
std::string tname()
{
    if constexpr (is_fp<T>) return vf::tn<T>();
    else return cv::rep_name<T>();
}

template<class T>
T build(Big const& repv)
{
    using S = cv::scale_of<T>;
    if constexpr (S::scaled) return cnl::_impl::from_rep<T>(cv::make_int<typename S::rep>(repv));
    else return cv::make_int<T>(repv);
}

template<class F>
F make_float(Rat const& r)
{
    // r is exactly representable by construction (m * 2^e with small m)
    long double acc = 0;
    Big n = r.n.abs();
    for (int i = n.bit_length() - 1; i >= 0; --i) acc = acc * 2 + (n.bit(i) ? 1 : 0);
    acc = std::ldexp(acc, -(r.d.bit_length() - 1));
    return F(r.n.neg ? -acc : acc);
}

// floating-point source lattice for a destination with resolution radix^de and `digits` digits
template<class F>
std::vector<F> float_sources(int de, int radix, int digits)
{
    std::vector<F> v;
    int lo = radix == 2 ? de - 3 : -12, hi = radix == 2 ? de + digits + 1 : 40;
    for (int e = lo; e <= hi; ++e)
        for (unsigned m : {0x20u, 0x21u, 0x2au, 0x30u, 0x3fu, 0x35u, 0x28u, 0x3eu})  // 6-bit mantissas 1xxxxx
            for (int s : {1, -1}) v.push_back(F(s) * std::ldexp(F(m), e - 5));
    for (int k : {0, 1, 2, 3, 7, 8, 100, 127, 128, 255, 256, 32767, 32768, 65535})
        for (F d : {F(0), F(0.5), F(-0.5), F(0.25), F(0.75), F(0.999)})
            for (int s : {1, -1}) {
                F x = F(s) * (F(k) + d);
                v.push_back(x);
                v.push_back(std::nextafter(x, F(0)));
                v.push_back(std::nextafter(x, x * 2 + s));
            }
    for (F x : {F(0), -F(0), std::numeric_limits<F>::min(), std::numeric_limits<F>::denorm_min(), -std::numeric_limits<F>::denorm_min(), F(0.1), F(-0.1), F(1e-3), F(3.14159265358979323846L)}) v.push_back(x);
    std::sort(v.begin(), v.end());
    v.erase(std::unique(v.begin(), v.end()), v.end());
    return v;
}

template<class Src, class Dest>
[[gnu::noinline]] void prog(int fullbits, int step)
{
    using SS = cv::scale_of<Src>;
    using SD = cv::scale_of<Dest>;
    std::string name = std::string("conv<") + tname<Dest>() + "<-" + tname<Src>() + ">";
    if constexpr (is_fp<Src>) {
        // ---------------- floating -> scaled / integer
        constexpr int radix = SD::radix, de = SD::exponent;
        using RepD = typename SD::rep;
        if (!vf::begin(name, false)) return;
        int digits = cv::max_of<RepD>().bit_length();
        for (Src x : float_sources<Src>(de, radix, digits)) {
            if (!vf::my_row()) continue;
            auto id = [&] { return vf::to_s(x); };
            if (vf::replaying() && !vf::case_selected(id())) continue;
            if (!std::isfinite(x) || (x != 0 && std::fabs(x) < Src(0x1p-300)) || std::fabs(x) > Src(0x1p300)) {
                vf::skip_pre();
                continue;
            }
            Rat v = ref::to_rat(x);
            Rat unit = Rat::scaled(Big(1), radix, de);
            Big want = (v / unit).trunc();
            if (!cv::fits<RepD>(want)) {
                vf::skip_pre();
                continue;
            }
            // radix 10 scaling of a binary float is inexact by construction: judged separately
            bool exact_scaling = radix == 2;
            Big got;
            vf::Outcome o = vf::run([&] { got = cv::int_value(cnl::_impl::to_rep(Dest(x))); });
            vf::validated();
            bool inexact = Rat(want) * unit != v;
            vf::counted(inexact);
            if (vf::want_sample()) vf::sample(name + " " + id() + " -> rep " + got.str() + " expected " + want.str());
            if (!o.ok()) {
                vf::outcome(o.str());
                vf::violation("float_to_fixed/" + o.str(), id(), id() + ": " + o.str() + ", expected rep " + want.str());
            } else if (got != want) {
                bool off_by_one = (got - want).abs() == Big(1);
                vf::outcome(exact_scaling ? "wrong_value" : "wrong_value_decimal");
                // decimal scales of a binary floating-point value: a class of its own (the scaling factor is not exact)
                vf::violation(std::string("float_to_fixed/value/") + (inexact ? "truncating" : "exact") + (exact_scaling ? "" : (off_by_one ? "/decimal/off_by_one" : "/decimal/off_by_more")), id(), id() + ": rep " + got.str() + ", expected " + want.str());
            } else
                vf::outcome(inexact ? (want.neg || v.sign() < 0 ? "ok_truncated_negative" : "ok_truncated") : "ok_exact");
        }
    } else if constexpr (is_fp<Dest>) {
        // ---------------- scaled / integer -> floating: correctly rounded
        constexpr int radix = SS::radix, se = SS::exponent;
        using RepS = typename SS::rep;
        bool full = cv::space_is_full<RepS>(fullbits);
        if (!vf::begin(name, full)) return;
        auto srcs = cv::space<RepS>(fullbits, 1);
        if (!full) {
            // rounding-tie lattice of the destination format: 2^k + 2^(k-p) is exactly half-way between two
            // neighbours of a p-bit significand; +-1 and +-2^j below it exercise sticky bits that an
            // intermediate rounding (e.g. through double) would lose
            constexpr int p = ref::fmt<Dest>::p;
            int const digits = cv::max_of<RepS>().bit_length();
            for (int k = p; k < digits; ++k)
                for (int odd = 0; odd <= 1; ++odd) {
                    Big tie = Big::pow2(k) + (odd ? Big::pow2(k - p + 1) : Big(0)) + Big::pow2(k - p);
                    for (Big d : {Big(0), Big(1), Big(-1), k - p > 30 ? Big::pow2(k - p - 30) : Big(2), k - p > 30 ? -Big::pow2(k - p - 30) : Big(-2)})
                        for (int sgn : {1, -1}) {
                            Big c = Big(sgn) * (tie + d);
                            if (cv::fits<RepS>(c)) srcs.push_back(c);
                        }
                }
        }
        for (auto const& a : srcs) {
            if (!vf::my_row()) continue;
            auto id = [&] { return a.str(); };
            if (vf::replaying() && !vf::case_selected(id())) continue;
            Rat v = Rat::scaled(a, radix, se);
            bool ov;
            Rat want = ref::round_to_format<Dest>(v, ov);
            if (ov) {  // beyond the largest finite value of the floating type: outside the property
                vf::skip_pre();
                continue;
            }
            Src s = build<Src>(a);
            Dest got{};
            vf::Outcome o = vf::run([&] { got = static_cast<Dest>(s); });
            vf::validated();
            bool rounded = want != v;
            vf::counted(rounded || a.bit_length() >= ref::fmt<Dest>::p - 1);
            if (vf::want_sample()) vf::sample(name + " " + id() + " -> " + vf::to_s(got));
            if (!o.ok()) {
                vf::outcome(o.str());
                vf::violation("fixed_to_float/" + o.str(), id(), id() + ": " + o.str());
                continue;
            }
            if (!std::isfinite(got)) {
                vf::outcome("non_finite");
                vf::violation("fixed_to_float/non_finite", id(), id() + ": got " + vf::to_s(got) + ", expected " + want.str());
                continue;
            }
            Rat g = ref::to_rat(got);
            if (g != want) {
                if (radix != 2) {
                    // decimal scales: a class of its own (rep conversion and the power of ten both round)
                    bool ovn;
                    Rat lo = ref::round_to_format<Dest>(g, ovn);
                    (void)lo;
                    vf::outcome("wrong_value_decimal");
                    vf::violation(std::string("fixed_to_float/value/decimal/") + (rounded ? "needs_rounding" : "exactly_representable"), id(), id() + ": got " + vf::to_s(got) + ", correctly rounded value of " + v.str() + " is " + want.str());
                } else {
                    vf::outcome("wrong_value");
                    vf::violation(std::string("fixed_to_float/value/") + (rounded ? "needs_rounding" : "exactly_representable"), id(), id() + ": got " + vf::to_s(got) + " = " + g.str() + ", correctly rounded value is " + want.str());
                }
                continue;
            }
            vf::outcome(rounded ? "ok_rounded" : "ok_exact");
            // round trip: identity when the floating type has at least as many significand digits
            if constexpr (SS::scaled || cv::is_builtin_int<Src>) {
                if (!rounded) {
                    Big back;
                    vf::Outcome o2 = vf::run([&] { back = cv::int_value(cnl::_impl::to_rep(Src(got))); });
                    vf::validated();
                    if (!o2.ok() || back != a) vf::violation("round_trip/" + (o2.ok() ? std::string("value") : o2.str()), id(), id() + ": through " + vf::tn<Dest>() + " gives rep " + (o2.ok() ? back.str() : o2.str()));
                }
            }
        }
    } else {
        // ---------------- integer/scaled -> integer/scaled
        constexpr int sr = SS::radix, dr = SD::radix;
        constexpr int se = SS::exponent, de = SD::exponent;
        using RepS = typename SS::rep;
        using RepD = typename SD::rep;
        bool full = cv::space_is_full<RepS>(fullbits);
        if (!vf::begin(name, full)) return;
        constexpr int radix = SS::scaled ? sr : dr;
        constexpr bool mixed_radix = SS::scaled && SD::scaled && sr != dr;  // decimal <-> binary fixed point
        // mixed radix: the library scales step by step in the type from_value<Result, Input> gives, i.e. the source's width
        std::string const mixlab = !mixed_radix ? "" : (cv::max_of<RepS>() < cv::max_of<RepD>() ? "/mixed_radix/source_rep_narrower_than_destination" : "/mixed_radix");
        using Prom = std::conditional_t<cv::is_builtin_int<RepS>, decltype(+std::declval<std::conditional_t<cv::is_builtin_int<RepS>, RepS, int>>()), RepS>;
        for (auto const& a : cv::space<RepS>(fullbits, step)) {
            if (!vf::my_row()) continue;
            auto id = [&] { return a.str(); };
            if (vf::replaying() && !vf::case_selected(id())) continue;
            Rat v = Rat::scaled(a, SS::scaled ? sr : dr, se);
            Rat unit = Rat::scaled(Big(1), SD::scaled ? dr : sr, de);
            Big want = (v / unit).trunc();
            bool pre = cv::fits<RepD>(want);
            // scaling up to a finer destination is performed in the promoted source rep: semantic label of a known failure mode
            bool scaling_overflows = false;
            if constexpr (cv::is_builtin_int<RepS> && !mixed_radix) scaling_overflows = se > de && !cv::fits<Prom>(a * Big::pow(Big(radix), se - de));
            if (!pre) {
                vf::skip_pre();
                continue;
            }
            bool inexact = Rat(want) * unit != v;
            Src s = build<Src>(a);
            Big got;
            vf::Outcome o = vf::run([&] {
                Dest d = static_cast<Dest>(s);
                got = cv::int_value(cnl::_impl::to_rep(d));
            });
            vf::validated();
            vf::counted(inexact || se != de);
            if (vf::want_sample()) vf::sample(name + " " + id() + " -> rep " + got.str() + " expected " + want.str());
            if (!o.ok()) {
                vf::outcome(o.str());
                vf::violation("fixed_to_fixed/" + o.str() + (scaling_overflows ? "/scaling_overflows_source" : "") + mixlab, id(), id() + ": " + o.str() + ", expected rep " + want.str());
            } else if (got != want) {
                vf::outcome("wrong_value");
                vf::violation(std::string("fixed_to_fixed/value/") + (inexact ? (a.neg ? "truncating_negative" : "truncating") : "exact") + (scaling_overflows ? "/scaling_overflows_source" : "") + mixlab, id(), id() + ": rep " + got.str() + ", expected " + want.str());
            } else
                vf::outcome(inexact ? (a.neg ? "ok_truncated_negative" : "ok_truncated") : "ok_exact");
            // identities
            if constexpr (SS::scaled) {
                Big viaRep;
                vf::Outcome o3 = vf::run([&] {
                    auto rep = cnl::_impl::to_rep(s);
                    Src again = cnl::_impl::from_rep<Src>(rep);
                    auto un = cnl::unwrap(s);
                    Src wr = cnl::wrap<Src>(un);
                    viaRep = cv::int_value(cnl::_impl::to_rep(again)) + cv::int_value(cnl::_impl::to_rep(wr));
                });
                vf::validated(2);
                if (!o3.ok() || viaRep != a + a) vf::violation("identity/from_rep_to_rep_wrap_unwrap", id(), id() + ": from_rep(to_rep(x)) / wrap(unwrap(x)) != x");
            }
        }
    }
}

template<class Rep, int E, int Radix = 2>
using SI = scaled_integer<Rep, power<E, Radix>>;
using E7 = cnl::elastic_integer<7>;
using E15 = cnl::elastic_integer<15>;
using E31 = cnl::elastic_integer<31>;
using f32 = float;
using f64 = double;
using f80 = long double;

static void group()
{
    constexpr int FB = 16;
    constexpr int ST = VF_TIER ? 1 : 2;
#include "programs.inc"
}
VF_GROUP(group);
VF_MAIN()
